"""Equivalence check for refactoring 2: ``ceos_alos2.sar_image.io.read_metadata``.

Every case records the returned header / metadata (summary + sha256 of the full repr) and the
exact sequence of ``read`` requests made on the file object, also when the call raises.

Run as a script (``python equiv.py``) or through pytest.  ``python equiv.py --record``
prints the observed results (used once, on the unchanged code, to fill ``EXPECTED``).
"""

import datetime  # noqa: F401  (needed to evaluate the recorded literals)
import hashlib
import io as stdio
import pprint
import struct
import sys

import fsspec
from construct import Int8ub, Seek, Struct, Tell, this

from ceos_alos2.sar_image import io
from ceos_alos2.sar_image.file_descriptor import file_descriptor_record
from ceos_alos2.utils import to_dict

HEADER_SIZES = {10: 544, 11: 192}


def make_descriptor(n_records, record_length):
    def walk(struct_, out):
        for sc in struct_.subcons:
            inner = sc.subcon if hasattr(sc, "subcon") else sc
            if hasattr(inner, "subcons"):
                sub = []
                walk(inner, sub)
                out.append((sc.name, sub))
            else:
                out.append((sc.name, sc.sizeof()))

    layout = []
    walk(file_descriptor_record, layout)
    values = {
        "number_of_sar_data_records": n_records,
        "sar_data_record_length": record_length,
        "number_of_lines_per_dataset": n_records,
        "number_of_data_groups_per_line": 4,
        "interleaving_id": "BSQ",
        "sar_data_format_type_code": "C*8",
    }

    def emit(layout):
        out = b""
        for name, item in layout:
            if name == "preamble":
                out += struct.pack(">IBBBBI", 1, 50, 192, 18, 18, 720)
            elif isinstance(item, list):
                out += emit(item)
            else:
                out += str(values.get(name, "")).rjust(item).encode("ascii")[:item]
        return out

    raw = emit(layout)
    assert len(raw) == 720, len(raw)
    return raw


def make_record(record_type, seq, line, data):
    size = HEADER_SIZES[record_type]
    header = bytearray(size)
    header[0:12] = struct.pack(">IBBBBI", seq, 50, record_type, 18, 20, size + len(data))
    header[12:16] = struct.pack(">I", line)
    header[16:20] = struct.pack(">I", seq)
    header[36:48] = struct.pack(">III", 2020, 200, 1000 + seq)
    header[48:50] = struct.pack(">H", 2)
    header[60:64] = struct.pack(">I", 1)
    return bytes(header) + data


def make_file(record_type, n_records, n_data=16, *, declared=None, declared_size=None):
    size = HEADER_SIZES[record_type] + n_data
    descriptor = make_descriptor(
        n_records if declared is None else declared,
        size if declared_size is None else declared_size,
    )
    body = b"".join(
        make_record(record_type, i + 1, i + 1, bytes(range(n_data))) for i in range(n_records)
    )
    return descriptor + body


class LoggingFile:
    def __init__(self, f):
        self.f = f
        self.log = []

    def read(self, *args, **kwargs):
        self.log.append(("read", args, kwargs, self.f.tell()))
        return self.f.read(*args, **kwargs)

    def __getattr__(self, name):
        self.log.append(("getattr", name))
        return getattr(self.f, name)


def corrupt(content, offset, value):
    new = bytearray(content)
    new[offset] = value
    return bytes(new)


default = object()
proc5 = make_file(11, 5)
sig4 = make_file(10, 4, n_data=8)

# name -> (file content, records_per_chunk)
CASES = {}
for rpc in (1, 2, 3, 4, 5, 6, 1024, default):
    CASES[f"processed-5-rpc{'default' if rpc is default else rpc}"] = (proc5, rpc)
for rpc in (1, 2, 3, 4, 7):
    CASES[f"signal-4-rpc{rpc}"] = (sig4, rpc)
for n in (0, 1, 2):
    for rpc in (1, 2):
        CASES[f"processed-{n}-rpc{rpc}"] = (make_file(11, n, n_data=4), rpc)
CASES.update(
    {
        "rpc-zero": (proc5, 0),
        "rpc-negative": (proc5, -2),
        "rpc-none": (proc5, None),
        "rpc-float-2.0": (proc5, 2.0),
        "rpc-float-2.5": (proc5, 2.5),
        "rpc-float-big": (proc5, 8.0),
        "rpc-str": (proc5, "2"),
        "rpc-true": (proc5, True),
        "truncated-file-rpc2": (proc5[:-208], 2),
        "truncated-file-rpc1": (proc5[: 720 + 208 + 100], 1),
        "truncated-file-rpc1024": (proc5[:-1], 1024),
        "truncated-header": (proc5[:500], 2),
        "empty-file": (b"", 2),
        "more-records-than-declared": (make_file(11, 5, declared=3), 2),
        "fewer-records-than-declared": (make_file(11, 3, declared=5), 2),
        "declared-size-too-small": (make_file(11, 4, declared_size=104), 2),
        "declared-size-double": (make_file(11, 4, declared_size=416), 1),
        "declared-size-zero": (make_file(11, 4, declared_size=0), 2),
        "blank-counts": (make_file(11, 2, declared="", declared_size=""), 2),
        "blank-size": (make_file(11, 2, declared_size=""), 2),
        "blank-count": (make_file(11, 2, declared=""), 2),
        "bad-type-in-chunk-2-of-3": (corrupt(proc5, 720 + 2 * 208 + 5, 99), 2),
        "bad-type-in-chunk-1-of-5": (corrupt(proc5, 720 + 5, 99), 1),
        "bad-type-second-record-of-chunk": (corrupt(proc5, 720 + 208 + 5, 99), 2),
        "bad-date-in-last-chunk": (corrupt(proc5, 720 + 4 * 208 + 39, 0)[: 720 + 5 * 208], 2),
    }
)

dummy_header = {"number_of_sar_data_records": 3, "sar_data_record_length": 17}
dummy_content = (
    b"\x03\x0E"
    + b"\x00\x00\x00\x01\x00\x0B\x00\x00\x00\x00\x00\x11\x03\x00\x00\x00\x00"
    + b"\x00\x00\x00\x02\x00\x0B\x00\x00\x00\x00\x00\x11\x04\x00\x00\x00\x00"
    + b"\x00\x00\x00\x03\x00\x0B\x00\x00\x00\x00\x00\x11\x05\x00\x00\x00\x00"
)
dummy_record_types = {
    11: Struct(
        "preamble" / io.record_preamble,
        "record_start" / Tell,
        "a" / Int8ub,
        "data" / Struct("start" / Tell, "stop" / Seek(this.start + 4)),
    ),
}
# name -> (header returned by the patched-in read_file_descriptor, records_per_chunk)
DUMMY_CASES = {
    "dummy-rpc1": (dummy_header, 1),
    "dummy-rpc2": (dummy_header, 2),
    "dummy-rpc3": (dummy_header, 3),
    "dummy-rpc4": (dummy_header, 4),
    "dummy-missing-size": ({"number_of_sar_data_records": 3}, 2),
    "dummy-missing-count": ({"sar_data_record_length": 17}, 2),
    "dummy-missing-both": ({}, 2),
    "dummy-float-count": ({"number_of_sar_data_records": 3.0, "sar_data_record_length": 17}, 2),
    "dummy-none-size": ({"number_of_sar_data_records": 3, "sar_data_record_length": None}, 2),
    "dummy-none-count": ({"number_of_sar_data_records": None, "sar_data_record_length": 17}, 2),
}


def summarize(header, metadata):
    assert type(header) is dict and type(metadata) is list, (type(header), type(metadata))
    digest = hashlib.sha256(repr((header, metadata)).encode()).hexdigest()
    summary = [
        (
            m.get("record_start"),
            m["preamble"]["record_sequence_number"],
            m.get("sar_image_data_line_number", m.get("a")),
            m["data"],
        )
        for m in metadata
    ]
    return digest, summary


def run_real(content, rpc, opener):
    with opener(content) as raw:
        f = LoggingFile(raw)
        try:
            if rpc is default:
                header, metadata = io.read_metadata(f)
            else:
                header, metadata = io.read_metadata(f, records_per_chunk=rpc)
        except Exception as e:
            return ("raises", type(e).__name__, str(e), f.log)

        expected_header = to_dict(file_descriptor_record.parse(content[:720]))
        return ("ok", header == expected_header, *summarize(header, metadata), f.log)


def open_bytesio(content):
    return stdio.BytesIO(content)


class LenientBytesIO(stdio.BytesIO):
    """like fsspec's buffered files: the length is passed through ``int``"""

    def read(self, length=-1):
        return super().read(-1 if length is None else int(length))


def open_lenient(content):
    return LenientBytesIO(content)


def open_memory(content):
    mapper = fsspec.get_mapper("memory://equiv2")
    mapper["path"] = content
    return mapper.fs.open("equiv2/path", mode="rb")


def run_dummy(header, rpc):
    def dummy_read_file_descriptor(f):
        f.read(2)

        return header

    originals = io.read_file_descriptor, io.record_types
    io.read_file_descriptor = dummy_read_file_descriptor
    io.record_types = dummy_record_types
    try:
        f = LoggingFile(stdio.BytesIO(dummy_content))
        try:
            # positional, as `open_image` calls it
            result_header, metadata = io.read_metadata(f, rpc)
        except Exception as e:
            return ("raises", type(e).__name__, str(e), f.log)
        return ("ok", result_header, metadata, f.log)
    finally:
        io.read_file_descriptor, io.record_types = originals


def observe():
    results = {}
    for name, (content, rpc) in CASES.items():
        results[f"{name}/bytesio"] = run_real(content, rpc, open_bytesio)
    for name in ("processed-5-rpc2", "signal-4-rpc3", "rpc-float-2.0", "truncated-file-rpc2"):
        content, rpc = CASES[name]
        results[f"{name}/memoryfs"] = run_real(content, rpc, open_memory)
    for name in ("rpc-float-2.0", "rpc-float-2.5", "rpc-float-big", "processed-5-rpc3"):
        content, rpc = CASES[name]
        results[f"{name}/lenient"] = run_real(content, rpc, open_lenient)
    results["rpc-float-1.0/lenient"] = run_real(proc5, 1.0, open_lenient)
    results["rpc-float-1.5-of-3/lenient"] = run_real(make_file(11, 3), 1.5, open_lenient)
    for name, (header, rpc) in DUMMY_CASES.items():
        results[name] = run_dummy(header, rpc)

    # one complete result, unsummarised
    with open_bytesio(make_file(11, 2, n_data=4)) as f:
        results["full-output"] = io.read_metadata(f, 1)
    return results


# recorded from the unchanged code (HEAD) with `python equiv.py --record`
EXPECTED = {'processed-5-rpc1/bytesio': ('ok',
                              True,
                              '8b8aaf9b40a82bf6b8d0fcb395c88007a0ae5d0748cbd929af2d52dc87eab766',
                              [(720, 1, 1, {'start': 912, 'size': 16, 'stop': 928}),
                               (928, 2, 2, {'start': 1120, 'size': 16, 'stop': 1136}),
                               (1136, 3, 3, {'start': 1328, 'size': 16, 'stop': 1344}),
                               (1344, 4, 4, {'start': 1536, 'size': 16, 'stop': 1552}),
                               (1552, 5, 5, {'start': 1744, 'size': 16, 'stop': 1760})],
                              [('read', (720,), {}, 0),
                               ('read', (208,), {}, 720),
                               ('read', (208,), {}, 928),
                               ('read', (208,), {}, 1136),
                               ('read', (208,), {}, 1344),
                               ('read', (208,), {}, 1552)]),
 'processed-5-rpc2/bytesio': ('ok',
                              True,
                              '8b8aaf9b40a82bf6b8d0fcb395c88007a0ae5d0748cbd929af2d52dc87eab766',
                              [(720, 1, 1, {'start': 912, 'size': 16, 'stop': 928}),
                               (928, 2, 2, {'start': 1120, 'size': 16, 'stop': 1136}),
                               (1136, 3, 3, {'start': 1328, 'size': 16, 'stop': 1344}),
                               (1344, 4, 4, {'start': 1536, 'size': 16, 'stop': 1552}),
                               (1552, 5, 5, {'start': 1744, 'size': 16, 'stop': 1760})],
                              [('read', (720,), {}, 0),
                               ('read', (416,), {}, 720),
                               ('read', (416,), {}, 1136),
                               ('read', (208,), {}, 1552)]),
 'processed-5-rpc3/bytesio': ('ok',
                              True,
                              '8b8aaf9b40a82bf6b8d0fcb395c88007a0ae5d0748cbd929af2d52dc87eab766',
                              [(720, 1, 1, {'start': 912, 'size': 16, 'stop': 928}),
                               (928, 2, 2, {'start': 1120, 'size': 16, 'stop': 1136}),
                               (1136, 3, 3, {'start': 1328, 'size': 16, 'stop': 1344}),
                               (1344, 4, 4, {'start': 1536, 'size': 16, 'stop': 1552}),
                               (1552, 5, 5, {'start': 1744, 'size': 16, 'stop': 1760})],
                              [('read', (720,), {}, 0),
                               ('read', (624,), {}, 720),
                               ('read', (416,), {}, 1344)]),
 'processed-5-rpc4/bytesio': ('ok',
                              True,
                              '8b8aaf9b40a82bf6b8d0fcb395c88007a0ae5d0748cbd929af2d52dc87eab766',
                              [(720, 1, 1, {'start': 912, 'size': 16, 'stop': 928}),
                               (928, 2, 2, {'start': 1120, 'size': 16, 'stop': 1136}),
                               (1136, 3, 3, {'start': 1328, 'size': 16, 'stop': 1344}),
                               (1344, 4, 4, {'start': 1536, 'size': 16, 'stop': 1552}),
                               (1552, 5, 5, {'start': 1744, 'size': 16, 'stop': 1760})],
                              [('read', (720,), {}, 0),
                               ('read', (832,), {}, 720),
                               ('read', (208,), {}, 1552)]),
 'processed-5-rpc5/bytesio': ('ok',
                              True,
                              '8b8aaf9b40a82bf6b8d0fcb395c88007a0ae5d0748cbd929af2d52dc87eab766',
                              [(720, 1, 1, {'start': 912, 'size': 16, 'stop': 928}),
                               (928, 2, 2, {'start': 1120, 'size': 16, 'stop': 1136}),
                               (1136, 3, 3, {'start': 1328, 'size': 16, 'stop': 1344}),
                               (1344, 4, 4, {'start': 1536, 'size': 16, 'stop': 1552}),
                               (1552, 5, 5, {'start': 1744, 'size': 16, 'stop': 1760})],
                              [('read', (720,), {}, 0), ('read', (1040,), {}, 720)]),
 'processed-5-rpc6/bytesio': ('ok',
                              True,
                              '8b8aaf9b40a82bf6b8d0fcb395c88007a0ae5d0748cbd929af2d52dc87eab766',
                              [(720, 1, 1, {'start': 912, 'size': 16, 'stop': 928}),
                               (928, 2, 2, {'start': 1120, 'size': 16, 'stop': 1136}),
                               (1136, 3, 3, {'start': 1328, 'size': 16, 'stop': 1344}),
                               (1344, 4, 4, {'start': 1536, 'size': 16, 'stop': 1552}),
                               (1552, 5, 5, {'start': 1744, 'size': 16, 'stop': 1760})],
                              [('read', (720,), {}, 0), ('read', (1040,), {}, 720)]),
 'processed-5-rpc1024/bytesio': ('ok',
                                 True,
                                 '8b8aaf9b40a82bf6b8d0fcb395c88007a0ae5d0748cbd929af2d52dc87eab766',
                                 [(720, 1, 1, {'start': 912, 'size': 16, 'stop': 928}),
                                  (928, 2, 2, {'start': 1120, 'size': 16, 'stop': 1136}),
                                  (1136, 3, 3, {'start': 1328, 'size': 16, 'stop': 1344}),
                                  (1344, 4, 4, {'start': 1536, 'size': 16, 'stop': 1552}),
                                  (1552, 5, 5, {'start': 1744, 'size': 16, 'stop': 1760})],
                                 [('read', (720,), {}, 0), ('read', (1040,), {}, 720)]),
 'processed-5-rpcdefault/bytesio': ('ok',
                                    True,
                                    '8b8aaf9b40a82bf6b8d0fcb395c88007a0ae5d0748cbd929af2d52dc87eab766',
                                    [(720, 1, 1, {'start': 912, 'size': 16, 'stop': 928}),
                                     (928, 2, 2, {'start': 1120, 'size': 16, 'stop': 1136}),
                                     (1136, 3, 3, {'start': 1328, 'size': 16, 'stop': 1344}),
                                     (1344, 4, 4, {'start': 1536, 'size': 16, 'stop': 1552}),
                                     (1552, 5, 5, {'start': 1744, 'size': 16, 'stop': 1760})],
                                    [('read', (720,), {}, 0), ('read', (1040,), {}, 720)]),
 'signal-4-rpc1/bytesio': ('ok',
                           True,
                           '35634769c135cab4246beb293e36837dc730cd3819b2bacca582069b755f10c5',
                           [(720, 1, 1, {'start': 1264, 'size': 8, 'stop': 1272}),
                            (1272, 2, 2, {'start': 1816, 'size': 8, 'stop': 1824}),
                            (1824, 3, 3, {'start': 2368, 'size': 8, 'stop': 2376}),
                            (2376, 4, 4, {'start': 2920, 'size': 8, 'stop': 2928})],
                           [('read', (720,), {}, 0),
                            ('read', (552,), {}, 720),
                            ('read', (552,), {}, 1272),
                            ('read', (552,), {}, 1824),
                            ('read', (552,), {}, 2376)]),
 'signal-4-rpc2/bytesio': ('ok',
                           True,
                           '35634769c135cab4246beb293e36837dc730cd3819b2bacca582069b755f10c5',
                           [(720, 1, 1, {'start': 1264, 'size': 8, 'stop': 1272}),
                            (1272, 2, 2, {'start': 1816, 'size': 8, 'stop': 1824}),
                            (1824, 3, 3, {'start': 2368, 'size': 8, 'stop': 2376}),
                            (2376, 4, 4, {'start': 2920, 'size': 8, 'stop': 2928})],
                           [('read', (720,), {}, 0),
                            ('read', (1104,), {}, 720),
                            ('read', (1104,), {}, 1824)]),
 'signal-4-rpc3/bytesio': ('ok',
                           True,
                           '35634769c135cab4246beb293e36837dc730cd3819b2bacca582069b755f10c5',
                           [(720, 1, 1, {'start': 1264, 'size': 8, 'stop': 1272}),
                            (1272, 2, 2, {'start': 1816, 'size': 8, 'stop': 1824}),
                            (1824, 3, 3, {'start': 2368, 'size': 8, 'stop': 2376}),
                            (2376, 4, 4, {'start': 2920, 'size': 8, 'stop': 2928})],
                           [('read', (720,), {}, 0),
                            ('read', (1656,), {}, 720),
                            ('read', (552,), {}, 2376)]),
 'signal-4-rpc4/bytesio': ('ok',
                           True,
                           '35634769c135cab4246beb293e36837dc730cd3819b2bacca582069b755f10c5',
                           [(720, 1, 1, {'start': 1264, 'size': 8, 'stop': 1272}),
                            (1272, 2, 2, {'start': 1816, 'size': 8, 'stop': 1824}),
                            (1824, 3, 3, {'start': 2368, 'size': 8, 'stop': 2376}),
                            (2376, 4, 4, {'start': 2920, 'size': 8, 'stop': 2928})],
                           [('read', (720,), {}, 0), ('read', (2208,), {}, 720)]),
 'signal-4-rpc7/bytesio': ('ok',
                           True,
                           '35634769c135cab4246beb293e36837dc730cd3819b2bacca582069b755f10c5',
                           [(720, 1, 1, {'start': 1264, 'size': 8, 'stop': 1272}),
                            (1272, 2, 2, {'start': 1816, 'size': 8, 'stop': 1824}),
                            (1824, 3, 3, {'start': 2368, 'size': 8, 'stop': 2376}),
                            (2376, 4, 4, {'start': 2920, 'size': 8, 'stop': 2928})],
                           [('read', (720,), {}, 0), ('read', (2208,), {}, 720)]),
 'processed-0-rpc1/bytesio': ('ok',
                              True,
                              'b12485f368401ec908d426d5d2183a6bd470522fdb72205b5804aff85032760f',
                              [],
                              [('read', (720,), {}, 0)]),
 'processed-0-rpc2/bytesio': ('ok',
                              True,
                              'b12485f368401ec908d426d5d2183a6bd470522fdb72205b5804aff85032760f',
                              [],
                              [('read', (720,), {}, 0)]),
 'processed-1-rpc1/bytesio': ('ok',
                              True,
                              '011526f6e2a5aac7d76efc2e8cb81c7e3f2a72a58aeeee33d584a6401aed3336',
                              [(720, 1, 1, {'start': 912, 'size': 4, 'stop': 916})],
                              [('read', (720,), {}, 0), ('read', (196,), {}, 720)]),
 'processed-1-rpc2/bytesio': ('ok',
                              True,
                              '011526f6e2a5aac7d76efc2e8cb81c7e3f2a72a58aeeee33d584a6401aed3336',
                              [(720, 1, 1, {'start': 912, 'size': 4, 'stop': 916})],
                              [('read', (720,), {}, 0), ('read', (196,), {}, 720)]),
 'processed-2-rpc1/bytesio': ('ok',
                              True,
                              '5b9809ebd2dd0412ca246a08e8dfbb714931eccaf3d8b9b4cf3ab2e01c355f92',
                              [(720, 1, 1, {'start': 912, 'size': 4, 'stop': 916}),
                               (916, 2, 2, {'start': 1108, 'size': 4, 'stop': 1112})],
                              [('read', (720,), {}, 0),
                               ('read', (196,), {}, 720),
                               ('read', (196,), {}, 916)]),
 'processed-2-rpc2/bytesio': ('ok',
                              True,
                              '5b9809ebd2dd0412ca246a08e8dfbb714931eccaf3d8b9b4cf3ab2e01c355f92',
                              [(720, 1, 1, {'start': 912, 'size': 4, 'stop': 916}),
                               (916, 2, 2, {'start': 1108, 'size': 4, 'stop': 1112})],
                              [('read', (720,), {}, 0), ('read', (392,), {}, 720)]),
 'rpc-zero/bytesio': ('raises', 'ZeroDivisionError', 'division by zero', [('read', (720,), {}, 0)]),
 'rpc-negative/bytesio': ('ok',
                          True,
                          '247575df74915360df26106f0a241ba759e777aa7b820e7fa234f5bb80c2d36e',
                          [],
                          [('read', (720,), {}, 0)]),
 'rpc-none/bytesio': ('raises',
                      'TypeError',
                      "unsupported operand type(s) for /: 'int' and 'NoneType'",
                      [('read', (720,), {}, 0)]),
 'rpc-float-2.0/bytesio': ('raises',
                           'TypeError',
                           "argument should be integer or None, not 'float'",
                           [('read', (720,), {}, 0), ('read', (416.0,), {}, 720)]),
 'rpc-float-2.5/bytesio': ('raises',
                           'TypeError',
                           "argument should be integer or None, not 'float'",
                           [('read', (720,), {}, 0), ('read', (520.0,), {}, 720)]),
 'rpc-float-big/bytesio': ('raises',
                           'TypeError',
                           "argument should be integer or None, not 'float'",
                           [('read', (720,), {}, 0), ('read', (1040.0,), {}, 720)]),
 'rpc-str/bytesio': ('raises',
                     'TypeError',
                     "unsupported operand type(s) for /: 'int' and 'str'",
                     [('read', (720,), {}, 0)]),
 'rpc-true/bytesio': ('ok',
                      True,
                      '8b8aaf9b40a82bf6b8d0fcb395c88007a0ae5d0748cbd929af2d52dc87eab766',
                      [(720, 1, 1, {'start': 912, 'size': 16, 'stop': 928}),
                       (928, 2, 2, {'start': 1120, 'size': 16, 'stop': 1136}),
                       (1136, 3, 3, {'start': 1328, 'size': 16, 'stop': 1344}),
                       (1344, 4, 4, {'start': 1536, 'size': 16, 'stop': 1552}),
                       (1552, 5, 5, {'start': 1744, 'size': 16, 'stop': 1760})],
                      [('read', (720,), {}, 0),
                       ('read', (208,), {}, 720),
                       ('read', (208,), {}, 928),
                       ('read', (208,), {}, 1136),
                       ('read', (208,), {}, 1344),
                       ('read', (208,), {}, 1552)]),
 'truncated-file-rpc2/bytesio': ('raises',
                                 'StreamError',
                                 'Error in path (parsing) -> record_sequence_number\n'
                                 'stream read less than specified amount, expected 4, found 0',
                                 [('read', (720,), {}, 0),
                                  ('read', (416,), {}, 720),
                                  ('read', (416,), {}, 1136),
                                  ('read', (208,), {}, 1552)]),
 'truncated-file-rpc1/bytesio': ('raises',
                                 'ValueError',
                                 'sizes mismatch: chunksize is 0 but got 100 bytes',
                                 [('read', (720,), {}, 0),
                                  ('read', (208,), {}, 720),
                                  ('read', (208,), {}, 928)]),
 'truncated-file-rpc1024/bytesio': ('raises',
                                    'ValueError',
                                    'sizes mismatch: chunksize is 832 but got 1039 bytes',
                                    [('read', (720,), {}, 0), ('read', (1040,), {}, 720)]),
 'truncated-header/bytesio': ('raises',
                              'StreamError',
                              'Error in path (parsing) -> scansar_burst_data_information -> '
                              'blanks\n'
                              'stream read less than specified amount, expected 260, found 40',
                              [('read', (720,), {}, 0)]),
 'empty-file/bytesio': ('raises',
                        'StreamError',
                        'Error in path (parsing) -> preamble -> record_sequence_number\n'
                        'stream read less than specified amount, expected 4, found 0',
                        [('read', (720,), {}, 0)]),
 'more-records-than-declared/bytesio': ('ok',
                                        True,
                                        'e04fc77f3dac5752548ad872350d08c8b77080ab8910468e29e23c8786b9aca2',
                                        [(720, 1, 1, {'start': 912, 'size': 16, 'stop': 928}),
                                         (928, 2, 2, {'start': 1120, 'size': 16, 'stop': 1136}),
                                         (1136, 3, 3, {'start': 1328, 'size': 16, 'stop': 1344})],
                                        [('read', (720,), {}, 0),
                                         ('read', (416,), {}, 720),
                                         ('read', (208,), {}, 1136)]),
 'fewer-records-than-declared/bytesio': ('raises',
                                         'StreamError',
                                         'Error in path (parsing) -> record_sequence_number\n'
                                         'stream read less than specified amount, expected 4, '
                                         'found 0',
                                         [('read', (720,), {}, 0),
                                          ('read', (416,), {}, 720),
                                          ('read', (416,), {}, 1136),
                                          ('read', (208,), {}, 1344)]),
 'declared-size-too-small/bytesio': ('raises',
                                     'StreamError',
                                     'Error in path (parsing) -> preamble -> '
                                     'record_sequence_number\n'
                                     'stream read less than specified amount, expected 4, found 0',
                                     [('read', (720,), {}, 0), ('read', (208,), {}, 720)]),
 'declared-size-double/bytesio': ('raises',
                                  'StreamError',
                                  'Error in path (parsing) -> record_sequence_number\n'
                                  'stream read less than specified amount, expected 4, found 0',
                                  [('read', (720,), {}, 0),
                                   ('read', (416,), {}, 720),
                                   ('read', (416,), {}, 1136),
                                   ('read', (416,), {}, 1552)]),
 'declared-size-zero/bytesio': ('raises',
                                'ZeroDivisionError',
                                'integer division or modulo by zero',
                                [('read', (720,), {}, 0), ('read', (0,), {}, 720)]),
 'blank-counts/bytesio': ('ok',
                          True,
                          'db95f91e7f991369eeb5998c1b2393576ac2ae091493c995f7357ccc05114b3a',
                          [],
                          [('read', (720,), {}, 0)]),
 'blank-size/bytesio': ('raises',
                        'RangeError',
                        'Error in path (parsing)\ninvalid count -416',
                        [('read', (720,), {}, 0), ('read', (-2,), {}, 720)]),
 'blank-count/bytesio': ('ok',
                         True,
                         '16cb35ed264506fd401a0fa8d36cfc5dfaa7d2cd638d90d0cbdf994cbe60562d',
                         [],
                         [('read', (720,), {}, 0)]),
 'bad-type-in-chunk-2-of-3/bytesio': ('raises',
                                      'ValueError',
                                      'unknown record type code: 99',
                                      [('read', (720,), {}, 0),
                                       ('read', (416,), {}, 720),
                                       ('read', (416,), {}, 1136)]),
 'bad-type-in-chunk-1-of-5/bytesio': ('raises',
                                      'ValueError',
                                      'unknown record type code: 99',
                                      [('read', (720,), {}, 0), ('read', (208,), {}, 720)]),
 'bad-type-second-record-of-chunk/bytesio': ('ok',
                                             True,
                                             'cc1661396500654a7f829d8d6c56e0dbd70ee8c49d24070f795838e301f21fb0',
                                             [(720, 1, 1, {'start': 912, 'size': 16, 'stop': 928}),
                                              (928,
                                               2,
                                               2,
                                               {'start': 1120, 'size': 16, 'stop': 1136}),
                                              (1136,
                                               3,
                                               3,
                                               {'start': 1328, 'size': 16, 'stop': 1344}),
                                              (1344,
                                               4,
                                               4,
                                               {'start': 1536, 'size': 16, 'stop': 1552}),
                                              (1552,
                                               5,
                                               5,
                                               {'start': 1744, 'size': 16, 'stop': 1760})],
                                             [('read', (720,), {}, 0),
                                              ('read', (416,), {}, 720),
                                              ('read', (416,), {}, 1136),
                                              ('read', (208,), {}, 1552)]),
 'bad-date-in-last-chunk/bytesio': ('ok',
                                    True,
                                    '90858a8137941c3294d635fa8ca3e9b60ff2e402d1b2272d8030db592a67959e',
                                    [(720, 1, 1, {'start': 912, 'size': 16, 'stop': 928}),
                                     (928, 2, 2, {'start': 1120, 'size': 16, 'stop': 1136}),
                                     (1136, 3, 3, {'start': 1328, 'size': 16, 'stop': 1344}),
                                     (1344, 4, 4, {'start': 1536, 'size': 16, 'stop': 1552}),
                                     (1552, 5, 5, {'start': 1744, 'size': 16, 'stop': 1760})],
                                    [('read', (720,), {}, 0),
                                     ('read', (416,), {}, 720),
                                     ('read', (416,), {}, 1136),
                                     ('read', (208,), {}, 1552)]),
 'processed-5-rpc2/memoryfs': ('ok',
                               True,
                               '8b8aaf9b40a82bf6b8d0fcb395c88007a0ae5d0748cbd929af2d52dc87eab766',
                               [(720, 1, 1, {'start': 912, 'size': 16, 'stop': 928}),
                                (928, 2, 2, {'start': 1120, 'size': 16, 'stop': 1136}),
                                (1136, 3, 3, {'start': 1328, 'size': 16, 'stop': 1344}),
                                (1344, 4, 4, {'start': 1536, 'size': 16, 'stop': 1552}),
                                (1552, 5, 5, {'start': 1744, 'size': 16, 'stop': 1760})],
                               [('read', (720,), {}, 0),
                                ('read', (416,), {}, 720),
                                ('read', (416,), {}, 1136),
                                ('read', (208,), {}, 1552)]),
 'signal-4-rpc3/memoryfs': ('ok',
                            True,
                            '35634769c135cab4246beb293e36837dc730cd3819b2bacca582069b755f10c5',
                            [(720, 1, 1, {'start': 1264, 'size': 8, 'stop': 1272}),
                             (1272, 2, 2, {'start': 1816, 'size': 8, 'stop': 1824}),
                             (1824, 3, 3, {'start': 2368, 'size': 8, 'stop': 2376}),
                             (2376, 4, 4, {'start': 2920, 'size': 8, 'stop': 2928})],
                            [('read', (720,), {}, 0),
                             ('read', (1656,), {}, 720),
                             ('read', (552,), {}, 2376)]),
 'rpc-float-2.0/memoryfs': ('raises',
                            'TypeError',
                            "argument should be integer or None, not 'float'",
                            [('read', (720,), {}, 0), ('read', (416.0,), {}, 720)]),
 'truncated-file-rpc2/memoryfs': ('raises',
                                  'StreamError',
                                  'Error in path (parsing) -> record_sequence_number\n'
                                  'stream read less than specified amount, expected 4, found 0',
                                  [('read', (720,), {}, 0),
                                   ('read', (416,), {}, 720),
                                   ('read', (416,), {}, 1136),
                                   ('read', (208,), {}, 1552)]),
 'rpc-float-2.0/lenient': ('ok',
                           True,
                           '9008754e014c410c3f3004dda97c9409ec78e6d5ca2dc93de29a3a020c4d59e5',
                           [(720, 1, 1, {'start': 912, 'size': 16, 'stop': 928}),
                            (928, 2, 2, {'start': 1120, 'size': 16, 'stop': 1136}),
                            (1136.0, 3, 3, {'start': 1328.0, 'size': 16, 'stop': 1344.0}),
                            (1344.0, 4, 4, {'start': 1536.0, 'size': 16, 'stop': 1552.0}),
                            (1552.0, 5, 5, {'start': 1744.0, 'size': 16, 'stop': 1760.0})],
                           [('read', (720,), {}, 0),
                            ('read', (416.0,), {}, 720),
                            ('read', (416.0,), {}, 1136),
                            ('read', (208.0,), {}, 1552)]),
 'rpc-float-2.5/lenient': ('raises',
                           'ValueError',
                           'sizes mismatch: chunksize is 416 but got 520 bytes',
                           [('read', (720,), {}, 0), ('read', (520.0,), {}, 720)]),
 'rpc-float-big/lenient': ('ok',
                           True,
                           '8b8aaf9b40a82bf6b8d0fcb395c88007a0ae5d0748cbd929af2d52dc87eab766',
                           [(720, 1, 1, {'start': 912, 'size': 16, 'stop': 928}),
                            (928, 2, 2, {'start': 1120, 'size': 16, 'stop': 1136}),
                            (1136, 3, 3, {'start': 1328, 'size': 16, 'stop': 1344}),
                            (1344, 4, 4, {'start': 1536, 'size': 16, 'stop': 1552}),
                            (1552, 5, 5, {'start': 1744, 'size': 16, 'stop': 1760})],
                           [('read', (720,), {}, 0), ('read', (1040.0,), {}, 720)]),
 'processed-5-rpc3/lenient': ('ok',
                              True,
                              '8b8aaf9b40a82bf6b8d0fcb395c88007a0ae5d0748cbd929af2d52dc87eab766',
                              [(720, 1, 1, {'start': 912, 'size': 16, 'stop': 928}),
                               (928, 2, 2, {'start': 1120, 'size': 16, 'stop': 1136}),
                               (1136, 3, 3, {'start': 1328, 'size': 16, 'stop': 1344}),
                               (1344, 4, 4, {'start': 1536, 'size': 16, 'stop': 1552}),
                               (1552, 5, 5, {'start': 1744, 'size': 16, 'stop': 1760})],
                              [('read', (720,), {}, 0),
                               ('read', (624,), {}, 720),
                               ('read', (416,), {}, 1344)]),
 'rpc-float-1.0/lenient': ('ok',
                           True,
                           'c5a9692d3053a75f48c885dd88e2206792a47c448b5b34ff8ae0872f00619b3b',
                           [(720, 1, 1, {'start': 912, 'size': 16, 'stop': 928}),
                            (928.0, 2, 2, {'start': 1120.0, 'size': 16, 'stop': 1136.0}),
                            (1136.0, 3, 3, {'start': 1328.0, 'size': 16, 'stop': 1344.0}),
                            (1344.0, 4, 4, {'start': 1536.0, 'size': 16, 'stop': 1552.0}),
                            (1552.0, 5, 5, {'start': 1744.0, 'size': 16, 'stop': 1760.0})],
                           [('read', (720,), {}, 0),
                            ('read', (208.0,), {}, 720),
                            ('read', (208.0,), {}, 928),
                            ('read', (208.0,), {}, 1136),
                            ('read', (208.0,), {}, 1344),
                            ('read', (208.0,), {}, 1552)]),
 'rpc-float-1.5-of-3/lenient': ('raises',
                                'ValueError',
                                'sizes mismatch: chunksize is 208 but got 312 bytes',
                                [('read', (720,), {}, 0), ('read', (312.0,), {}, 720)]),
 'dummy-rpc1': ('ok',
                {'number_of_sar_data_records': 3, 'sar_data_record_length': 17},
                [{'preamble': {'record_sequence_number': 1,
                               'first_record_subtype': 0,
                               'record_type': 11,
                               'second_record_subtype': 0,
                               'third_record_subtype': 0,
                               'record_length': 17},
                  'record_start': 732,
                  'a': 3,
                  'data': {'start': 733, 'stop': 737}},
                 {'preamble': {'record_sequence_number': 2,
                               'first_record_subtype': 0,
                               'record_type': 11,
                               'second_record_subtype': 0,
                               'third_record_subtype': 0,
                               'record_length': 17},
                  'record_start': 749,
                  'a': 4,
                  'data': {'start': 750, 'stop': 754}},
                 {'preamble': {'record_sequence_number': 3,
                               'first_record_subtype': 0,
                               'record_type': 11,
                               'second_record_subtype': 0,
                               'third_record_subtype': 0,
                               'record_length': 17},
                  'record_start': 766,
                  'a': 5,
                  'data': {'start': 767, 'stop': 771}}],
                [('read', (2,), {}, 0),
                 ('read', (17,), {}, 2),
                 ('read', (17,), {}, 19),
                 ('read', (17,), {}, 36)]),
 'dummy-rpc2': ('ok',
                {'number_of_sar_data_records': 3, 'sar_data_record_length': 17},
                [{'preamble': {'record_sequence_number': 1,
                               'first_record_subtype': 0,
                               'record_type': 11,
                               'second_record_subtype': 0,
                               'third_record_subtype': 0,
                               'record_length': 17},
                  'record_start': 732,
                  'a': 3,
                  'data': {'start': 733, 'stop': 737}},
                 {'preamble': {'record_sequence_number': 2,
                               'first_record_subtype': 0,
                               'record_type': 11,
                               'second_record_subtype': 0,
                               'third_record_subtype': 0,
                               'record_length': 17},
                  'record_start': 749,
                  'a': 4,
                  'data': {'start': 750, 'stop': 754}},
                 {'preamble': {'record_sequence_number': 3,
                               'first_record_subtype': 0,
                               'record_type': 11,
                               'second_record_subtype': 0,
                               'third_record_subtype': 0,
                               'record_length': 17},
                  'record_start': 766,
                  'a': 5,
                  'data': {'start': 767, 'stop': 771}}],
                [('read', (2,), {}, 0), ('read', (34,), {}, 2), ('read', (17,), {}, 36)]),
 'dummy-rpc3': ('ok',
                {'number_of_sar_data_records': 3, 'sar_data_record_length': 17},
                [{'preamble': {'record_sequence_number': 1,
                               'first_record_subtype': 0,
                               'record_type': 11,
                               'second_record_subtype': 0,
                               'third_record_subtype': 0,
                               'record_length': 17},
                  'record_start': 732,
                  'a': 3,
                  'data': {'start': 733, 'stop': 737}},
                 {'preamble': {'record_sequence_number': 2,
                               'first_record_subtype': 0,
                               'record_type': 11,
                               'second_record_subtype': 0,
                               'third_record_subtype': 0,
                               'record_length': 17},
                  'record_start': 749,
                  'a': 4,
                  'data': {'start': 750, 'stop': 754}},
                 {'preamble': {'record_sequence_number': 3,
                               'first_record_subtype': 0,
                               'record_type': 11,
                               'second_record_subtype': 0,
                               'third_record_subtype': 0,
                               'record_length': 17},
                  'record_start': 766,
                  'a': 5,
                  'data': {'start': 767, 'stop': 771}}],
                [('read', (2,), {}, 0), ('read', (51,), {}, 2)]),
 'dummy-rpc4': ('ok',
                {'number_of_sar_data_records': 3, 'sar_data_record_length': 17},
                [{'preamble': {'record_sequence_number': 1,
                               'first_record_subtype': 0,
                               'record_type': 11,
                               'second_record_subtype': 0,
                               'third_record_subtype': 0,
                               'record_length': 17},
                  'record_start': 732,
                  'a': 3,
                  'data': {'start': 733, 'stop': 737}},
                 {'preamble': {'record_sequence_number': 2,
                               'first_record_subtype': 0,
                               'record_type': 11,
                               'second_record_subtype': 0,
                               'third_record_subtype': 0,
                               'record_length': 17},
                  'record_start': 749,
                  'a': 4,
                  'data': {'start': 750, 'stop': 754}},
                 {'preamble': {'record_sequence_number': 3,
                               'first_record_subtype': 0,
                               'record_type': 11,
                               'second_record_subtype': 0,
                               'third_record_subtype': 0,
                               'record_length': 17},
                  'record_start': 766,
                  'a': 5,
                  'data': {'start': 767, 'stop': 771}}],
                [('read', (2,), {}, 0), ('read', (51,), {}, 2)]),
 'dummy-missing-size': ('raises', 'KeyError', "'sar_data_record_length'", [('read', (2,), {}, 0)]),
 'dummy-missing-count': ('raises',
                         'KeyError',
                         "'number_of_sar_data_records'",
                         [('read', (2,), {}, 0)]),
 'dummy-missing-both': ('raises',
                        'KeyError',
                        "'number_of_sar_data_records'",
                        [('read', (2,), {}, 0)]),
 'dummy-float-count': ('raises',
                       'TypeError',
                       "argument should be integer or None, not 'float'",
                       [('read', (2,), {}, 0), ('read', (34,), {}, 2), ('read', (17.0,), {}, 36)]),
 'dummy-none-size': ('raises',
                     'TypeError',
                     "unsupported operand type(s) for *: 'int' and 'NoneType'",
                     [('read', (2,), {}, 0)]),
 'dummy-none-count': ('raises',
                      'TypeError',
                      "unsupported operand type(s) for /: 'NoneType' and 'int'",
                      [('read', (2,), {}, 0)]),
 'full-output': ({'preamble': {'record_sequence_number': 1,
                               'first_record_subtype': 50,
                               'record_type': 192,
                               'second_record_subtype': 18,
                               'third_record_subtype': 18,
                               'record_length': 720},
                  'ascii_ebcdic_flag': '',
                  'blanks1': '',
                  'format_control_document_id': '',
                  'format_control_document_revision_level': '',
                  'file_design_descriptor_revision_letter': '',
                  'software_release_and_revision_number': '',
                  'file_number': -1,
                  'file_id': '',
                  'record_sequence_and_location_type_flag': '',
                  'location_sequence_number': -1,
                  'field_length_of_sequence_number': -1,
                  'record_code_and_location_type_flag': '',
                  'record_code_location': -1,
                  'record_code_field_length': -1,
                  'record_length_and_location_type_flag': '',
                  'record_length_location': -1,
                  'record_length_field_length': -1,
                  'reserved1': '',
                  'reserved2': '',
                  'reserved3': '',
                  'reserved4': '',
                  'blanks6': '',
                  'number_of_sar_data_records': 2,
                  'sar_data_record_length': 196,
                  'reserved5': '',
                  'sample_group_data': {'bit_length_per_sample': -1,
                                        'number_of_samples_per_data_group': -1,
                                        'number_of_bytes_per_data_group': -1,
                                        'justification_and_order_of_samples_within_data_group': ''},
                  'sar_related_data_in_the_record': {'number_of_sar_channels': -1,
                                                     'number_of_lines_per_dataset': 2,
                                                     'number_of_left_border_pixels_per_line': -1,
                                                     'number_of_data_groups_per_line': 4,
                                                     'number_of_right_border_pixels_per_line': -1,
                                                     'number_of_top_border_lines': -1,
                                                     'number_of_bottom_border_lines': -1,
                                                     'interleaving_id': 'BSQ'},
                  'record_data_in_the_file': {'number_of_physical_records_per_line': -1,
                                              'number_of_physical_records_per_multichannel_line_in_this_file': -1,
                                              'number_of_bytes_of_prefix_data_per_record': -1,
                                              'number_of_bytes_of_sar_data_per_record': -1,
                                              'number_of_bytes_of_suffix_data_per_record': -1,
                                              'prefix_suffix_repeat_flag': ''},
                  'prefix_suffix_data_locators': {'sample_data_line_number_locator': '',
                                                  'sar_channel_number_locator': '',
                                                  'time_of_sar_data_line_locator': '',
                                                  'left_fill_count_locator': '',
                                                  'right_fill_count_locator': '',
                                                  'pad_pixels_present_indicator': '',
                                                  'blanks': '',
                                                  'sar_data_line_quality_code_locator': '',
                                                  'calibration_information_field_locator': '',
                                                  'gain_values_field_locator': '',
                                                  'bias_values_field_locator': '',
                                                  'sar_data_format_type_indicator': '',
                                                  'sar_data_format_type_code': 'C*8',
                                                  'number_of_left_fill_bits_within_pixel': -1,
                                                  'number_of_right_fill_bits_within_pixel': -1,
                                                  'maximum_data_range_of_pixel': -1,
                                                  'number_of_burst_data': -1,
                                                  'number_of_lines_per_burst': -1},
                  'scansar_burst_data_information': {'number_of_overlap_lines_with_adjacent_bursts': -1,
                                                     'blanks': ''}},
                 [{'record_start': 720,
                   'preamble': {'record_sequence_number': 1,
                                'first_record_subtype': 50,
                                'record_type': 11,
                                'second_record_subtype': 18,
                                'third_record_subtype': 20,
                                'record_length': 196},
                   'sar_image_data_line_number': 1,
                   'sar_image_data_record_index': 1,
                   'actual_count_of_left_fill_pixels': 0,
                   'actual_count_of_data_pixels': 0,
                   'actual_count_of_right_fill_pixels': 0,
                   'sensor_parameters_update_flag': 0,
                   'sensor_acquisition_date': datetime.datetime(2020, 7, 18, 0, 0, 1, 1000),
                   'sar_channel_id': 'dual_polarization',
                   'sar_channel_code': 'L',
                   'transmitted_pulse_polarization': 'horizontal',
                   'received_pulse_polarization': 'horizontal',
                   'prf': (0, {'units': 'mHz'}),
                   'scan_id': 1,
                   'slant_range_to_first_pixel': (0, {'units': 'm'}),
                   'slant_range_to_mid_pixel': (0, {'units': 'm'}),
                   'slant_range_to_last_pixel': (0, {'units': 'm'}),
                   'doppler_centroid_value_at_first_pixel': (0.0, {'units': 'Hz'}),
                   'doppler_centroid_value_at_mid_pixel': (0.0, {'units': 'Hz'}),
                   'doppler_centroid_value_at_last_pixel': (0.0, {'units': 'Hz'}),
                   'azimuth_fm_rate_of_first_pixel': (0, {'units': 'Hz/ms'}),
                   'azimuth_fm_rate_of_mid_pixel': (0, {'units': 'Hz/ms'}),
                   'azimuth_fm_rate_of_last_pixel': (0, {'units': 'Hz/ms'}),
                   'look_angle_of_nadir': (0.0, {'units': 'deg'}),
                   'azimuth_squint_angle': (0.0, {'units': 'deg'}),
                   'blanks1': b'',
                   'geographic_reference_parameter_update_flag': 0,
                   'latitude_of_first_pixel': (0.0, {'units': 'deg'}),
                   'latitude_of_center_pixel': (0.0, {'units': 'deg'}),
                   'latitude_of_last_pixel': (0.0, {'units': 'deg'}),
                   'longitude_of_first_pixel': (0.0, {'units': 'deg'}),
                   'longitude_of_center_pixel': (0.0, {'units': 'deg'}),
                   'longitude_of_last_pixel': (0.0, {'units': 'deg'}),
                   'northing_of_first_pixel': (0, {'units': 'm'}),
                   'blanks2': b'',
                   'northing_of_last_pixel': (0, {'units': 'm'}),
                   'easting_of_first_pixel': (0, {'units': 'm'}),
                   'blanks3': b'',
                   'easting_of_last_pixel': (0, {'units': 'm'}),
                   'line_heading': (0.0, {'units': 'deg'}),
                   'blanks4': b'',
                   'data': {'start': 912, 'size': 4, 'stop': 916}},
                  {'record_start': 916,
                   'preamble': {'record_sequence_number': 2,
                                'first_record_subtype': 50,
                                'record_type': 11,
                                'second_record_subtype': 18,
                                'third_record_subtype': 20,
                                'record_length': 196},
                   'sar_image_data_line_number': 2,
                   'sar_image_data_record_index': 2,
                   'actual_count_of_left_fill_pixels': 0,
                   'actual_count_of_data_pixels': 0,
                   'actual_count_of_right_fill_pixels': 0,
                   'sensor_parameters_update_flag': 0,
                   'sensor_acquisition_date': datetime.datetime(2020, 7, 18, 0, 0, 1, 2000),
                   'sar_channel_id': 'dual_polarization',
                   'sar_channel_code': 'L',
                   'transmitted_pulse_polarization': 'horizontal',
                   'received_pulse_polarization': 'horizontal',
                   'prf': (0, {'units': 'mHz'}),
                   'scan_id': 1,
                   'slant_range_to_first_pixel': (0, {'units': 'm'}),
                   'slant_range_to_mid_pixel': (0, {'units': 'm'}),
                   'slant_range_to_last_pixel': (0, {'units': 'm'}),
                   'doppler_centroid_value_at_first_pixel': (0.0, {'units': 'Hz'}),
                   'doppler_centroid_value_at_mid_pixel': (0.0, {'units': 'Hz'}),
                   'doppler_centroid_value_at_last_pixel': (0.0, {'units': 'Hz'}),
                   'azimuth_fm_rate_of_first_pixel': (0, {'units': 'Hz/ms'}),
                   'azimuth_fm_rate_of_mid_pixel': (0, {'units': 'Hz/ms'}),
                   'azimuth_fm_rate_of_last_pixel': (0, {'units': 'Hz/ms'}),
                   'look_angle_of_nadir': (0.0, {'units': 'deg'}),
                   'azimuth_squint_angle': (0.0, {'units': 'deg'}),
                   'blanks1': b'',
                   'geographic_reference_parameter_update_flag': 0,
                   'latitude_of_first_pixel': (0.0, {'units': 'deg'}),
                   'latitude_of_center_pixel': (0.0, {'units': 'deg'}),
                   'latitude_of_last_pixel': (0.0, {'units': 'deg'}),
                   'longitude_of_first_pixel': (0.0, {'units': 'deg'}),
                   'longitude_of_center_pixel': (0.0, {'units': 'deg'}),
                   'longitude_of_last_pixel': (0.0, {'units': 'deg'}),
                   'northing_of_first_pixel': (0, {'units': 'm'}),
                   'blanks2': b'',
                   'northing_of_last_pixel': (0, {'units': 'm'}),
                   'easting_of_first_pixel': (0, {'units': 'm'}),
                   'blanks3': b'',
                   'easting_of_last_pixel': (0, {'units': 'm'}),
                   'line_heading': (0.0, {'units': 'deg'}),
                   'blanks4': b'',
                   'data': {'start': 1108, 'size': 4, 'stop': 1112}}])}


def test_equiv():
    observed = observe()
    assert list(observed) == list(EXPECTED)
    for name in observed:
        assert observed[name] == EXPECTED[name], name


if __name__ == "__main__":
    if "--record" in sys.argv:
        pprint.pprint(observe(), sort_dicts=False, width=100)
    else:
        test_equiv()
        print(f"ok: {len(EXPECTED)} cases")
