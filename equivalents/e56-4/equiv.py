"""Equivalence check for refactoring 4 (sar_image/file_descriptor.py).

Run as ``python equiv.py`` (or through pytest).  ``python equiv.py --record``
prints the observations as a dict literal; EXPECTED below was recorded that
way from the UNCHANGED code.
"""

import hashlib
import io as stdlib_io
import pprint
import random
import sys
from collections import Counter

import construct

from ceos_alos2 import common, datatypes
from ceos_alos2.sar_image import file_descriptor, io, metadata
from ceos_alos2.sar_image.file_descriptor import file_descriptor_record
from ceos_alos2.utils import to_dict

PREAMBLE = bytes([0, 0, 0, 1, 50, 192, 18, 18, 0, 0, 2, 208])


def digest(obj):
    text = obj if isinstance(obj, str) else pprint.pformat(obj, width=120, sort_dicts=False)
    return f"sha256:{hashlib.sha256(text.encode()).hexdigest()} ({len(text)} chars)"


def observe(func, *args, **kwargs):
    try:
        result = func(*args, **kwargs)
    except Exception as e:  # noqa: BLE001
        return f"raised {type(e).__module__}.{type(e).__qualname__}: {e}"
    return f"{type(result).__module__}.{type(result).__qualname__}: {result!r}"


def describe(con):
    name = type(con).__qualname__
    if isinstance(con, construct.Renamed):
        return ("Renamed", con.name, con.docs, describe(con.subcon))
    if isinstance(con, construct.Struct):
        return ("Struct", [describe(sc) for sc in con.subcons])
    if isinstance(con, construct.FormatField):
        return ("FormatField", con.fmtstr, con.length)
    if isinstance(con, construct.StringEncoded):
        return (name, con.encoding, describe(con.subcon))
    if isinstance(con, construct.FixedSized):
        return (name, con.length, describe(con.subcon))
    if isinstance(con, construct.Subconstruct):
        return (name, describe(con.subcon))
    return (name, repr(con))


def walk(con):
    yield con
    if isinstance(con, construct.Struct):
        for sc in con.subcons:
            yield from walk(sc)
    elif isinstance(con, construct.Subconstruct):
        yield from walk(con.subcon)


def leaves(struct=file_descriptor_record, prefix=()):
    """(path, kind, width) of every text field, in file order"""
    for sc in struct.subcons:
        if sc.name == "preamble":
            continue
        if isinstance(sc.subcon, construct.Struct):
            yield from leaves(sc.subcon, prefix + (sc.name,))
        else:
            yield prefix + (sc.name,), type(sc.subcon).__qualname__, sc.sizeof()


def build(fill, preamble=PREAMBLE):
    """a 720 byte record; ``fill(path, kind, width)`` gives the text of each field"""
    parts = [preamble]
    for path, kind, width in leaves():
        text = fill(path, kind, width)
        if isinstance(text, str):
            text = text.encode("ascii")
        assert len(text) == width, (path, text)
        parts.append(text)
    content = b"".join(parts)
    assert len(content) == 720
    return content


def realistic(path, kind, width):
    values = {
        "ascii_ebcdic_flag": "A",
        "format_control_document_id": "CEOS-SAR",
        "format_control_document_revision_level": "A",
        "file_design_descriptor_revision_letter": "A",
        "software_release_and_revision_number": "002.023",
        "file_number": 2,
        "file_id": "AL2 IMOP",
        "record_sequence_and_location_type_flag": "FSEQ",
        "location_sequence_number": 1,
        "field_length_of_sequence_number": 4,
        "record_code_and_location_type_flag": "FTYP",
        "record_code_location": 5,
        "record_code_field_length": 4,
        "record_length_and_location_type_flag": "FLGT",
        "record_length_location": 9,
        "record_length_field_length": 4,
        "number_of_sar_data_records": 27156,
        "sar_data_record_length": 35464,
        "bit_length_per_sample": 32,
        "number_of_samples_per_data_group": 2,
        "number_of_bytes_per_data_group": 8,
        "justification_and_order_of_samples_within_data_group": "",
        "number_of_sar_channels": 1,
        "number_of_lines_per_dataset": 27156,
        "number_of_left_border_pixels_per_line": 0,
        "number_of_data_groups_per_line": 4356,
        "number_of_right_border_pixels_per_line": 0,
        "number_of_top_border_lines": 0,
        "number_of_bottom_border_lines": 0,
        "interleaving_id": "BSQ",
        "number_of_physical_records_per_line": 1,
        "number_of_physical_records_per_multichannel_line_in_this_file": 1,
        "number_of_bytes_of_prefix_data_per_record": 544,
        "number_of_bytes_of_sar_data_per_record": 34848,
        "number_of_bytes_of_suffix_data_per_record": 0,
        "sample_data_line_number_locator": "  13 4PB",
        "sar_channel_number_locator": "  49 2PB",
        "time_of_sar_data_line_locator": "  45 4PB",
        "left_fill_count_locator": "  21 4PB",
        "right_fill_count_locator": "  29 4PB",
        "sar_data_format_type_indicator": "COMPLEX REAL*4",
        "sar_data_format_type_code": "C*8",
        "number_of_left_fill_bits_within_pixel": 0,
        "number_of_right_fill_bits_within_pixel": 0,
        "number_of_burst_data": 5,
        "number_of_lines_per_burst": 354,
        "number_of_overlap_lines_with_adjacent_bursts": 12,
    }
    value = values.get(path[-1], "")
    if isinstance(value, int):
        return str(value).rjust(width)
    return value.ljust(width)


def blank(path, kind, width):
    return " " * width


def zeros(path, kind, width):
    return b"\x00" * width


def digits(path, kind, width):
    return "".join(str((i + len(path[-1])) % 10) for i in range(width))


def left_aligned(path, kind, width):
    return "7".ljust(width)


def negative(path, kind, width):
    return "-1".rjust(width) if width >= 2 else "1"


def random_text(seed):
    rng = random.Random(seed)

    def fill(path, kind, width):
        if kind == "AsciiInteger":
            n = rng.randrange(0, width + 1)
            return "".join(rng.choice("0123456789") for _ in range(n)).rjust(width)
        alphabet = "ABCDEFGHIJKLMNOPQRSTUVWXYZabcdefghijklmnopqrstuvwxyz0123456789 -_*./\x00\t"
        return "".join(rng.choice(alphabet) for _ in range(width))

    return fill


def broken_at(target, text):
    def fill(path, kind, width):
        if path[-1] == target and (len(path) == 1 or True):
            return text[:width].ljust(width) if isinstance(text, str) else text[:width].ljust(width, b" ")
        return realistic(path, kind, width)

    return fill


class LoggingFile:
    def __init__(self, content):
        self._f = stdlib_io.BytesIO(content)
        self.log = []

    def read(self, n=-1):
        position = self._f.tell()
        data = self._f.read(n)
        self.log.append(("read", n, position, len(data)))
        return data

    def seek(self, offset, whence=0):
        self.log.append(("seek", offset, whence))
        return self._f.seek(offset, whence)

    def tell(self):
        self.log.append(("tell",))
        return self._f.tell()


def collect():
    obs = {}

    def add(key, value):
        assert key not in obs, key
        obs[key] = value

    record = file_descriptor_record

    # --- the definition itself
    add("structure", describe(record))
    add("structure/digest", digest(describe(record)))
    add("type", type(record).__qualname__)
    add("sizeof", observe(record.sizeof))
    add("top-level-names", [sc.name for sc in record.subcons])
    add("leaves", list(leaves()))
    add("offsets", digest([(path, sum(w for _, _, w in list(leaves())[:i]) + 12) for i, (path, _, w) in enumerate(leaves())]))
    nodes = list(walk(record))
    add("node-counts", sorted(Counter(type(n).__qualname__ for n in nodes).items()))
    add("unique-node-counts", sorted(Counter(type(n).__qualname__ for n in {id(n): n for n in nodes}.values()).items()))
    add("preamble-shared", record.subcons[0].subcon is common.record_preamble)
    add("io-uses-it", io.file_descriptor_record is record)
    add("module-names", [hasattr(file_descriptor, n) for n in ("Struct", "record_preamble", "AsciiInteger", "PaddedString", "file_descriptor_record")])
    add("field-classes", sorted({type(sc.subcon) is getattr(datatypes, type(sc.subcon).__qualname__) for sc in nodes if isinstance(sc, construct.Renamed) and not isinstance(sc.subcon, (construct.Struct, construct.FormatField))}))
    add("sizeof-of-fields", [observe(sc.sizeof) for sc in record.subcons])
    add("getattr", observe(lambda: (record.file_number.name, record.sample_group_data.name, record.prefix_suffix_data_locators.subcon.blanks.sizeof())))
    add("build", observe(record.build, {}))

    # --- parsing
    fills = {
        "realistic": realistic,
        "blank": blank,
        "zeros": zeros,
        "digits": digits,
        "left-aligned": left_aligned,
        "negative": negative,
        **{f"random-{seed}": random_text(seed) for seed in range(6)},
    }
    for name, fill in fills.items():
        content = build(fill)
        result = observe(lambda: to_dict(record.parse(content)))
        add(f"parse/{name}", digest(result))
        add(f"parse/{name}/excerpt", (result[:400], result[-400:]))
        add(f"parse/{name}/repr", digest(observe(lambda: repr(record.parse(content)))))
        f = LoggingFile(content + b"following records")
        add(f"read/{name}", digest(observe(lambda: to_dict(io.read_file_descriptor(f)))))
        add(f"read/{name}/io-log", f.log)
    add("parse/realistic/full", observe(lambda: to_dict(record.parse(build(realistic)))))
    parsed = record.parse(build(realistic))
    add("parse/realistic/keys", list(parsed.keys()))
    add("parse/realistic/nested-keys", {k: list(v.keys()) for k, v in parsed.items() if hasattr(v, "keys")})
    add("parse/realistic/value-types", digest([(k, type(v).__qualname__) for k, v in parsed.items()]))
    add("parse/longer-input", digest(observe(lambda: to_dict(record.parse(build(realistic) + b"x" * 100)))))
    add("parse/preamble", observe(lambda: to_dict(record.parse(build(realistic, preamble=bytes(range(200, 212)))).preamble)))

    # header consumers
    header = to_dict(record.parse(build(realistic)))
    add("metadata/format-type", observe(metadata.extract_format_type, header))
    add("metadata/shape", observe(metadata.extract_shape, header))
    add("metadata/attrs", observe(metadata.extract_attrs, header))
    header = to_dict(record.parse(build(blank)))
    add("metadata/blank/format-type", observe(metadata.extract_format_type, header))
    add("metadata/blank/shape", observe(metadata.extract_shape, header))
    add("metadata/blank/attrs", observe(metadata.extract_attrs, header))

    # broken fields: which error, raised for which field
    content = build(realistic)
    for cut in (0, 5, 12, 13, 14, 16, 44, 48, 100, 179, 180, 186, 192, 216, 232, 272, 296, 448, 456, 459, 460, 719):
        add(f"truncated/{cut}", observe(lambda: to_dict(record.parse(content[:cut]))))
        f = LoggingFile(content[:cut])
        add(f"truncated/{cut}/read", observe(io.read_file_descriptor, f))
        add(f"truncated/{cut}/read/io-log", f.log)
    for target, text in (
        ("file_number", "abcd"),
        ("file_number", "1.5"),
        ("file_number", b"\xff\xfe  "),
        ("file_id", b"AL2 \xe9\xe8"),
        ("ascii_ebcdic_flag", b"\x80A"),
        ("number_of_sar_data_records", "12 345"),
        ("number_of_sar_data_records", "+12345"),
        ("number_of_sar_data_records", "1_2345"),
        ("sar_data_record_length", "0x10"),
        ("bit_length_per_sample", "thir"),
        ("number_of_lines_per_dataset", "1e3"),
        ("number_of_bytes_of_sar_data_per_record", b"\xc3\xa9"),
        ("maximum_data_range_of_pixel", "NaN"),
        ("number_of_overlap_lines_with_adjacent_bursts", "----"),
        ("blanks", b"\xff" * 300),
        ("reserved3", b"\xff"),
        ("sar_data_format_type_code", b"\x00\x00\x00\x00"),
        ("sar_data_format_type_code", "IU2"),
    ):
        result = observe(lambda: to_dict(record.parse(build(broken_at(target, text)))))
        add(f"broken/{target}/{text!r}", result if result.startswith("raised") else digest(result))

    return obs


EXPECTED = {'structure': ('Struct',
               [('Renamed',
                 'preamble',
                 '',
                 ('Struct',
                  [('Renamed', 'record_sequence_number', '', ('FormatField', '>L', 4)),
                   ('Renamed', 'first_record_subtype', '', ('FormatField', '>B', 1)),
                   ('Renamed', 'record_type', '', ('FormatField', '>B', 1)),
                   ('Renamed', 'second_record_subtype', '', ('FormatField', '>B', 1)),
                   ('Renamed', 'third_record_subtype', '', ('FormatField', '>B', 1)),
                   ('Renamed', 'record_length', '', ('FormatField', '>L', 4))])),
                ('Renamed',
                 'ascii_ebcdic_flag',
                 '',
                 ('PaddedString',
                  ('StringEncoded', 'ascii', ('FixedSized', 2, ('NullStripped', ('GreedyBytes', '<GreedyBytes>')))))),
                ('Renamed',
                 'blanks1',
                 '',
                 ('PaddedString',
                  ('StringEncoded', 'ascii', ('FixedSized', 2, ('NullStripped', ('GreedyBytes', '<GreedyBytes>')))))),
                ('Renamed',
                 'format_control_document_id',
                 '',
                 ('PaddedString',
                  ('StringEncoded', 'ascii', ('FixedSized', 12, ('NullStripped', ('GreedyBytes', '<GreedyBytes>')))))),
                ('Renamed',
                 'format_control_document_revision_level',
                 '',
                 ('PaddedString',
                  ('StringEncoded', 'ascii', ('FixedSized', 2, ('NullStripped', ('GreedyBytes', '<GreedyBytes>')))))),
                ('Renamed',
                 'file_design_descriptor_revision_letter',
                 '',
                 ('PaddedString',
                  ('StringEncoded', 'ascii', ('FixedSized', 2, ('NullStripped', ('GreedyBytes', '<GreedyBytes>')))))),
                ('Renamed',
                 'software_release_and_revision_number',
                 '',
                 ('PaddedString',
                  ('StringEncoded', 'ascii', ('FixedSized', 12, ('NullStripped', ('GreedyBytes', '<GreedyBytes>')))))),
                ('Renamed',
                 'file_number',
                 '',
                 ('AsciiInteger',
                  ('StringEncoded', 'ascii', ('FixedSized', 4, ('NullStripped', ('GreedyBytes', '<GreedyBytes>')))))),
                ('Renamed',
                 'file_id',
                 '',
                 ('PaddedString',
                  ('StringEncoded', 'ascii', ('FixedSized', 16, ('NullStripped', ('GreedyBytes', '<GreedyBytes>')))))),
                ('Renamed',
                 'record_sequence_and_location_type_flag',
                 '',
                 ('PaddedString',
                  ('StringEncoded', 'ascii', ('FixedSized', 4, ('NullStripped', ('GreedyBytes', '<GreedyBytes>')))))),
                ('Renamed',
                 'location_sequence_number',
                 '',
                 ('AsciiInteger',
                  ('StringEncoded', 'ascii', ('FixedSized', 8, ('NullStripped', ('GreedyBytes', '<GreedyBytes>')))))),
                ('Renamed',
                 'field_length_of_sequence_number',
                 '',
                 ('AsciiInteger',
                  ('StringEncoded', 'ascii', ('FixedSized', 4, ('NullStripped', ('GreedyBytes', '<GreedyBytes>')))))),
                ('Renamed',
                 'record_code_and_location_type_flag',
                 '',
                 ('PaddedString',
                  ('StringEncoded', 'ascii', ('FixedSized', 4, ('NullStripped', ('GreedyBytes', '<GreedyBytes>')))))),
                ('Renamed',
                 'record_code_location',
                 '',
                 ('AsciiInteger',
                  ('StringEncoded', 'ascii', ('FixedSized', 8, ('NullStripped', ('GreedyBytes', '<GreedyBytes>')))))),
                ('Renamed',
                 'record_code_field_length',
                 '',
                 ('AsciiInteger',
                  ('StringEncoded', 'ascii', ('FixedSized', 4, ('NullStripped', ('GreedyBytes', '<GreedyBytes>')))))),
                ('Renamed',
                 'record_length_and_location_type_flag',
                 '',
                 ('PaddedString',
                  ('StringEncoded', 'ascii', ('FixedSized', 4, ('NullStripped', ('GreedyBytes', '<GreedyBytes>')))))),
                ('Renamed',
                 'record_length_location',
                 '',
                 ('AsciiInteger',
                  ('StringEncoded', 'ascii', ('FixedSized', 8, ('NullStripped', ('GreedyBytes', '<GreedyBytes>')))))),
                ('Renamed',
                 'record_length_field_length',
                 '',
                 ('AsciiInteger',
                  ('StringEncoded', 'ascii', ('FixedSized', 4, ('NullStripped', ('GreedyBytes', '<GreedyBytes>')))))),
                ('Renamed',
                 'reserved1',
                 '',
                 ('PaddedString',
                  ('StringEncoded', 'ascii', ('FixedSized', 1, ('NullStripped', ('GreedyBytes', '<GreedyBytes>')))))),
                ('Renamed',
                 'reserved2',
                 '',
                 ('PaddedString',
                  ('StringEncoded', 'ascii', ('FixedSized', 1, ('NullStripped', ('GreedyBytes', '<GreedyBytes>')))))),
                ('Renamed',
                 'reserved3',
                 '',
                 ('PaddedString',
                  ('StringEncoded', 'ascii', ('FixedSized', 1, ('NullStripped', ('GreedyBytes', '<GreedyBytes>')))))),
                ('Renamed',
                 'reserved4',
                 '',
                 ('PaddedString',
                  ('StringEncoded', 'ascii', ('FixedSized', 1, ('NullStripped', ('GreedyBytes', '<GreedyBytes>')))))),
                ('Renamed',
                 'blanks6',
                 '',
                 ('PaddedString',
                  ('StringEncoded', 'ascii', ('FixedSized', 64, ('NullStripped', ('GreedyBytes', '<GreedyBytes>')))))),
                ('Renamed',
                 'number_of_sar_data_records',
                 '',
                 ('AsciiInteger',
                  ('StringEncoded', 'ascii', ('FixedSized', 6, ('NullStripped', ('GreedyBytes', '<GreedyBytes>')))))),
                ('Renamed',
                 'sar_data_record_length',
                 '',
                 ('AsciiInteger',
                  ('StringEncoded', 'ascii', ('FixedSized', 6, ('NullStripped', ('GreedyBytes', '<GreedyBytes>')))))),
                ('Renamed',
                 'reserved5',
                 '',
                 ('PaddedString',
                  ('StringEncoded', 'ascii', ('FixedSized', 24, ('NullStripped', ('GreedyBytes', '<GreedyBytes>')))))),
                ('Renamed',
                 'sample_group_data',
                 '',
                 ('Struct',
                  [('Renamed',
                    'bit_length_per_sample',
                    '',
                    ('AsciiInteger',
                     ('StringEncoded',
                      'ascii',
                      ('FixedSized', 4, ('NullStripped', ('GreedyBytes', '<GreedyBytes>')))))),
                   ('Renamed',
                    'number_of_samples_per_data_group',
                    '',
                    ('AsciiInteger',
                     ('StringEncoded',
                      'ascii',
                      ('FixedSized', 4, ('NullStripped', ('GreedyBytes', '<GreedyBytes>')))))),
                   ('Renamed',
                    'number_of_bytes_per_data_group',
                    '',
                    ('AsciiInteger',
                     ('StringEncoded',
                      'ascii',
                      ('FixedSized', 4, ('NullStripped', ('GreedyBytes', '<GreedyBytes>')))))),
                   ('Renamed',
                    'justification_and_order_of_samples_within_data_group',
                    '',
                    ('PaddedString',
                     ('StringEncoded',
                      'ascii',
                      ('FixedSized', 4, ('NullStripped', ('GreedyBytes', '<GreedyBytes>'))))))])),
                ('Renamed',
                 'sar_related_data_in_the_record',
                 '',
                 ('Struct',
                  [('Renamed',
                    'number_of_sar_channels',
                    '',
                    ('AsciiInteger',
                     ('StringEncoded',
                      'ascii',
                      ('FixedSized', 4, ('NullStripped', ('GreedyBytes', '<GreedyBytes>')))))),
                   ('Renamed',
                    'number_of_lines_per_dataset',
                    '',
                    ('AsciiInteger',
                     ('StringEncoded',
                      'ascii',
                      ('FixedSized', 8, ('NullStripped', ('GreedyBytes', '<GreedyBytes>')))))),
                   ('Renamed',
                    'number_of_left_border_pixels_per_line',
                    '',
                    ('AsciiInteger',
                     ('StringEncoded',
                      'ascii',
                      ('FixedSized', 4, ('NullStripped', ('GreedyBytes', '<GreedyBytes>')))))),
                   ('Renamed',
                    'number_of_data_groups_per_line',
                    '',
                    ('AsciiInteger',
                     ('StringEncoded',
                      'ascii',
                      ('FixedSized', 8, ('NullStripped', ('GreedyBytes', '<GreedyBytes>')))))),
                   ('Renamed',
                    'number_of_right_border_pixels_per_line',
                    '',
                    ('AsciiInteger',
                     ('StringEncoded',
                      'ascii',
                      ('FixedSized', 4, ('NullStripped', ('GreedyBytes', '<GreedyBytes>')))))),
                   ('Renamed',
                    'number_of_top_border_lines',
                    '',
                    ('AsciiInteger',
                     ('StringEncoded',
                      'ascii',
                      ('FixedSized', 4, ('NullStripped', ('GreedyBytes', '<GreedyBytes>')))))),
                   ('Renamed',
                    'number_of_bottom_border_lines',
                    '',
                    ('AsciiInteger',
                     ('StringEncoded',
                      'ascii',
                      ('FixedSized', 4, ('NullStripped', ('GreedyBytes', '<GreedyBytes>')))))),
                   ('Renamed',
                    'interleaving_id',
                    '',
                    ('PaddedString',
                     ('StringEncoded',
                      'ascii',
                      ('FixedSized', 4, ('NullStripped', ('GreedyBytes', '<GreedyBytes>'))))))])),
                ('Renamed',
                 'record_data_in_the_file',
                 '',
                 ('Struct',
                  [('Renamed',
                    'number_of_physical_records_per_line',
                    '',
                    ('AsciiInteger',
                     ('StringEncoded',
                      'ascii',
                      ('FixedSized', 2, ('NullStripped', ('GreedyBytes', '<GreedyBytes>')))))),
                   ('Renamed',
                    'number_of_physical_records_per_multichannel_line_in_this_file',
                    '',
                    ('AsciiInteger',
                     ('StringEncoded',
                      'ascii',
                      ('FixedSized', 2, ('NullStripped', ('GreedyBytes', '<GreedyBytes>')))))),
                   ('Renamed',
                    'number_of_bytes_of_prefix_data_per_record',
                    '',
                    ('AsciiInteger',
                     ('StringEncoded',
                      'ascii',
                      ('FixedSized', 4, ('NullStripped', ('GreedyBytes', '<GreedyBytes>')))))),
                   ('Renamed',
                    'number_of_bytes_of_sar_data_per_record',
                    '',
                    ('AsciiInteger',
                     ('StringEncoded',
                      'ascii',
                      ('FixedSized', 8, ('NullStripped', ('GreedyBytes', '<GreedyBytes>')))))),
                   ('Renamed',
                    'number_of_bytes_of_suffix_data_per_record',
                    '',
                    ('AsciiInteger',
                     ('StringEncoded',
                      'ascii',
                      ('FixedSized', 4, ('NullStripped', ('GreedyBytes', '<GreedyBytes>')))))),
                   ('Renamed',
                    'prefix_suffix_repeat_flag',
                    '',
                    ('PaddedString',
                     ('StringEncoded',
                      'ascii',
                      ('FixedSized', 4, ('NullStripped', ('GreedyBytes', '<GreedyBytes>'))))))])),
                ('Renamed',
                 'prefix_suffix_data_locators',
                 '',
                 ('Struct',
                  [('Renamed',
                    'sample_data_line_number_locator',
                    '',
                    ('PaddedString',
                     ('StringEncoded',
                      'ascii',
                      ('FixedSized', 8, ('NullStripped', ('GreedyBytes', '<GreedyBytes>')))))),
                   ('Renamed',
                    'sar_channel_number_locator',
                    '',
                    ('PaddedString',
                     ('StringEncoded',
                      'ascii',
                      ('FixedSized', 8, ('NullStripped', ('GreedyBytes', '<GreedyBytes>')))))),
                   ('Renamed',
                    'time_of_sar_data_line_locator',
                    '',
                    ('PaddedString',
                     ('StringEncoded',
                      'ascii',
                      ('FixedSized', 8, ('NullStripped', ('GreedyBytes', '<GreedyBytes>')))))),
                   ('Renamed',
                    'left_fill_count_locator',
                    '',
                    ('PaddedString',
                     ('StringEncoded',
                      'ascii',
                      ('FixedSized', 8, ('NullStripped', ('GreedyBytes', '<GreedyBytes>')))))),
                   ('Renamed',
                    'right_fill_count_locator',
                    '',
                    ('PaddedString',
                     ('StringEncoded',
                      'ascii',
                      ('FixedSized', 8, ('NullStripped', ('GreedyBytes', '<GreedyBytes>')))))),
                   ('Renamed',
                    'pad_pixels_present_indicator',
                    '',
                    ('PaddedString',
                     ('StringEncoded',
                      'ascii',
                      ('FixedSized', 4, ('NullStripped', ('GreedyBytes', '<GreedyBytes>')))))),
                   ('Renamed',
                    'blanks',
                    '',
                    ('PaddedString',
                     ('StringEncoded',
                      'ascii',
                      ('FixedSized', 28, ('NullStripped', ('GreedyBytes', '<GreedyBytes>')))))),
                   ('Renamed',
                    'sar_data_line_quality_code_locator',
                    '',
                    ('PaddedString',
                     ('StringEncoded',
                      'ascii',
                      ('FixedSized', 8, ('NullStripped', ('GreedyBytes', '<GreedyBytes>')))))),
                   ('Renamed',
                    'calibration_information_field_locator',
                    '',
                    ('PaddedString',
                     ('StringEncoded',
                      'ascii',
                      ('FixedSized', 8, ('NullStripped', ('GreedyBytes', '<GreedyBytes>')))))),
                   ('Renamed',
                    'gain_values_field_locator',
                    '',
                    ('PaddedString',
                     ('StringEncoded',
                      'ascii',
                      ('FixedSized', 8, ('NullStripped', ('GreedyBytes', '<GreedyBytes>')))))),
                   ('Renamed',
                    'bias_values_field_locator',
                    '',
                    ('PaddedString',
                     ('StringEncoded',
                      'ascii',
                      ('FixedSized', 8, ('NullStripped', ('GreedyBytes', '<GreedyBytes>')))))),
                   ('Renamed',
                    'sar_data_format_type_indicator',
                    '',
                    ('PaddedString',
                     ('StringEncoded',
                      'ascii',
                      ('FixedSized', 28, ('NullStripped', ('GreedyBytes', '<GreedyBytes>')))))),
                   ('Renamed',
                    'sar_data_format_type_code',
                    '',
                    ('PaddedString',
                     ('StringEncoded',
                      'ascii',
                      ('FixedSized', 4, ('NullStripped', ('GreedyBytes', '<GreedyBytes>')))))),
                   ('Renamed',
                    'number_of_left_fill_bits_within_pixel',
                    '',
                    ('AsciiInteger',
                     ('StringEncoded',
                      'ascii',
                      ('FixedSized', 4, ('NullStripped', ('GreedyBytes', '<GreedyBytes>')))))),
                   ('Renamed',
                    'number_of_right_fill_bits_within_pixel',
                    '',
                    ('AsciiInteger',
                     ('StringEncoded',
                      'ascii',
                      ('FixedSized', 4, ('NullStripped', ('GreedyBytes', '<GreedyBytes>')))))),
                   ('Renamed',
                    'maximum_data_range_of_pixel',
                    '',
                    ('AsciiInteger',
                     ('StringEncoded',
                      'ascii',
                      ('FixedSized', 8, ('NullStripped', ('GreedyBytes', '<GreedyBytes>')))))),
                   ('Renamed',
                    'number_of_burst_data',
                    '',
                    ('AsciiInteger',
                     ('StringEncoded',
                      'ascii',
                      ('FixedSized', 4, ('NullStripped', ('GreedyBytes', '<GreedyBytes>')))))),
                   ('Renamed',
                    'number_of_lines_per_burst',
                    '',
                    ('AsciiInteger',
                     ('StringEncoded',
                      'ascii',
                      ('FixedSized', 4, ('NullStripped', ('GreedyBytes', '<GreedyBytes>'))))))])),
                ('Renamed',
                 'scansar_burst_data_information',
                 '',
                 ('Struct',
                  [('Renamed',
                    'number_of_overlap_lines_with_adjacent_bursts',
                    '',
                    ('AsciiInteger',
                     ('StringEncoded',
                      'ascii',
                      ('FixedSized', 4, ('NullStripped', ('GreedyBytes', '<GreedyBytes>')))))),
                   ('Renamed',
                    'blanks',
                    '',
                    ('PaddedString',
                     ('StringEncoded',
                      'ascii',
                      ('FixedSized', 260, ('NullStripped', ('GreedyBytes', '<GreedyBytes>'))))))]))]),
 'structure/digest': 'sha256:221e1546c1601f07c05ae0774e6f15e3321b39f4b19d09a5c360c35e83241a6d (12648 chars)',
 'type': 'Struct',
 'sizeof': 'builtins.int: 720',
 'top-level-names': ['preamble',
                     'ascii_ebcdic_flag',
                     'blanks1',
                     'format_control_document_id',
                     'format_control_document_revision_level',
                     'file_design_descriptor_revision_letter',
                     'software_release_and_revision_number',
                     'file_number',
                     'file_id',
                     'record_sequence_and_location_type_flag',
                     'location_sequence_number',
                     'field_length_of_sequence_number',
                     'record_code_and_location_type_flag',
                     'record_code_location',
                     'record_code_field_length',
                     'record_length_and_location_type_flag',
                     'record_length_location',
                     'record_length_field_length',
                     'reserved1',
                     'reserved2',
                     'reserved3',
                     'reserved4',
                     'blanks6',
                     'number_of_sar_data_records',
                     'sar_data_record_length',
                     'reserved5',
                     'sample_group_data',
                     'sar_related_data_in_the_record',
                     'record_data_in_the_file',
                     'prefix_suffix_data_locators',
                     'scansar_burst_data_information'],
 'leaves': [(('ascii_ebcdic_flag',), 'PaddedString', 2),
            (('blanks1',), 'PaddedString', 2),
            (('format_control_document_id',), 'PaddedString', 12),
            (('format_control_document_revision_level',), 'PaddedString', 2),
            (('file_design_descriptor_revision_letter',), 'PaddedString', 2),
            (('software_release_and_revision_number',), 'PaddedString', 12),
            (('file_number',), 'AsciiInteger', 4),
            (('file_id',), 'PaddedString', 16),
            (('record_sequence_and_location_type_flag',), 'PaddedString', 4),
            (('location_sequence_number',), 'AsciiInteger', 8),
            (('field_length_of_sequence_number',), 'AsciiInteger', 4),
            (('record_code_and_location_type_flag',), 'PaddedString', 4),
            (('record_code_location',), 'AsciiInteger', 8),
            (('record_code_field_length',), 'AsciiInteger', 4),
            (('record_length_and_location_type_flag',), 'PaddedString', 4),
            (('record_length_location',), 'AsciiInteger', 8),
            (('record_length_field_length',), 'AsciiInteger', 4),
            (('reserved1',), 'PaddedString', 1),
            (('reserved2',), 'PaddedString', 1),
            (('reserved3',), 'PaddedString', 1),
            (('reserved4',), 'PaddedString', 1),
            (('blanks6',), 'PaddedString', 64),
            (('number_of_sar_data_records',), 'AsciiInteger', 6),
            (('sar_data_record_length',), 'AsciiInteger', 6),
            (('reserved5',), 'PaddedString', 24),
            (('sample_group_data', 'bit_length_per_sample'), 'AsciiInteger', 4),
            (('sample_group_data', 'number_of_samples_per_data_group'), 'AsciiInteger', 4),
            (('sample_group_data', 'number_of_bytes_per_data_group'), 'AsciiInteger', 4),
            (('sample_group_data', 'justification_and_order_of_samples_within_data_group'), 'PaddedString', 4),
            (('sar_related_data_in_the_record', 'number_of_sar_channels'), 'AsciiInteger', 4),
            (('sar_related_data_in_the_record', 'number_of_lines_per_dataset'), 'AsciiInteger', 8),
            (('sar_related_data_in_the_record', 'number_of_left_border_pixels_per_line'), 'AsciiInteger', 4),
            (('sar_related_data_in_the_record', 'number_of_data_groups_per_line'), 'AsciiInteger', 8),
            (('sar_related_data_in_the_record', 'number_of_right_border_pixels_per_line'), 'AsciiInteger', 4),
            (('sar_related_data_in_the_record', 'number_of_top_border_lines'), 'AsciiInteger', 4),
            (('sar_related_data_in_the_record', 'number_of_bottom_border_lines'), 'AsciiInteger', 4),
            (('sar_related_data_in_the_record', 'interleaving_id'), 'PaddedString', 4),
            (('record_data_in_the_file', 'number_of_physical_records_per_line'), 'AsciiInteger', 2),
            (('record_data_in_the_file', 'number_of_physical_records_per_multichannel_line_in_this_file'),
             'AsciiInteger',
             2),
            (('record_data_in_the_file', 'number_of_bytes_of_prefix_data_per_record'), 'AsciiInteger', 4),
            (('record_data_in_the_file', 'number_of_bytes_of_sar_data_per_record'), 'AsciiInteger', 8),
            (('record_data_in_the_file', 'number_of_bytes_of_suffix_data_per_record'), 'AsciiInteger', 4),
            (('record_data_in_the_file', 'prefix_suffix_repeat_flag'), 'PaddedString', 4),
            (('prefix_suffix_data_locators', 'sample_data_line_number_locator'), 'PaddedString', 8),
            (('prefix_suffix_data_locators', 'sar_channel_number_locator'), 'PaddedString', 8),
            (('prefix_suffix_data_locators', 'time_of_sar_data_line_locator'), 'PaddedString', 8),
            (('prefix_suffix_data_locators', 'left_fill_count_locator'), 'PaddedString', 8),
            (('prefix_suffix_data_locators', 'right_fill_count_locator'), 'PaddedString', 8),
            (('prefix_suffix_data_locators', 'pad_pixels_present_indicator'), 'PaddedString', 4),
            (('prefix_suffix_data_locators', 'blanks'), 'PaddedString', 28),
            (('prefix_suffix_data_locators', 'sar_data_line_quality_code_locator'), 'PaddedString', 8),
            (('prefix_suffix_data_locators', 'calibration_information_field_locator'), 'PaddedString', 8),
            (('prefix_suffix_data_locators', 'gain_values_field_locator'), 'PaddedString', 8),
            (('prefix_suffix_data_locators', 'bias_values_field_locator'), 'PaddedString', 8),
            (('prefix_suffix_data_locators', 'sar_data_format_type_indicator'), 'PaddedString', 28),
            (('prefix_suffix_data_locators', 'sar_data_format_type_code'), 'PaddedString', 4),
            (('prefix_suffix_data_locators', 'number_of_left_fill_bits_within_pixel'), 'AsciiInteger', 4),
            (('prefix_suffix_data_locators', 'number_of_right_fill_bits_within_pixel'), 'AsciiInteger', 4),
            (('prefix_suffix_data_locators', 'maximum_data_range_of_pixel'), 'AsciiInteger', 8),
            (('prefix_suffix_data_locators', 'number_of_burst_data'), 'AsciiInteger', 4),
            (('prefix_suffix_data_locators', 'number_of_lines_per_burst'), 'AsciiInteger', 4),
            (('scansar_burst_data_information', 'number_of_overlap_lines_with_adjacent_bursts'), 'AsciiInteger', 4),
            (('scansar_burst_data_information', 'blanks'), 'PaddedString', 260)],
 'offsets': 'sha256:8465eaefa874e64ac94283926d9b7704193902a8ecf925e86393bce55cda4f5b (3710 chars)',
 'node-counts': [('AsciiInteger', 30),
                 ('FixedSized', 63),
                 ('FormatField', 6),
                 ('GreedyBytes', 63),
                 ('NullStripped', 63),
                 ('PaddedString', 33),
                 ('Renamed', 75),
                 ('StringEncoded', 63),
                 ('Struct', 7)],
 'unique-node-counts': [('AsciiInteger', 30),
                        ('FixedSized', 63),
                        ('FormatField', 2),
                        ('GreedyBytes', 1),
                        ('NullStripped', 63),
                        ('PaddedString', 33),
                        ('Renamed', 75),
                        ('StringEncoded', 63),
                        ('Struct', 7)],
 'preamble-shared': True,
 'io-uses-it': True,
 'module-names': [True, True, True, True, True],
 'field-classes': [True],
 'sizeof-of-fields': ['builtins.int: 12',
                      'builtins.int: 2',
                      'builtins.int: 2',
                      'builtins.int: 12',
                      'builtins.int: 2',
                      'builtins.int: 2',
                      'builtins.int: 12',
                      'builtins.int: 4',
                      'builtins.int: 16',
                      'builtins.int: 4',
                      'builtins.int: 8',
                      'builtins.int: 4',
                      'builtins.int: 4',
                      'builtins.int: 8',
                      'builtins.int: 4',
                      'builtins.int: 4',
                      'builtins.int: 8',
                      'builtins.int: 4',
                      'builtins.int: 1',
                      'builtins.int: 1',
                      'builtins.int: 1',
                      'builtins.int: 1',
                      'builtins.int: 64',
                      'builtins.int: 6',
                      'builtins.int: 6',
                      'builtins.int: 24',
                      'builtins.int: 16',
                      'builtins.int: 40',
                      'builtins.int: 24',
                      'builtins.int: 160',
                      'builtins.int: 264'],
 'getattr': "builtins.tuple: ('file_number', 'sample_group_data', 28)",
 'build': "raised builtins.KeyError: 'preamble'",
 'parse/realistic': 'sha256:fe4eb7f08a8a605d0c5dc0d21b28ee1a317cf026ac8cebfc2aad4e3de9d94afc (2605 chars)',
 'parse/realistic/excerpt': ("builtins.dict: {'preamble': {'record_sequence_number': 1, 'first_record_subtype': 50, "
                             "'record_type': 192, 'second_record_subtype': 18, 'third_record_subtype': 18, "
                             "'record_length': 720}, 'ascii_ebcdic_flag': 'A', 'blanks1': '', "
                             "'format_control_document_id': 'CEOS-SAR', 'format_control_document_revision_level': 'A', "
                             "'file_design_descriptor_revision_letter': 'A', 'software_release_and_revision_number",
                             "lues_field_locator': '', 'sar_data_format_type_indicator': 'COMPLEX REAL*4', "
                             "'sar_data_format_type_code': 'C*8', 'number_of_left_fill_bits_within_pixel': 0, "
                             "'number_of_right_fill_bits_within_pixel': 0, 'maximum_data_range_of_pixel': -1, "
                             "'number_of_burst_data': 5, 'number_of_lines_per_burst': 354}, "
                             "'scansar_burst_data_information': {'number_of_overlap_lines_with_adjacent_bursts': 12, "
                             "'blanks': ''}}"),
 'parse/realistic/repr': 'sha256:734da99cc8ae4c884af60171c16704cbc609bab735bfdfae63afb4d3cb2cabf4 (2477 chars)',
 'read/realistic': 'sha256:fe4eb7f08a8a605d0c5dc0d21b28ee1a317cf026ac8cebfc2aad4e3de9d94afc (2605 chars)',
 'read/realistic/io-log': [('read', 720, 0, 720)],
 'parse/blank': 'sha256:5723dfcbcb94f0d85e2ad0e4f8755e4e528016f327ab472525263a91d898eeba (2521 chars)',
 'parse/blank/excerpt': ("builtins.dict: {'preamble': {'record_sequence_number': 1, 'first_record_subtype': 50, "
                         "'record_type': 192, 'second_record_subtype': 18, 'third_record_subtype': 18, "
                         "'record_length': 720}, 'ascii_ebcdic_flag': '', 'blanks1': '', 'format_control_document_id': "
                         "'', 'format_control_document_revision_level': '', 'file_design_descriptor_revision_letter': "
                         "'', 'software_release_and_revision_number': '', 'fil",
                         "': '', 'bias_values_field_locator': '', 'sar_data_format_type_indicator': '', "
                         "'sar_data_format_type_code': '', 'number_of_left_fill_bits_within_pixel': -1, "
                         "'number_of_right_fill_bits_within_pixel': -1, 'maximum_data_range_of_pixel': -1, "
                         "'number_of_burst_data': -1, 'number_of_lines_per_burst': -1}, "
                         "'scansar_burst_data_information': {'number_of_overlap_lines_with_adjacent_bursts': -1, "
                         "'blanks': ''}}"),
 'parse/blank/repr': 'sha256:8f9c2c349b36a1f2b8a6167a3fe0212b711d3d5ad43190f37d176d66e587d792 (2393 chars)',
 'read/blank': 'sha256:5723dfcbcb94f0d85e2ad0e4f8755e4e528016f327ab472525263a91d898eeba (2521 chars)',
 'read/blank/io-log': [('read', 720, 0, 720)],
 'parse/zeros': 'sha256:5723dfcbcb94f0d85e2ad0e4f8755e4e528016f327ab472525263a91d898eeba (2521 chars)',
 'parse/zeros/excerpt': ("builtins.dict: {'preamble': {'record_sequence_number': 1, 'first_record_subtype': 50, "
                         "'record_type': 192, 'second_record_subtype': 18, 'third_record_subtype': 18, "
                         "'record_length': 720}, 'ascii_ebcdic_flag': '', 'blanks1': '', 'format_control_document_id': "
                         "'', 'format_control_document_revision_level': '', 'file_design_descriptor_revision_letter': "
                         "'', 'software_release_and_revision_number': '', 'fil",
                         "': '', 'bias_values_field_locator': '', 'sar_data_format_type_indicator': '', "
                         "'sar_data_format_type_code': '', 'number_of_left_fill_bits_within_pixel': -1, "
                         "'number_of_right_fill_bits_within_pixel': -1, 'maximum_data_range_of_pixel': -1, "
                         "'number_of_burst_data': -1, 'number_of_lines_per_burst': -1}, "
                         "'scansar_burst_data_information': {'number_of_overlap_lines_with_adjacent_bursts': -1, "
                         "'blanks': ''}}"),
 'parse/zeros/repr': 'sha256:8f9c2c349b36a1f2b8a6167a3fe0212b711d3d5ad43190f37d176d66e587d792 (2393 chars)',
 'read/zeros': 'sha256:5723dfcbcb94f0d85e2ad0e4f8755e4e528016f327ab472525263a91d898eeba (2521 chars)',
 'read/zeros/io-log': [('read', 720, 0, 720)],
 'parse/digits': 'sha256:4f728ed06d0679a8b9735f8375dbc257eed49c7b3afcdaad2edf00c7e48c0fa9 (3165 chars)',
 'parse/digits/excerpt': ("builtins.dict: {'preamble': {'record_sequence_number': 1, 'first_record_subtype': 50, "
                          "'record_type': 192, 'second_record_subtype': 18, 'third_record_subtype': 18, "
                          "'record_length': 720}, 'ascii_ebcdic_flag': '78', 'blanks1': '78', "
                          "'format_control_document_id': '678901234567', 'format_control_document_revision_level': "
                          "'89', 'file_design_descriptor_revision_letter': '89', 'software_release_and_revisi",
                          " 'number_of_lines_per_burst': 5678}, 'scansar_burst_data_information': "
                          "{'number_of_overlap_lines_with_adjacent_bursts': 4567, 'blanks': "
                          "'67890123456789012345678901234567890123456789012345678901234567890123456789012345678901234567890123456789012345678901234567890123456789012345678901234567890123456789012345678901234567890123456789012345678901234567890123456789012345678901234567890123456789012345'}}"),
 'parse/digits/repr': 'sha256:246cbde07c956748eda6a405bb614954421c52174c6aa98831ba777a27e29c1d (3037 chars)',
 'read/digits': 'sha256:4f728ed06d0679a8b9735f8375dbc257eed49c7b3afcdaad2edf00c7e48c0fa9 (3165 chars)',
 'read/digits/io-log': [('read', 720, 0, 720)],
 'parse/left-aligned': 'sha256:2705366408bd1f4e2f345bb7bf65f66059312efd302418ce542186db19c2727e (2524 chars)',
 'parse/left-aligned/excerpt': ("builtins.dict: {'preamble': {'record_sequence_number': 1, 'first_record_subtype': 50, "
                                "'record_type': 192, 'second_record_subtype': 18, 'third_record_subtype': 18, "
                                "'record_length': 720}, 'ascii_ebcdic_flag': '7', 'blanks1': '7', "
                                "'format_control_document_id': '7', 'format_control_document_revision_level': '7', "
                                "'file_design_descriptor_revision_letter': '7', "
                                "'software_release_and_revision_number': '7'",
                                "r': '7', 'bias_values_field_locator': '7', 'sar_data_format_type_indicator': '7', "
                                "'sar_data_format_type_code': '7', 'number_of_left_fill_bits_within_pixel': 7, "
                                "'number_of_right_fill_bits_within_pixel': 7, 'maximum_data_range_of_pixel': 7, "
                                "'number_of_burst_data': 7, 'number_of_lines_per_burst': 7}, "
                                "'scansar_burst_data_information': {'number_of_overlap_lines_with_adjacent_bursts': 7, "
                                "'blanks': '7'}}"),
 'parse/left-aligned/repr': 'sha256:75b327eafe12b2c3babf0c7c0d6db3304583d8f2ef72f2f8dd6ebf0fd965e19e (2396 chars)',
 'read/left-aligned': 'sha256:2705366408bd1f4e2f345bb7bf65f66059312efd302418ce542186db19c2727e (2524 chars)',
 'read/left-aligned/io-log': [('read', 720, 0, 720)],
 'parse/negative': 'sha256:9eeb110ba0d846547b452812ab9529c89a6a709d899853db47a96159f51c7e66 (2583 chars)',
 'parse/negative/excerpt': ("builtins.dict: {'preamble': {'record_sequence_number': 1, 'first_record_subtype': 50, "
                            "'record_type': 192, 'second_record_subtype': 18, 'third_record_subtype': 18, "
                            "'record_length': 720}, 'ascii_ebcdic_flag': '-1', 'blanks1': '-1', "
                            "'format_control_document_id': '-1', 'format_control_document_revision_level': '-1', "
                            "'file_design_descriptor_revision_letter': '-1', 'software_release_and_revision_number'",
                            "bias_values_field_locator': '-1', 'sar_data_format_type_indicator': '-1', "
                            "'sar_data_format_type_code': '-1', 'number_of_left_fill_bits_within_pixel': -1, "
                            "'number_of_right_fill_bits_within_pixel': -1, 'maximum_data_range_of_pixel': -1, "
                            "'number_of_burst_data': -1, 'number_of_lines_per_burst': -1}, "
                            "'scansar_burst_data_information': {'number_of_overlap_lines_with_adjacent_bursts': -1, "
                            "'blanks': '-1'}}"),
 'parse/negative/repr': 'sha256:fea796fe4ee142b059749b535ad3ed83debf87ba20b30d4de85d14599ee17064 (2455 chars)',
 'read/negative': 'sha256:9eeb110ba0d846547b452812ab9529c89a6a709d899853db47a96159f51c7e66 (2583 chars)',
 'read/negative/io-log': [('read', 720, 0, 720)],
 'parse/random-0': 'sha256:a5f8f48ce27fc5c20dd6bae49c333c366cc28db3d9db31742e0f582d245f6b70 (3110 chars)',
 'parse/random-0/excerpt': ("builtins.dict: {'preamble': {'record_sequence_number': 1, 'first_record_subtype': 50, "
                            "'record_type': 192, 'second_record_subtype': 18, 'third_record_subtype': 18, "
                            "'record_length': 720}, 'ascii_ebcdic_flag': 'x1', 'blanks1': 'Fh', "
                            "'format_control_document_id': '* zm9tb_RkRM', 'format_control_document_revision_level': "
                            "'g', 'file_design_descriptor_revision_letter': 'Sn', 'software_release_and_revisio",
                            "mber_of_lines_per_burst': 3055}, 'scansar_burst_data_information': "
                            "{'number_of_overlap_lines_with_adjacent_bursts': 8, 'blanks': "
                            "'SgTwl8IK.FIcQFmB5qUT6v_w/_EL.J2al\\x0019xdCAXm_gqI-hm0xxHUQekqHE91S KTt0E7x6GM8TCEQpNsYx "
                            'OH7rPlQxlP.YEy4vY6tJFF '
                            "gD.bdL_/1_nOS22KN1IM1TD531D-pgKtJPtDssWBduJSaAaPAlvDdSX6O9shQDauq8llpXKN\\x00nUwSQco*feXlv1FQCyJJQ1m1S2mtKf4v/Hw0B1p4avl8LXNjOT5zX13Wf6r.St7L9alA57AbmOm\\tT28'}}"),
 'parse/random-0/repr': 'sha256:8fbe8945d8492bfcc565e3f0fe3bc74f85856fbb19cdc0622c56bacafe47e9b8 (2989 chars)',
 'read/random-0': 'sha256:a5f8f48ce27fc5c20dd6bae49c333c366cc28db3d9db31742e0f582d245f6b70 (3110 chars)',
 'read/random-0/io-log': [('read', 720, 0, 720)],
 'parse/random-1': 'sha256:a45cc4eb9257cc4208c24f1602bd09bf45bead12557287a65aa70c8fe61e29f1 (3125 chars)',
 'parse/random-1/excerpt': ("builtins.dict: {'preamble': {'record_sequence_number': 1, 'first_record_subtype': 50, "
                            "'record_type': 192, 'second_record_subtype': 18, 'third_record_subtype': 18, "
                            "'record_length': 720}, 'ascii_ebcdic_flag': 'RI', 'blanks1': 'gP', "
                            "'format_control_document_id': '-58waM Dx3A5', 'format_control_document_revision_level': "
                            "'id', 'file_design_descriptor_revision_letter': 'No', 'software_release_and_revisi",
                            "_of_lines_per_burst': 2}, 'scansar_burst_data_information': "
                            "{'number_of_overlap_lines_with_adjacent_bursts': 68, 'blanks': 'UGfgI53g\\t4\\x006ByrVh "
                            'D1CHtRQRhjyzWLd AW/o_4ceo-9c0rjcGJ*vU*anmmvV7KP*wWTg2bG-ysx*V\\tF/LgMiKRK4ew3yVp4Q '
                            'bP3\\x000PljfwAY/4CDfhaWkS\\tZing5V\\tt '
                            '1PaxakNDPB\\tlRJ_vn3_t/pAP45sn\\tzr-OwwaAj*Z7.0nV5/Zu/Ax2zrI-flC0TyiWJBsh0\\tmT7h '
                            "V7*Fi*M2ItI4CV_ULzjma/aeqiIJ.v7*GVmitdyzW9hqchfDzo3fi'}}"),
 'parse/random-1/repr': 'sha256:ee41ccc089ca4d103be0b7fbe46e16abe803eaaf0f3ec375da1989cc83839ed5 (3015 chars)',
 'read/random-1': 'sha256:a45cc4eb9257cc4208c24f1602bd09bf45bead12557287a65aa70c8fe61e29f1 (3125 chars)',
 'read/random-1/io-log': [('read', 720, 0, 720)],
 'parse/random-2': 'sha256:62fbdd6b8187060ae293f102959853e2174078692db5d8684fcf7bb7e2b28162 (3141 chars)',
 'parse/random-2/excerpt': ("builtins.dict: {'preamble': {'record_sequence_number': 1, 'first_record_subtype': 50, "
                            "'record_type': 192, 'second_record_subtype': 18, 'third_record_subtype': 18, "
                            "'record_length': 720}, 'ascii_ebcdic_flag': 'HL', 'blanks1': 'Ku', "
                            "'format_control_document_id': 'VngbEU3y*v\\t4', 'format_control_document_revision_level': "
                            "'_i', 'file_design_descriptor_revision_letter': 'ED', 'software_release_and_revis",
                            "es_per_burst': 742}, 'scansar_burst_data_information': "
                            "{'number_of_overlap_lines_with_adjacent_bursts': -1, 'blanks': "
                            "'k7AuE\\x00w4an-R9\\x00mJhomqny.L*ay/T_LnFd6d.jHOOwubotJq6uV-4l7R4bipUMe8YvXtRRdiwzrj_pzl\\x00Jvny9Wht49LXowQDNsVtJ3B\\tpex\\tk8TuoZ-MSaqgS1ugLrYfeFrvHSWI34iQp.OrydGy8 "
                            'o\\tL*\\x00-z6V0x/5FN5QP_WJyn6BgNscWDS2Lr7G8eI9RDR_\\tHGZ\\tA.r/eRv '
                            "AQ\\tOfN7bGbwry/_U*NTaWwZmr3S2QyomMM8ik/ jd1RNDZbYyFR'}}"),
 'parse/random-2/repr': 'sha256:4daf305c2fccd8e544862677cbeda7690f9288a1dace27a406444398fe78e15f (3028 chars)',
 'read/random-2': 'sha256:62fbdd6b8187060ae293f102959853e2174078692db5d8684fcf7bb7e2b28162 (3141 chars)',
 'read/random-2/io-log': [('read', 720, 0, 720)],
 'parse/random-3': 'sha256:20b150fb581c2d2a9faf3ff101338139119a8dddb75a7dcb45861960a5d37e75 (3145 chars)',
 'parse/random-3/excerpt': ("builtins.dict: {'preamble': {'record_sequence_number': 1, 'first_record_subtype': 50, "
                            "'record_type': 192, 'second_record_subtype': 18, 'third_record_subtype': 18, "
                            "'record_length': 720}, 'ascii_ebcdic_flag': 'e', 'blanks1': 'Qv', "
                            "'format_control_document_id': '8IB8hdY8\\t8yT', 'format_control_document_revision_level': "
                            "'dT', 'file_design_descriptor_revision_letter': '.x', 'software_release_and_revisi",
                            "lines_per_burst': -1}, 'scansar_burst_data_information': "
                            "{'number_of_overlap_lines_with_adjacent_bursts': 76, 'blanks': "
                            "'ZWuep9S19a7D9JzF7deIbgeYhRXEgVFoX2LKPLhlEt5rADqq3w Ja "
                            'yQ\\toPjJ3O4/gM/vv5lhNr\\x00/O-*tHlXTWv6PNSq1mX69nWINX\\tytMiixGRF9_if*tqz5\\tIt-OTiMOOXY1yQSyY\\t/VWZgvlD40xon-/m9DYANd '
                            'W/6ZY/bE_4OkTR7LGDud_J-\\x00CrpqsRKEKraIZ3c oNF0JZUy-8I\\x002a '
                            "mC76z4X6Eguv5/uzcAahvS6\\x00YUaCVz_VDROV4 XHCz'}}"),
 'parse/random-3/repr': 'sha256:430a819830eb7f8d031db55c8ba897c6907c75f32b3f8b911e3fc3f47c7e6343 (3031 chars)',
 'read/random-3': 'sha256:20b150fb581c2d2a9faf3ff101338139119a8dddb75a7dcb45861960a5d37e75 (3145 chars)',
 'read/random-3/io-log': [('read', 720, 0, 720)],
 'parse/random-4': 'sha256:2a65e1fa502d889967d784184e5721611107eb057e4865f9927e0edc742d0ce9 (3140 chars)',
 'parse/random-4/excerpt': ("builtins.dict: {'preamble': {'record_sequence_number': 1, 'first_record_subtype': 50, "
                            "'record_type': 192, 'second_record_subtype': 18, 'third_record_subtype': 18, "
                            "'record_length': 720}, 'ascii_ebcdic_flag': 'em', 'blanks1': 'Ny', "
                            "'format_control_document_id': '9TLICzlHc.\\x00u', "
                            "'format_control_document_revision_level': 'jW', 'file_design_descriptor_revision_letter': "
                            "'Nh', 'software_release_and_rev",
                            "er_burst': -1}, 'scansar_burst_data_information': "
                            "{'number_of_overlap_lines_with_adjacent_bursts': 5082, 'blanks': "
                            "'_0Tbm9_IwVUg*y\\x00mzqVxH2DjCmTKUOBddB9\\x00X5wrW/YN8tn0Ebgn9rKeoNEp/8tKWF-.\\tfEZJrRnO_*AJcjCEB9SbufsmxzEW0-I**mka3pWbC93jq00pagj*LDzhkQoLVLbgb-OrB6aVLf.MOolTJWDXahEpquUVbGGUHh-NZRy9\\t-\\tpu3zEEXTtcleuYsxu\\x00OcYsX\\x00bCDPYlp\\t-FnyURw7stA5R5D1bOqlGK9U/HXeqCCw3dRFRXkd3o\\tvVs\\tshq\\x00E'}}"),
 'parse/random-4/repr': 'sha256:f41aa90571c95eed0720c8bf001909f3a34798f7bb088ff74982a151f093c4cb (3028 chars)',
 'read/random-4': 'sha256:2a65e1fa502d889967d784184e5721611107eb057e4865f9927e0edc742d0ce9 (3140 chars)',
 'read/random-4/io-log': [('read', 720, 0, 720)],
 'parse/random-5': 'sha256:8cf6868b0a1d7367d72aed2547483325dd7089d2408ac4acd8bbc2a84b479175 (3116 chars)',
 'parse/random-5/excerpt': ("builtins.dict: {'preamble': {'record_sequence_number': 1, 'first_record_subtype': 50, "
                            "'record_type': 192, 'second_record_subtype': 18, 'third_record_subtype': 18, "
                            "'record_length': 720}, 'ascii_ebcdic_flag': 'gt', 'blanks1': '/D', "
                            "'format_control_document_id': '7fGUOv8fw\\tNf', 'format_control_document_revision_level': "
                            "'Bb', 'file_design_descriptor_revision_letter': '0j', 'software_release_and_revis",
                            "er_of_lines_per_burst': 61}, 'scansar_burst_data_information': "
                            "{'number_of_overlap_lines_with_adjacent_bursts': 701, 'blanks': "
                            "'PcORl4TXX0UIbFNwJjHPzRB3Lo  tvHRlT_lchIegk.Rev6xWQCrKELP_6ex79pN/D\\txGT2cOK "
                            'bRwtelqsxwRtl3u.EbXyIMEEXZZF '
                            '9sA28m2p77MYTUJvx8TgOjUkeE9EsvoHC68TPpl6eUEZDdKzunX7ukI7UeWaF3iA7H50VFE.sMJe '
                            'L8GfG-yHGg05nGEYW*zY\\x00dKoNL\\tUJbC4\\tt '
                            "2w.QBn5cORn9LhzoQQ\\x00K8fK2fjH-fGZkvMJ1owAkQD4S'}}"),
 'parse/random-5/repr': 'sha256:337963f30f28c6617cafedc4349c71f8e3eb44c56ce884fd542b7b87f4eed986 (3004 chars)',
 'read/random-5': 'sha256:8cf6868b0a1d7367d72aed2547483325dd7089d2408ac4acd8bbc2a84b479175 (3116 chars)',
 'read/random-5/io-log': [('read', 720, 0, 720)],
 'parse/realistic/full': "builtins.dict: {'preamble': {'record_sequence_number': 1, 'first_record_subtype': 50, "
                         "'record_type': 192, 'second_record_subtype': 18, 'third_record_subtype': 18, "
                         "'record_length': 720}, 'ascii_ebcdic_flag': 'A', 'blanks1': '', "
                         "'format_control_document_id': 'CEOS-SAR', 'format_control_document_revision_level': 'A', "
                         "'file_design_descriptor_revision_letter': 'A', 'software_release_and_revision_number': "
                         "'002.023', 'file_number': 2, 'file_id': 'AL2 IMOP', "
                         "'record_sequence_and_location_type_flag': 'FSEQ', 'location_sequence_number': 1, "
                         "'field_length_of_sequence_number': 4, 'record_code_and_location_type_flag': 'FTYP', "
                         "'record_code_location': 5, 'record_code_field_length': 4, "
                         "'record_length_and_location_type_flag': 'FLGT', 'record_length_location': 9, "
                         "'record_length_field_length': 4, 'reserved1': '', 'reserved2': '', 'reserved3': '', "
                         "'reserved4': '', 'blanks6': '', 'number_of_sar_data_records': 27156, "
                         "'sar_data_record_length': 35464, 'reserved5': '', 'sample_group_data': "
                         "{'bit_length_per_sample': 32, 'number_of_samples_per_data_group': 2, "
                         "'number_of_bytes_per_data_group': 8, 'justification_and_order_of_samples_within_data_group': "
                         "''}, 'sar_related_data_in_the_record': {'number_of_sar_channels': 1, "
                         "'number_of_lines_per_dataset': 27156, 'number_of_left_border_pixels_per_line': 0, "
                         "'number_of_data_groups_per_line': 4356, 'number_of_right_border_pixels_per_line': 0, "
                         "'number_of_top_border_lines': 0, 'number_of_bottom_border_lines': 0, 'interleaving_id': "
                         "'BSQ'}, 'record_data_in_the_file': {'number_of_physical_records_per_line': 1, "
                         "'number_of_physical_records_per_multichannel_line_in_this_file': 1, "
                         "'number_of_bytes_of_prefix_data_per_record': 544, 'number_of_bytes_of_sar_data_per_record': "
                         "34848, 'number_of_bytes_of_suffix_data_per_record': 0, 'prefix_suffix_repeat_flag': ''}, "
                         "'prefix_suffix_data_locators': {'sample_data_line_number_locator': '13 4PB', "
                         "'sar_channel_number_locator': '49 2PB', 'time_of_sar_data_line_locator': '45 4PB', "
                         "'left_fill_count_locator': '21 4PB', 'right_fill_count_locator': '29 4PB', "
                         "'pad_pixels_present_indicator': '', 'blanks': '', 'sar_data_line_quality_code_locator': '', "
                         "'calibration_information_field_locator': '', 'gain_values_field_locator': '', "
                         "'bias_values_field_locator': '', 'sar_data_format_type_indicator': 'COMPLEX REAL*4', "
                         "'sar_data_format_type_code': 'C*8', 'number_of_left_fill_bits_within_pixel': 0, "
                         "'number_of_right_fill_bits_within_pixel': 0, 'maximum_data_range_of_pixel': -1, "
                         "'number_of_burst_data': 5, 'number_of_lines_per_burst': 354}, "
                         "'scansar_burst_data_information': {'number_of_overlap_lines_with_adjacent_bursts': 12, "
                         "'blanks': ''}}",
 'parse/realistic/keys': ['_io',
                          'preamble',
                          'ascii_ebcdic_flag',
                          'blanks1',
                          'format_control_document_id',
                          'format_control_document_revision_level',
                          'file_design_descriptor_revision_letter',
                          'software_release_and_revision_number',
                          'file_number',
                          'file_id',
                          'record_sequence_and_location_type_flag',
                          'location_sequence_number',
                          'field_length_of_sequence_number',
                          'record_code_and_location_type_flag',
                          'record_code_location',
                          'record_code_field_length',
                          'record_length_and_location_type_flag',
                          'record_length_location',
                          'record_length_field_length',
                          'reserved1',
                          'reserved2',
                          'reserved3',
                          'reserved4',
                          'blanks6',
                          'number_of_sar_data_records',
                          'sar_data_record_length',
                          'reserved5',
                          'sample_group_data',
                          'sar_related_data_in_the_record',
                          'record_data_in_the_file',
                          'prefix_suffix_data_locators',
                          'scansar_burst_data_information'],
 'parse/realistic/nested-keys': {'preamble': ['_io',
                                              'record_sequence_number',
                                              'first_record_subtype',
                                              'record_type',
                                              'second_record_subtype',
                                              'third_record_subtype',
                                              'record_length'],
                                 'sample_group_data': ['_io',
                                                       'bit_length_per_sample',
                                                       'number_of_samples_per_data_group',
                                                       'number_of_bytes_per_data_group',
                                                       'justification_and_order_of_samples_within_data_group'],
                                 'sar_related_data_in_the_record': ['_io',
                                                                    'number_of_sar_channels',
                                                                    'number_of_lines_per_dataset',
                                                                    'number_of_left_border_pixels_per_line',
                                                                    'number_of_data_groups_per_line',
                                                                    'number_of_right_border_pixels_per_line',
                                                                    'number_of_top_border_lines',
                                                                    'number_of_bottom_border_lines',
                                                                    'interleaving_id'],
                                 'record_data_in_the_file': ['_io',
                                                             'number_of_physical_records_per_line',
                                                             'number_of_physical_records_per_multichannel_line_in_this_file',
                                                             'number_of_bytes_of_prefix_data_per_record',
                                                             'number_of_bytes_of_sar_data_per_record',
                                                             'number_of_bytes_of_suffix_data_per_record',
                                                             'prefix_suffix_repeat_flag'],
                                 'prefix_suffix_data_locators': ['_io',
                                                                 'sample_data_line_number_locator',
                                                                 'sar_channel_number_locator',
                                                                 'time_of_sar_data_line_locator',
                                                                 'left_fill_count_locator',
                                                                 'right_fill_count_locator',
                                                                 'pad_pixels_present_indicator',
                                                                 'blanks',
                                                                 'sar_data_line_quality_code_locator',
                                                                 'calibration_information_field_locator',
                                                                 'gain_values_field_locator',
                                                                 'bias_values_field_locator',
                                                                 'sar_data_format_type_indicator',
                                                                 'sar_data_format_type_code',
                                                                 'number_of_left_fill_bits_within_pixel',
                                                                 'number_of_right_fill_bits_within_pixel',
                                                                 'maximum_data_range_of_pixel',
                                                                 'number_of_burst_data',
                                                                 'number_of_lines_per_burst'],
                                 'scansar_burst_data_information': ['_io',
                                                                    'number_of_overlap_lines_with_adjacent_bursts',
                                                                    'blanks']},
 'parse/realistic/value-types': 'sha256:b268c7a9938bf6e185eac51b197e191a020f660e2fa77d83143f358c2294f7ea (1160 chars)',
 'parse/longer-input': 'sha256:fe4eb7f08a8a605d0c5dc0d21b28ee1a317cf026ac8cebfc2aad4e3de9d94afc (2605 chars)',
 'parse/preamble': "builtins.dict: {'record_sequence_number': 3368667851, 'first_record_subtype': 204, 'record_type': "
                   "205, 'second_record_subtype': 206, 'third_record_subtype': 207, 'record_length': 3503411923}",
 'metadata/format-type': "builtins.str: 'C*8'",
 'metadata/shape': 'builtins.tuple: (27156, 4356)',
 'metadata/attrs': "builtins.dict: {'interleaving_id': 'BSQ', 'number_of_burst_data': 5, 'number_of_lines_per_burst': "
                   "354, 'number_of_overlap_lines_with_adjacent_bursts': 12}",
 'metadata/blank/format-type': "builtins.str: ''",
 'metadata/blank/shape': 'builtins.tuple: (-1, -1)',
 'metadata/blank/attrs': "builtins.dict: {'interleaving_id': ''}",
 'truncated/0': 'raised construct.core.StreamError: Error in path (parsing) -> preamble -> record_sequence_number\n'
                'stream read less than specified amount, expected 4, found 0',
 'truncated/0/read': 'raised construct.core.StreamError: Error in path (parsing) -> preamble -> '
                     'record_sequence_number\n'
                     'stream read less than specified amount, expected 4, found 0',
 'truncated/0/read/io-log': [('read', 720, 0, 0)],
 'truncated/5': 'raised construct.core.StreamError: Error in path (parsing) -> preamble -> record_type\n'
                'stream read less than specified amount, expected 1, found 0',
 'truncated/5/read': 'raised construct.core.StreamError: Error in path (parsing) -> preamble -> record_type\n'
                     'stream read less than specified amount, expected 1, found 0',
 'truncated/5/read/io-log': [('read', 720, 0, 5)],
 'truncated/12': 'raised construct.core.StreamError: Error in path (parsing) -> ascii_ebcdic_flag\n'
                 'stream read less than specified amount, expected 2, found 0',
 'truncated/12/read': 'raised construct.core.StreamError: Error in path (parsing) -> ascii_ebcdic_flag\n'
                      'stream read less than specified amount, expected 2, found 0',
 'truncated/12/read/io-log': [('read', 720, 0, 12)],
 'truncated/13': 'raised construct.core.StreamError: Error in path (parsing) -> ascii_ebcdic_flag\n'
                 'stream read less than specified amount, expected 2, found 1',
 'truncated/13/read': 'raised construct.core.StreamError: Error in path (parsing) -> ascii_ebcdic_flag\n'
                      'stream read less than specified amount, expected 2, found 1',
 'truncated/13/read/io-log': [('read', 720, 0, 13)],
 'truncated/14': 'raised construct.core.StreamError: Error in path (parsing) -> blanks1\n'
                 'stream read less than specified amount, expected 2, found 0',
 'truncated/14/read': 'raised construct.core.StreamError: Error in path (parsing) -> blanks1\n'
                      'stream read less than specified amount, expected 2, found 0',
 'truncated/14/read/io-log': [('read', 720, 0, 14)],
 'truncated/16': 'raised construct.core.StreamError: Error in path (parsing) -> format_control_document_id\n'
                 'stream read less than specified amount, expected 12, found 0',
 'truncated/16/read': 'raised construct.core.StreamError: Error in path (parsing) -> format_control_document_id\n'
                      'stream read less than specified amount, expected 12, found 0',
 'truncated/16/read/io-log': [('read', 720, 0, 16)],
 'truncated/44': 'raised construct.core.StreamError: Error in path (parsing) -> file_number\n'
                 'stream read less than specified amount, expected 4, found 0',
 'truncated/44/read': 'raised construct.core.StreamError: Error in path (parsing) -> file_number\n'
                      'stream read less than specified amount, expected 4, found 0',
 'truncated/44/read/io-log': [('read', 720, 0, 44)],
 'truncated/48': 'raised construct.core.StreamError: Error in path (parsing) -> file_id\n'
                 'stream read less than specified amount, expected 16, found 0',
 'truncated/48/read': 'raised construct.core.StreamError: Error in path (parsing) -> file_id\n'
                      'stream read less than specified amount, expected 16, found 0',
 'truncated/48/read/io-log': [('read', 720, 0, 48)],
 'truncated/100': 'raised construct.core.StreamError: Error in path (parsing) -> record_length_location\n'
                  'stream read less than specified amount, expected 8, found 0',
 'truncated/100/read': 'raised construct.core.StreamError: Error in path (parsing) -> record_length_location\n'
                       'stream read less than specified amount, expected 8, found 0',
 'truncated/100/read/io-log': [('read', 720, 0, 100)],
 'truncated/179': 'raised construct.core.StreamError: Error in path (parsing) -> blanks6\n'
                  'stream read less than specified amount, expected 64, found 63',
 'truncated/179/read': 'raised construct.core.StreamError: Error in path (parsing) -> blanks6\n'
                       'stream read less than specified amount, expected 64, found 63',
 'truncated/179/read/io-log': [('read', 720, 0, 179)],
 'truncated/180': 'raised construct.core.StreamError: Error in path (parsing) -> number_of_sar_data_records\n'
                  'stream read less than specified amount, expected 6, found 0',
 'truncated/180/read': 'raised construct.core.StreamError: Error in path (parsing) -> number_of_sar_data_records\n'
                       'stream read less than specified amount, expected 6, found 0',
 'truncated/180/read/io-log': [('read', 720, 0, 180)],
 'truncated/186': 'raised construct.core.StreamError: Error in path (parsing) -> sar_data_record_length\n'
                  'stream read less than specified amount, expected 6, found 0',
 'truncated/186/read': 'raised construct.core.StreamError: Error in path (parsing) -> sar_data_record_length\n'
                       'stream read less than specified amount, expected 6, found 0',
 'truncated/186/read/io-log': [('read', 720, 0, 186)],
 'truncated/192': 'raised construct.core.StreamError: Error in path (parsing) -> reserved5\n'
                  'stream read less than specified amount, expected 24, found 0',
 'truncated/192/read': 'raised construct.core.StreamError: Error in path (parsing) -> reserved5\n'
                       'stream read less than specified amount, expected 24, found 0',
 'truncated/192/read/io-log': [('read', 720, 0, 192)],
 'truncated/216': 'raised construct.core.StreamError: Error in path (parsing) -> sample_group_data -> '
                  'bit_length_per_sample\n'
                  'stream read less than specified amount, expected 4, found 0',
 'truncated/216/read': 'raised construct.core.StreamError: Error in path (parsing) -> sample_group_data -> '
                       'bit_length_per_sample\n'
                       'stream read less than specified amount, expected 4, found 0',
 'truncated/216/read/io-log': [('read', 720, 0, 216)],
 'truncated/232': 'raised construct.core.StreamError: Error in path (parsing) -> sar_related_data_in_the_record -> '
                  'number_of_sar_channels\n'
                  'stream read less than specified amount, expected 4, found 0',
 'truncated/232/read': 'raised construct.core.StreamError: Error in path (parsing) -> sar_related_data_in_the_record '
                       '-> number_of_sar_channels\n'
                       'stream read less than specified amount, expected 4, found 0',
 'truncated/232/read/io-log': [('read', 720, 0, 232)],
 'truncated/272': 'raised construct.core.StreamError: Error in path (parsing) -> record_data_in_the_file -> '
                  'number_of_physical_records_per_line\n'
                  'stream read less than specified amount, expected 2, found 0',
 'truncated/272/read': 'raised construct.core.StreamError: Error in path (parsing) -> record_data_in_the_file -> '
                       'number_of_physical_records_per_line\n'
                       'stream read less than specified amount, expected 2, found 0',
 'truncated/272/read/io-log': [('read', 720, 0, 272)],
 'truncated/296': 'raised construct.core.StreamError: Error in path (parsing) -> prefix_suffix_data_locators -> '
                  'sample_data_line_number_locator\n'
                  'stream read less than specified amount, expected 8, found 0',
 'truncated/296/read': 'raised construct.core.StreamError: Error in path (parsing) -> prefix_suffix_data_locators -> '
                       'sample_data_line_number_locator\n'
                       'stream read less than specified amount, expected 8, found 0',
 'truncated/296/read/io-log': [('read', 720, 0, 296)],
 'truncated/448': 'raised construct.core.StreamError: Error in path (parsing) -> prefix_suffix_data_locators -> '
                  'number_of_burst_data\n'
                  'stream read less than specified amount, expected 4, found 0',
 'truncated/448/read': 'raised construct.core.StreamError: Error in path (parsing) -> prefix_suffix_data_locators -> '
                       'number_of_burst_data\n'
                       'stream read less than specified amount, expected 4, found 0',
 'truncated/448/read/io-log': [('read', 720, 0, 448)],
 'truncated/456': 'raised construct.core.StreamError: Error in path (parsing) -> scansar_burst_data_information -> '
                  'number_of_overlap_lines_with_adjacent_bursts\n'
                  'stream read less than specified amount, expected 4, found 0',
 'truncated/456/read': 'raised construct.core.StreamError: Error in path (parsing) -> scansar_burst_data_information '
                       '-> number_of_overlap_lines_with_adjacent_bursts\n'
                       'stream read less than specified amount, expected 4, found 0',
 'truncated/456/read/io-log': [('read', 720, 0, 456)],
 'truncated/459': 'raised construct.core.StreamError: Error in path (parsing) -> scansar_burst_data_information -> '
                  'number_of_overlap_lines_with_adjacent_bursts\n'
                  'stream read less than specified amount, expected 4, found 3',
 'truncated/459/read': 'raised construct.core.StreamError: Error in path (parsing) -> scansar_burst_data_information '
                       '-> number_of_overlap_lines_with_adjacent_bursts\n'
                       'stream read less than specified amount, expected 4, found 3',
 'truncated/459/read/io-log': [('read', 720, 0, 459)],
 'truncated/460': 'raised construct.core.StreamError: Error in path (parsing) -> scansar_burst_data_information -> '
                  'blanks\n'
                  'stream read less than specified amount, expected 260, found 0',
 'truncated/460/read': 'raised construct.core.StreamError: Error in path (parsing) -> scansar_burst_data_information '
                       '-> blanks\n'
                       'stream read less than specified amount, expected 260, found 0',
 'truncated/460/read/io-log': [('read', 720, 0, 460)],
 'truncated/719': 'raised construct.core.StreamError: Error in path (parsing) -> scansar_burst_data_information -> '
                  'blanks\n'
                  'stream read less than specified amount, expected 260, found 259',
 'truncated/719/read': 'raised construct.core.StreamError: Error in path (parsing) -> scansar_burst_data_information '
                       '-> blanks\n'
                       'stream read less than specified amount, expected 260, found 259',
 'truncated/719/read/io-log': [('read', 720, 0, 719)],
 "broken/file_number/'abcd'": "raised builtins.ValueError: invalid literal for int() with base 10: 'abcd'",
 "broken/file_number/'1.5'": "raised builtins.ValueError: invalid literal for int() with base 10: '1.5'",
 "broken/file_number/b'\\xff\\xfe  '": "raised construct.core.StringError: cannot use encoding 'ascii' to decode "
                                       "b'\\xff\\xfe  '",
 "broken/file_id/b'AL2 \\xe9\\xe8'": "raised construct.core.StringError: cannot use encoding 'ascii' to decode b'AL2 "
                                     "\\xe9\\xe8          '",
 "broken/ascii_ebcdic_flag/b'\\x80A'": "raised construct.core.StringError: cannot use encoding 'ascii' to decode "
                                       "b'\\x80A'",
 "broken/number_of_sar_data_records/'12 345'": 'raised builtins.ValueError: invalid literal for int() with base 10: '
                                               "'12 345'",
 "broken/number_of_sar_data_records/'+12345'": 'sha256:61b1a1ec6f4539258e7dea9e0bd0f20467e47244f39e56a7bc4d7493c56f3520 '
                                               '(2605 chars)',
 "broken/number_of_sar_data_records/'1_2345'": 'sha256:61b1a1ec6f4539258e7dea9e0bd0f20467e47244f39e56a7bc4d7493c56f3520 '
                                               '(2605 chars)',
 "broken/sar_data_record_length/'0x10'": "raised builtins.ValueError: invalid literal for int() with base 10: '0x10'",
 "broken/bit_length_per_sample/'thir'": "raised builtins.ValueError: invalid literal for int() with base 10: 'thir'",
 "broken/number_of_lines_per_dataset/'1e3'": 'raised builtins.ValueError: invalid literal for int() with base 10: '
                                             "'1e3'",
 "broken/number_of_bytes_of_sar_data_per_record/b'\\xc3\\xa9'": 'raised construct.core.StringError: cannot use '
                                                                "encoding 'ascii' to decode b'\\xc3\\xa9      '",
 "broken/maximum_data_range_of_pixel/'NaN'": 'raised builtins.ValueError: invalid literal for int() with base 10: '
                                             "'NaN'",
 "broken/number_of_overlap_lines_with_adjacent_bursts/'----'": 'raised builtins.ValueError: invalid literal for int() '
                                                               "with base 10: '----'",
 "broken/blanks/b'\\xff\\xff\\xff\\xff\\xff\\xff\\xff\\xff\\xff\\xff\\xff\\xff\\xff\\xff\\xff\\xff\\xff\\xff\\xff\\xff\\xff\\xff\\xff\\xff\\xff\\xff\\xff\\xff\\xff\\xff\\xff\\xff\\xff\\xff\\xff\\xff\\xff\\xff\\xff\\xff\\xff\\xff\\xff\\xff\\xff\\xff\\xff\\xff\\xff\\xff\\xff\\xff\\xff\\xff\\xff\\xff\\xff\\xff\\xff\\xff\\xff\\xff\\xff\\xff\\xff\\xff\\xff\\xff\\xff\\xff\\xff\\xff\\xff\\xff\\xff\\xff\\xff\\xff\\xff\\xff\\xff\\xff\\xff\\xff\\xff\\xff\\xff\\xff\\xff\\xff\\xff\\xff\\xff\\xff\\xff\\xff\\xff\\xff\\xff\\xff\\xff\\xff\\xff\\xff\\xff\\xff\\xff\\xff\\xff\\xff\\xff\\xff\\xff\\xff\\xff\\xff\\xff\\xff\\xff\\xff\\xff\\xff\\xff\\xff\\xff\\xff\\xff\\xff\\xff\\xff\\xff\\xff\\xff\\xff\\xff\\xff\\xff\\xff\\xff\\xff\\xff\\xff\\xff\\xff\\xff\\xff\\xff\\xff\\xff\\xff\\xff\\xff\\xff\\xff\\xff\\xff\\xff\\xff\\xff\\xff\\xff\\xff\\xff\\xff\\xff\\xff\\xff\\xff\\xff\\xff\\xff\\xff\\xff\\xff\\xff\\xff\\xff\\xff\\xff\\xff\\xff\\xff\\xff\\xff\\xff\\xff\\xff\\xff\\xff\\xff\\xff\\xff\\xff\\xff\\xff\\xff\\xff\\xff\\xff\\xff\\xff\\xff\\xff\\xff\\xff\\xff\\xff\\xff\\xff\\xff\\xff\\xff\\xff\\xff\\xff\\xff\\xff\\xff\\xff\\xff\\xff\\xff\\xff\\xff\\xff\\xff\\xff\\xff\\xff\\xff\\xff\\xff\\xff\\xff\\xff\\xff\\xff\\xff\\xff\\xff\\xff\\xff\\xff\\xff\\xff\\xff\\xff\\xff\\xff\\xff\\xff\\xff\\xff\\xff\\xff\\xff\\xff\\xff\\xff\\xff\\xff\\xff\\xff\\xff\\xff\\xff\\xff\\xff\\xff\\xff\\xff\\xff\\xff\\xff\\xff\\xff\\xff\\xff\\xff\\xff\\xff\\xff\\xff\\xff\\xff\\xff\\xff\\xff\\xff\\xff\\xff\\xff\\xff\\xff\\xff\\xff\\xff\\xff\\xff\\xff'": 'raised '
                                                                                                                                                                                                                                                                                                                                                                                                                                                                                                                                                                                                                                                                                                                                                                                                                                                                                                                                                                                                                                                                                                                                                                                                                                                                                                                                                                                                                                                                                                                                                                                  'construct.core.StringError: '
                                                                                                                                                                                                                                                                                                                                                                                                                                                                                                                                                                                                                                                                                                                                                                                                                                                                                                                                                                                                                                                                                                                                                                                                                                                                                                                                                                                                                                                                                                                                                                                  'cannot '
                                                                                                                                                                                                                                                                                                                                                                                                                                                                                                                                                                                                                                                                                                                                                                                                                                                                                                                                                                                                                                                                                                                                                                                                                                                                                                                                                                                                                                                                                                                                                                                  'use '
                                                                                                                                                                                                                                                                                                                                                                                                                                                                                                                                                                                                                                                                                                                                                                                                                                                                                                                                                                                                                                                                                                                                                                                                                                                                                                                                                                                                                                                                                                                                                                                  'encoding '
                                                                                                                                                                                                                                                                                                                                                                                                                                                                                                                                                                                                                                                                                                                                                                                                                                                                                                                                                                                                                                                                                                                                                                                                                                                                                                                                                                                                                                                                                                                                                                                  "'ascii' "
                                                                                                                                                                                                                                                                                                                                                                                                                                                                                                                                                                                                                                                                                                                                                                                                                                                                                                                                                                                                                                                                                                                                                                                                                                                                                                                                                                                                                                                                                                                                                                                  'to '
                                                                                                                                                                                                                                                                                                                                                                                                                                                                                                                                                                                                                                                                                                                                                                                                                                                                                                                                                                                                                                                                                                                                                                                                                                                                                                                                                                                                                                                                                                                                                                                  'decode '
                                                                                                                                                                                                                                                                                                                                                                                                                                                                                                                                                                                                                                                                                                                                                                                                                                                                                                                                                                                                                                                                                                                                                                                                                                                                                                                                                                                                                                                                                                                                                                                  "b'\\xff\\xff\\xff\\xff\\xff\\xff\\xff\\xff\\xff\\xff\\xff\\xff\\xff\\xff\\xff\\xff\\xff\\xff\\xff\\xff\\xff\\xff\\xff\\xff\\xff\\xff\\xff\\xff'",
 "broken/reserved3/b'\\xff'": "raised construct.core.StringError: cannot use encoding 'ascii' to decode b'\\xff'",
 "broken/sar_data_format_type_code/b'\\x00\\x00\\x00\\x00'": 'sha256:83983f338e3e06583daf1d7c968919910dbd8079931ab9141da7e252a0a332a5 '
                                                             '(2602 chars)',
 "broken/sar_data_format_type_code/'IU2'": 'sha256:18b5217842faa2841558498d57cd49e154ba1038f533ce2312e1f7b9774781b8 '
                                           '(2605 chars)'}  # @@EXPECTED@@


def test_equivalence():
    actual = collect()
    assert sorted(actual) == sorted(EXPECTED)
    mismatches = {k: (actual[k], EXPECTED[k]) for k in EXPECTED if actual[k] != EXPECTED[k]}
    assert not mismatches, pprint.pformat(mismatches, width=160)


if __name__ == "__main__":
    if "--record" in sys.argv:
        pprint.pprint(collect(), width=120, sort_dicts=False)
    else:
        test_equivalence()
        print(f"ok: {len(EXPECTED)} observations identical")
