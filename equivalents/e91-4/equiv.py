"""Equivalence check for refactoring 4: ceos_alos2.sar_image.open_image,
ceos_alos2.sar_image.filename_to_groupname and ceos_alos2.sar_image.metadata.transform_metadata

Run as a script (`python equiv.py`) or with pytest. `python equiv.py --record` prints the
results of the code that is currently importable; EXPECTED below was recorded that way from
the UNCHANGED code (HEAD). The script passes with and without patch.diff applied.

The cache files are written below a temporary directory (next to this script if possible),
never to the cache directory of the user.
"""
# ---------------------------------------------------------------------------------------
# shared helpers (copied verbatim into every equiv.py so that each script is self-contained)
# ---------------------------------------------------------------------------------------
import dataclasses
import datetime
import hashlib
import math
import pprint
import struct
import sys

import numpy as np
from construct import Struct as _Struct


def norm(obj):
    """Turn results into plain, deterministic, comparable structures (types are kept)."""
    from ceos_alos2.array import Array
    from ceos_alos2.hierarchy import Group, Variable

    if isinstance(obj, BaseException):
        cause = obj.__cause__
        context = obj.__context__
        return (
            "EXC",
            type(obj).__module__ + "." + type(obj).__qualname__,
            str(obj),
            None if cause is None else norm(cause),
            None if context is None else norm(context),
            obj.__suppress_context__,
        )
    if isinstance(obj, Group):
        return (
            "Group",
            obj.path,
            obj.url,
            [(k, norm(v)) for k, v in obj.data.items()],
            norm(obj.attrs),
        )
    if isinstance(obj, Variable):
        return ("Variable", norm(obj.dims), norm(obj.data), norm(obj.attrs))
    if isinstance(obj, Array):
        return (
            "Array",
            type(obj.fs).__name__,
            getattr(obj.fs, "path", None),
            obj.url,
            norm(obj.byte_ranges),
            norm(obj.shape),
            norm(obj.dtype),
            obj.type_code,
            norm(obj.records_per_chunk),
            norm(obj.chunk_offsets),
        )
    if isinstance(obj, np.ndarray):
        return ("ndarray", str(obj.dtype), obj.shape, norm(obj.tolist()))
    if isinstance(obj, np.generic):
        return ("npscalar", str(obj.dtype), norm(obj.item()))
    if isinstance(obj, np.dtype):
        return ("dtype", str(obj))
    if isinstance(obj, dict):
        return (type(obj).__name__, [(norm(k), norm(v)) for k, v in obj.items()])
    if isinstance(obj, (list, tuple)):
        return (type(obj).__name__, [norm(v) for v in obj])
    if isinstance(obj, (set, frozenset)):
        return (type(obj).__name__, sorted(norm(v) for v in obj))
    if isinstance(obj, float):
        return ("float", "nan" if math.isnan(obj) else repr(obj))
    if isinstance(obj, bool) or obj is None:
        return obj
    if isinstance(obj, (int, str, bytes, complex)):
        return (type(obj).__name__, obj)
    if isinstance(obj, (datetime.datetime, datetime.date)):
        return ("datetime", obj.isoformat())
    if dataclasses.is_dataclass(obj):
        return (type(obj).__name__, norm(dataclasses.asdict(obj)))
    return ("repr", type(obj).__name__, repr(obj))


def outcome(func, *args, **kwargs):
    """Result or exception of a call, normalized."""
    try:
        result = func(*args, **kwargs)
    except BaseException as e:  # noqa: B902
        return norm(e)
    return ("OK", norm(result))


class Recorder:
    """Collects named outcomes and compares them with the recorded ones."""

    def __init__(self):
        self.results = {}

    def add(self, name, value):
        assert name not in self.results, name
        text = repr(value)
        if len(text) > 500:
            # long results are compared through a digest (keep the script at a readable size)
            digest = hashlib.sha256(text.encode()).hexdigest()
            text = f"sha256:{digest} length:{len(text)} start:{text[:160]}"
        self.results[name] = text

    def finish(self, expected):
        if "--record" in sys.argv:
            pprint.pprint(self.results, width=100, sort_dicts=False)
            return 0

        missing = set(expected) ^ set(self.results)
        assert not missing, f"cases differ: {sorted(missing)}"
        failed = [name for name, value in self.results.items() if expected[name] != value]
        for name in failed:
            print(f"MISMATCH in {name}:\n  expected: {expected[name]}\n  actual:   {self.results[name]}")
        assert not failed, f"{len(failed)} of {len(expected)} cases differ"
        print(f"all {len(expected)} cases identical to the recorded behaviour")
        return 0


class LoggingFile:
    """File object wrapper that records every request made to the underlying file."""

    def __init__(self, f, log):
        self._f = f
        self._log = log

    def read(self, *args):
        position = self._f.tell()
        data = self._f.read(*args)
        self._log.append(("read", position, args, len(data)))
        return data

    def seek(self, *args):
        self._log.append(("seek", args))
        return self._f.seek(*args)

    def tell(self):
        return self._f.tell()

    def __enter__(self):
        self._log.append(("enter",))
        self._f.__enter__()
        return self

    def __exit__(self, *args):
        self._log.append(("exit", None if args[0] is None else args[0].__name__))
        return self._f.__exit__(*args)


# -- synthetic ALOS-2 image files --------------------------------------------------------


def _walk(struct_, prefix=()):
    """Yield (path, size) of the fixed-size leaves of a construct Struct, in order."""
    for sub in struct_.subcons:
        inner = sub
        while hasattr(inner, "subcon") and not isinstance(inner, _Struct):
            inner = inner.subcon
        if isinstance(inner, _Struct):
            try:
                inner.sizeof()
            except Exception:
                return
            yield from _walk(inner, prefix + (sub.name,))
            continue
        yield prefix + (sub.name,), sub.sizeof()


def field_offsets(struct_):
    offsets = {}
    position = 0
    for path, size in _walk(struct_):
        offsets[".".join(path)] = (position, size)
        position += size
    return offsets, position


def make_file_descriptor(**fields):
    """720 bytes of file descriptor: blank ASCII fields, except those given."""
    from ceos_alos2.sar_image.file_descriptor import file_descriptor_record

    offsets, total = field_offsets(file_descriptor_record)
    assert total == 720, total
    buffer = bytearray(b" " * 720)
    buffer[:12] = struct.pack(">IBBBBI", 1, 50, 192, 18, 18, 720)
    for name, value in fields.items():
        start, size = offsets[name]
        text = str(value).encode("ascii")
        assert len(text) <= size, (name, value)
        buffer[start : start + size] = text.rjust(size) if isinstance(value, int) else text.ljust(size)
    return bytes(buffer)


def make_data_record(kind, sequence_number, record_length, *, record_type=None, seed=0, **fields):
    """A signal (kind=10) or processed (kind=11) data record of `record_length` bytes."""
    from ceos_alos2.sar_image.processed_data import processed_data_record
    from ceos_alos2.sar_image.signal_data import signal_data_record

    record = {10: signal_data_record, 11: processed_data_record}[kind]
    offsets, header_size = field_offsets(record)
    assert record_length >= header_size, header_size

    header_rng = np.random.default_rng(seed)
    data_rng = np.random.default_rng(seed * 1000 + sequence_number)
    buffer = bytearray(record_length)
    # small big-endian numbers everywhere, the same for all the records of a file
    for name, (start, size) in offsets.items():
        if "blanks" in name or name == "palsar_auxiliary_data":
            continue
        buffer[start + size - 1] = int(header_rng.integers(0, 4))
    n_data = record_length - header_size
    buffer[header_size:] = bytes(data_rng.integers(0, 256, n_data, dtype="uint8"))

    defaults = {
        "preamble.record_sequence_number": sequence_number,
        "preamble.first_record_subtype": 50,
        "preamble.record_type": kind if record_type is None else record_type,
        "preamble.second_record_subtype": 18,
        "preamble.third_record_subtype": 20,
        "preamble.record_length": record_length,
        "sar_image_data_line_number": sequence_number - 1,
        "sensor_acquisition_date.year": 2020,
        "sensor_acquisition_date.day_of_year": 123,
        "sensor_acquisition_date.milliseconds": 45_000_000 + 7 * sequence_number,
        "scan_id": 2,
    }
    if kind == 10:
        defaults["sensor_acquisition_date_microseconds"] = 45_000_000_000 + 7000 * sequence_number
    for name, value in (defaults | fields).items():
        start, size = offsets[name]
        buffer[start : start + size] = int(value).to_bytes(size, "big")
    return bytes(buffer), header_size


def make_image_file(kind, n_records, record_length, *, seed=0, descriptor=None, record_fields=None):
    descriptor_fields = {
        "number_of_sar_data_records": n_records,
        "sar_data_record_length": record_length,
        "sar_related_data_in_the_record.number_of_lines_per_dataset": n_records,
        "sar_related_data_in_the_record.number_of_data_groups_per_line": 4,
        "sar_related_data_in_the_record.interleaving_id": "BSQ",
        "prefix_suffix_data_locators.sar_data_format_type_code": "C*8" if kind == 10 else "IU2",
    } | (descriptor or {})
    records = [
        make_data_record(kind, index + 1, record_length, seed=seed, **(record_fields or {}))[0]
        for index in range(n_records)
    ]
    return make_file_descriptor(**descriptor_fields) + b"".join(records)


# ---------------------------------------------------------------------------------------
# the cases
# ---------------------------------------------------------------------------------------
import contextlib
import copy
import inspect
import io as _stdio
import json
import os
import pathlib
import tempfile

import fsspec
from fsspec.implementations.memory import MemoryFileSystem

SIGNAL_NAME = "IMG-HH-ALOS2225333100-180726-WWDR1.1__D-B3"
PROCESSED_NAME = "IMG-HV-ALOS2290760600-191011-WWDR1.5RUA"


class LoggingMemoryFileSystem(MemoryFileSystem):
    """memory file system (with a store of its own) that records what is opened and read"""

    store = {}
    pseudo_dirs = [""]
    cachable = False
    log = []

    def open(self, path, *args, **kwargs):
        self.log.append(("open", path, args, sorted(kwargs.items())))
        return LoggingFile(super().open(path, *args, **kwargs), self.log)


@contextlib.contextmanager
def patched(obj, **replacements):
    saved = {name: getattr(obj, name) for name in replacements}
    for name, value in replacements.items():
        setattr(obj, name, value)
    try:
        yield
    finally:
        for name, value in saved.items():
            setattr(obj, name, value)


@contextlib.contextmanager
def temporary_cache_root():
    from ceos_alos2.sar_image.caching import path as cache_path

    try:
        directory = tempfile.TemporaryDirectory(dir=os.path.dirname(os.path.abspath(__file__)))
    except OSError:
        directory = tempfile.TemporaryDirectory()
    with directory as root, patched(cache_path, cache_root=pathlib.Path(root)):
        yield pathlib.Path(root)


def new_mapper(files):
    fs = LoggingMemoryFileSystem()
    fs.store.clear()
    del fs.pseudo_dirs[1:]
    del fs.log[:]
    mapper = fsspec.FSMap("/product", fs)
    for name, content in files.items():
        mapper[name] = content
    return mapper


def cache_files(root):
    return sorted(
        (p.name, p.read_text()) for p in pathlib.Path(root).rglob("*") if p.is_file()
    )


def _open(files, path, *args, **kwargs):
    """open_image on a fresh memory file system: outcome, calls and requests, cache files"""
    from ceos_alos2 import sar_image
    from ceos_alos2.sar_image import caching

    mapper = new_mapper(files)
    log = mapper.fs.log

    def logged(name, func):
        def wrapper(*args, **kwargs):
            described = [type(a).__name__ if not isinstance(a, (str, int, type(None))) else a for a in args]
            log.append((name, described, sorted(kwargs.items())))
            try:
                result = func(*args, **kwargs)
            except BaseException as e:  # noqa: B902
                log.append((name, "raised", type(e).__name__))
                raise
            log.append((name, "returned", type(result).__name__))
            return result

        return wrapper

    with temporary_cache_root() as root:
        with patched(
            caching,
            read_cache=logged("read_cache", caching.read_cache),
            create_cache=logged("create_cache", caching.create_cache),
        ), patched(
            sar_image,
            read_metadata=logged("read_metadata", sar_image.read_metadata),
            transform_metadata=logged("transform_metadata", sar_image.transform_metadata),
            filename_to_groupname=logged("filename_to_groupname", sar_image.filename_to_groupname),
        ):
            result = outcome(sar_image.open_image, mapper, path, *args, **kwargs)
        return result, list(log), cache_files(root)


def run(rec):
    from ceos_alos2 import sar_image
    from ceos_alos2.sar_image import caching, io, metadata
    from ceos_alos2.sar_image.processed_data import processed_data_record
    from ceos_alos2.sar_image.signal_data import signal_data_record

    # --- filename_to_groupname ------------------------------------------------------------
    for name in (
        SIGNAL_NAME,
        PROCESSED_NAME,
        "IMG-VV-ALOS2225333100-180726-WWDR1.1__D-F1",
        "IMG-VH-ALOS2225333100-180726-WWDR1.1__D-B0",
        "IMG-ALOS2225333100-180726-WWDR1.1__D-B5",
        "IMG-ALOS2225333100-180726-WWDR1.1__D",
        "LED-ALOS2225333100-180726-WWDR1.1__D",
        "VOL-ALOS2290760600-191011-WWDR1.5RUA",
        "TRL-HH-ALOS2290760600-191011-FBDR1.5GUA-F9",
        "IMG-HH-ALOS2225333100-180726-WWDR1.1__D-B",
        "IMG-HH-ALOS2225333100-180726-WWDR1.1__D-X3",
        "IMG-HX-ALOS2225333100-180726-WWDR1.1__D-B3",
        "IMG-HH-ALOS2225333100-180732-WWDR1.1__D-B3",
        "IMG-HH-ALOS2225333100-180726-XXXR1.1__D-B3",
        "IMG-HH-ALOS2225333100-180726-WWDR1.1__D-B3 ",
        "dir/IMG-HH-ALOS2225333100-180726-WWDR1.1__D-B3",
        "img-hh-alos2225333100-180726-wwdr1.1__d-b3",
        "",
        "IMG",
        None,
        5,
        b"IMG-HV-ALOS2290760600-191011-WWDR1.5RUA",
        pathlib.PurePosixPath(PROCESSED_NAME),
    ):
        rec.add(f"filename_to_groupname-{name!r}", outcome(sar_image.filename_to_groupname, name))

    # whatever the decoder of the file names returns
    for index, info in enumerate(
        (
            {},
            {"polarization": None},
            {"polarization": ""},
            {"polarization": "HH"},
            {"scan_number": "3"},
            {"scan_number": None},
            {"scan_number": ""},
            {"scan_number": 0},
            {"scan_number": 3.5},
            {"polarization": "VV", "scan_number": "1"},
            {"scan_number": "1", "polarization": "VV"},
            {"polarization": None, "scan_number": "1"},
            {"polarization": "", "scan_number": "1"},
            {"polarization": 5},
            {"polarization": 0, "scan_number": "2"},
            {"polarization": ["HH"], "scan_number": "2"},
            {"polarization": b"HH"},
            {"polarization": "HH", "scan_number": "3", "filetype": "IMG", "date": 1},
            None,
            [("polarization", "HH")],
            "scan_number",
        )
    ):
        with patched(sar_image, decode_filename=lambda path, info=info: info):
            rec.add(f"filename_to_groupname-info-{index}", outcome(sar_image.filename_to_groupname, "x"))

    # --- open_image -----------------------------------------------------------------------
    signal_length = field_offsets(signal_data_record)[1] + 32
    processed_length = field_offsets(processed_data_record)[1] + 8
    signal = make_image_file(10, 3, signal_length, seed=1)
    processed = make_image_file(
        11,
        5,
        processed_length,
        seed=2,
        descriptor={"prefix_suffix_data_locators.maximum_data_range_of_pixel": 65535},
    )
    files = {SIGNAL_NAME: signal, PROCESSED_NAME: processed}

    for label, path in (("signal", SIGNAL_NAME), ("processed", PROCESSED_NAME)):
        for rpc in (1, 2, 3, 1024, None, -1, 0, "auto", "1kB", 2.0):
            rec.add(
                f"open_image-{label}-rpc{rpc!r}",
                _open(files, path, use_cache=False, records_per_chunk=rpc),
            )
            rec.add(f"open_image-{label}-rpc{rpc!r}-cache", _open(files, path, records_per_chunk=rpc))
        rec.add(f"open_image-{label}-defaults", _open(files, path))
        rec.add(
            f"open_image-{label}-create",
            _open(files, path, create_cache=True, records_per_chunk=2),
        )
        rec.add(
            f"open_image-{label}-create-only",
            _open(files, path, create_cache=True, use_cache=False, records_per_chunk=2),
        )
        rec.add(
            f"open_image-{label}-truthy-flags",
            _open(files, path, create_cache="yes", use_cache=0, records_per_chunk=4),
        )
        rec.add(
            f"open_image-{label}-create-failing",
            _open(files, path, create_cache=True, records_per_chunk=None),
        )

    # broken products
    rec.add("open_image-missing", _open(files, "IMG-VV-ALOS2225333100-180726-WWDR1.1__D-F1", records_per_chunk=2))
    rec.add(
        "open_image-missing-no-cache",
        _open(files, "IMG-VV-ALOS2225333100-180726-WWDR1.1__D-F1", use_cache=False, records_per_chunk=2),
    )
    rec.add("open_image-bad-name", _open({"image": signal}, "image", create_cache=True, records_per_chunk=2))
    rec.add("open_image-empty", _open({PROCESSED_NAME: b""}, PROCESSED_NAME, records_per_chunk=2))
    rec.add("open_image-truncated", _open({PROCESSED_NAME: processed[:-3]}, PROCESSED_NAME, records_per_chunk=2))
    unknown_type = make_image_file(
        11, 2, processed_length, descriptor={"prefix_suffix_data_locators.sar_data_format_type_code": "F*4"}
    )
    rec.add(
        "open_image-unknown-type-code",
        _open({PROCESSED_NAME: unknown_type}, PROCESSED_NAME, create_cache=True, records_per_chunk=2),
    )
    no_records = make_image_file(11, 0, processed_length)
    rec.add("open_image-no-records", _open({PROCESSED_NAME: no_records}, PROCESSED_NAME, records_per_chunk=2))
    rec.add("open_image-subdirectory", _open({"a/" + SIGNAL_NAME: signal}, "a/" + SIGNAL_NAME, records_per_chunk=2))
    rec.add("open_image-path-none", _open(files, None, records_per_chunk=2))
    rec.add("open_image-path-none-no-cache", _open(files, None, use_cache=False, records_per_chunk=2))
    rec.add("open_image-positional-flags", _open(files, SIGNAL_NAME, False))
    rec.add("open_image-unknown-keyword", _open(files, SIGNAL_NAME, chunks=2))
    rec.add("open_image-mapper-none", outcome(sar_image.open_image, None, SIGNAL_NAME, use_cache=False))
    with temporary_cache_root():
        rec.add("open_image-mapper-none-cache", outcome(sar_image.open_image, None, SIGNAL_NAME))

    # caches: next to the file ("remote") and in the cache directory ("local")
    with temporary_cache_root() as root:
        mapper = new_mapper(files)
        group = sar_image.open_image(mapper, PROCESSED_NAME, use_cache=False, records_per_chunk=2)
        encoded = caching.encode(group)
    other = sar_image.open_image(new_mapper(files), SIGNAL_NAME, use_cache=False, records_per_chunk=3)
    with temporary_cache_root():
        encoded_other = caching.encode(other)

    remote_caches = {
        "valid": encoded.encode(),
        "other-image": encoded_other.encode(),
        "empty": b"",
        "garbage": b"\x00\x01 not json",
        "truncated": encoded.encode()[: len(encoded) // 2],
        "empty-object": b"{}",
        "list": b"[1, 2]",
        "null": b"null",
        "number": b"5",
        "string": b'"abc"',
        "variable": json.dumps(
            {"__type__": "variable", "dims": ["x"], "attrs": {}, "data": {"__type__": "array", "dtype": "int8", "data": [1]}}
        ).encode(),
        "incomplete-group": b'{"__type__": "group", "path": "/"}',
        "tuple": b'{"__type__": "tuple", "data": [1, 2]}',
        "not-utf8": b"\xff\xfe",
    }
    for name, cache in remote_caches.items():
        for rpc in (2, None):
            for flags in ({}, {"use_cache": False}, {"create_cache": True}):
                label = "-".join(f"{k}={v}" for k, v in flags.items()) or "defaults"
                rec.add(
                    f"open_image-remote-cache-{name}-rpc{rpc}-{label}",
                    _open(
                        files | {f"{PROCESSED_NAME}.index": cache},
                        PROCESSED_NAME,
                        records_per_chunk=rpc,
                        **flags,
                    ),
                )

    # local caches: created by one call, used by the next ones
    with temporary_cache_root() as root:
        mapper = new_mapper(files)
        log = mapper.fs.log
        steps = []
        for step, kwargs in enumerate(
            (
                {"create_cache": True, "records_per_chunk": 2},
                {"records_per_chunk": 2},
                {"records_per_chunk": None},
                {"records_per_chunk": 3, "create_cache": True},
                {"use_cache": False, "records_per_chunk": 1},
                {"use_cache": False, "create_cache": True, "records_per_chunk": 5},
                {"records_per_chunk": "auto"},
            )
        ):
            del log[:]
            result = outcome(sar_image.open_image, mapper, PROCESSED_NAME, **kwargs)
            steps.append((step, result, list(log), cache_files(root)))
        rec.add("open_image-local-cache", steps)

        # a local cache that became invalid hides the remote one, and is not replaced
        (cache_file,) = [p for p in root.rglob("*") if p.is_file()]
        cache_file.write_text("{ invalid")
        mapper[f"{PROCESSED_NAME}.index"] = encoded.encode()
        del log[:]
        result = outcome(sar_image.open_image, mapper, PROCESSED_NAME, records_per_chunk=2)
        rec.add("open_image-invalid-local-cache", (result, list(log), cache_files(root)))

    # exceptions other than caching errors are not swallowed, and nothing is read after them
    def failing_read_cache(mapper, path, records_per_chunk):
        raise failure

    for failure in (
        caching.CachingError("no cache"),
        FileNotFoundError("no file"),
        OSError("no device"),
        ValueError("no value"),
        KeyError("no key"),
        type("SubCachingError", (caching.CachingError,), {})("sub"),
    ):
        mapper = new_mapper(files)
        with temporary_cache_root() as root, patched(caching, read_cache=failing_read_cache):
            result = outcome(sar_image.open_image, mapper, PROCESSED_NAME, records_per_chunk=2)
            rec.add(
                f"open_image-read_cache-raises-{type(failure).__name__}",
                (result, list(mapper.fs.log), cache_files(root)),
            )
            del mapper.fs.log[:]
            result = outcome(
                sar_image.open_image, mapper, "IMG-VV-ALOS2225333100-180726-WWDR1.1__D-F1", records_per_chunk=2
            )
            rec.add(
                f"open_image-read_cache-raises-{type(failure).__name__}-then-missing",
                (result, list(mapper.fs.log), cache_files(root)),
            )

    # the error class is looked up in the module
    with temporary_cache_root(), patched(sar_image, CachingError=KeyError):
        rec.add(
            "open_image-other-error-class",
            outcome(sar_image.open_image, new_mapper(files), PROCESSED_NAME, records_per_chunk=2),
        )

    # the result is usable, and independent of the results of other calls
    mapper = new_mapper(files)
    first = sar_image.open_image(mapper, PROCESSED_NAME, use_cache=False, records_per_chunk=2)
    second = sar_image.open_image(mapper, PROCESSED_NAME, use_cache=False, records_per_chunk=2)
    rec.add(
        "open_image-independent",
        (
            first is second,
            first.data is second.data,
            first["data"].dims is second["data"].dims,
            first["data"].attrs is second["data"].attrs,
            first["data"].data.fs is second["data"].data.fs,
            first == second,
            first.name,
            first["data"].shape,
            first["data"].chunks,
        ),
    )
    rec.add("open_image-values", outcome(lambda: first["data"].data[:, :]))
    rec.add("open_image-values-row", outcome(lambda: first["data"].data[3, 1:3]))

    # --- the io module as a whole (as ceos_alos2.open uses it) ---------------------------
    import ceos_alos2

    rec.add(
        "signatures",
        [
            (
                name,
                [
                    (p.name, str(p.kind), repr(p.default))
                    for p in inspect.signature(getattr(sar_image, name)).parameters.values()
                ],
            )
            for name in ("open_image", "filename_to_groupname")
        ]
        + [
            (
                "transform_metadata",
                [
                    (p.name, str(p.kind), repr(p.default))
                    for p in inspect.signature(metadata.transform_metadata).parameters.values()
                ],
            )
        ],
    )
    from tlz.functoolz import curry

    with temporary_cache_root():
        curried = curry(
            sar_image.open_image,
            new_mapper(files),
            records_per_chunk=2,
            create_cache=False,
            use_cache=True,
        )
        rec.add("open_image-curried", outcome(lambda: list(map(curried, [SIGNAL_NAME, PROCESSED_NAME]))))
        rec.add("open_image-curried-incomplete", type(curry(sar_image.open_image)(new_mapper(files))).__name__)
    rec.add(
        "names",
        sorted(
            name
            for name in (
                "Array decode_filename Variable caching CachingError read_metadata transform_metadata"
                " filename_to_groupname open_image io metadata enums file_descriptor processed_data"
                " signal_data"
            ).split()
            if hasattr(sar_image, name)
        ),
    )

    # --- transform_metadata -------------------------------------------------------------
    def header_for(type_code, lines=2, groups=4, **sections):
        return {
            "prefix_suffix_data_locators": {"sar_data_format_type_code": type_code},
            "sar_related_data_in_the_record": {
                "number_of_lines_per_dataset": lines,
                "number_of_data_groups_per_line": groups,
            },
        } | sections

    line_sets = {
        "none": [],
        "data-only": [{"data": {"start": 1, "stop": 5}}, {"data": {"start": 6, "stop": 10}}],
        "data-extra": [{"data": {"start": 1, "stop": 5, "size": 4}}],
        "data-tuple-values": [{"data": {"start": (1,), "stop": None}}],
        "fields": [
            {"scan_id": 1, "sar_image_data_line_number": 1, "a": 1.5, "data": {"start": 5, "stop": 21}},
            {"scan_id": 1, "sar_image_data_line_number": 2, "a": 2.5, "data": {"start": 25, "stop": 41}},
        ],
        "missing-data": [{"a": 1}],
        "missing-data-later": [{"data": {"start": 1, "stop": 2}}, {"a": 1}],
        "missing-start": [{"data": {"stop": 5}}],
        "missing-stop": [{"data": {"start": 5}}],
        "missing-both": [{"data": {}}],
        "data-list": [{"data": [1, 5]}],
        "data-str": [{"data": "start"}],
        "data-none": [{"data": None}],
        "line-none": [None],
        "line-list": [["data"]],
        "coordinates-field": [
            {"coordinates": 1, "data": {"start": 1, "stop": 5}},
            {"coordinates": 2, "data": {"start": 6, "stop": 10}},
        ],
        "header-attr-field": [
            {"interleaving_id": 1, "valid_range": 3, "data": {"start": 1, "stop": 5}},
            {"interleaving_id": 2, "valid_range": 4, "data": {"start": 6, "stop": 10}},
        ],
    }
    headers = {
        "IU2": header_for("IU2"),
        "C*8": header_for("C*8", 6, 3),
        "F*4": header_for("F*4"),
        "none-code": header_for(None),
        "unhashable-code": header_for(["IU2"]),
        "with-attrs": header_for(
            "IU2",
            preamble={"record_type": 192},
            interleaving_id="BSQ",
            extra={"maximum_data_range_of_pixel": 255, "number_of_burst_data": -1},
        ),
        "bad-attrs": header_for("IU2", maximum_data_range_of_pixel="many"),
        "no-code": {"sar_related_data_in_the_record": header_for("IU2")["sar_related_data_in_the_record"]},
        "no-shape": {"prefix_suffix_data_locators": {"sar_data_format_type_code": "IU2"}},
        "partial-shape": {
            "prefix_suffix_data_locators": {"sar_data_format_type_code": "F*4"},
            "sar_related_data_in_the_record": {"number_of_lines_per_dataset": 1},
        },
        "empty": {},
        "none": None,
    }
    for header_name, header in headers.items():
        for lines_name, lines in line_sets.items():
            before = repr((norm(header), norm(lines)))
            result = outcome(metadata.transform_metadata, header, lines)
            rec.add(
                f"transform_metadata-{header_name}-{lines_name}",
                (result, before == repr((norm(header), norm(lines)))),
            )
    for lines_name in ("data-only", "fields"):
        rec.add(
            f"transform_metadata-generator-{lines_name}",
            outcome(metadata.transform_metadata, headers["IU2"], iter(line_sets[lines_name])),
        )
        rec.add(
            f"transform_metadata-tuple-{lines_name}",
            outcome(metadata.transform_metadata, headers["IU2"], tuple(line_sets[lines_name])),
        )
    rec.add("transform_metadata-lines-none", outcome(metadata.transform_metadata, headers["IU2"], None))

    group, array_metadata = metadata.transform_metadata(headers["with-attrs"], line_sets["fields"])
    again, array_metadata_again = metadata.transform_metadata(headers["with-attrs"], line_sets["fields"])
    rec.add(
        "transform_metadata-types",
        (
            type(array_metadata).__name__,
            type(array_metadata["byte_ranges"]).__name__,
            [type(r).__name__ for r in array_metadata["byte_ranges"]],
            type(array_metadata["shape"]).__name__,
            type(array_metadata["dtype"]).__name__,
            list(array_metadata),
            array_metadata is array_metadata_again,
            array_metadata["byte_ranges"] is array_metadata_again["byte_ranges"],
            group.attrs is again.attrs,
            list(group.attrs),
        ),
    )

    # the order of the steps
    calls = []

    def logged(name):
        original = getattr(metadata, name)

        def wrapper(*args, **kwargs):
            calls.append(name)
            return original(*args, **kwargs)

        return wrapper

    names = ("extract_format_type", "extract_shape", "extract_attrs", "transform_line_metadata")
    with patched(metadata, **{name: logged(name) for name in names}):
        for header_name in ("with-attrs", "F*4", "bad-attrs", "no-shape"):
            for lines_name in ("fields", "missing-data"):
                del calls[:]
                result = outcome(metadata.transform_metadata, headers[header_name], line_sets[lines_name])
                rec.add(f"transform_metadata-calls-{header_name}-{lines_name}", (result[0], list(calls)))

    # headers and lines parsed from (synthetic) files
    for label, content in (("signal", signal), ("processed", processed), ("unknown", unknown_type)):
        header, lines = io.read_metadata(_stdio.BytesIO(content), 2)
        rec.add(f"transform_metadata-file-{label}", outcome(metadata.transform_metadata, header, lines))


# recorded with the UNCHANGED code (python equiv.py --record)
EXPECTED = {"filename_to_groupname-'IMG-HH-ALOS2225333100-180726-WWDR1.1__D-B3'": "('OK', ('str', "
                                                                       "'HH_scan3'))",
 "filename_to_groupname-'IMG-HV-ALOS2290760600-191011-WWDR1.5RUA'": "('OK', ('str', 'HV'))",
 "filename_to_groupname-'IMG-VV-ALOS2225333100-180726-WWDR1.1__D-F1'": "('OK', ('str', "
                                                                       "'VV_scan1'))",
 "filename_to_groupname-'IMG-VH-ALOS2225333100-180726-WWDR1.1__D-B0'": "('OK', ('str', "
                                                                       "'VH_scan0'))",
 "filename_to_groupname-'IMG-ALOS2225333100-180726-WWDR1.1__D-B5'": "('OK', ('str', 'scan5'))",
 "filename_to_groupname-'IMG-ALOS2225333100-180726-WWDR1.1__D'": "('OK', ('str', ''))",
 "filename_to_groupname-'LED-ALOS2225333100-180726-WWDR1.1__D'": "('OK', ('str', ''))",
 "filename_to_groupname-'VOL-ALOS2290760600-191011-WWDR1.5RUA'": "('OK', ('str', ''))",
 "filename_to_groupname-'TRL-HH-ALOS2290760600-191011-FBDR1.5GUA-F9'": "('OK', ('str', "
                                                                       "'HH_scan9'))",
 "filename_to_groupname-'IMG-HH-ALOS2225333100-180726-WWDR1.1__D-B'": "('EXC', "
                                                                      "'builtins.ValueError', "
                                                                      "'invalid file name: "
                                                                      "IMG-HH-ALOS2225333100-180726-WWDR1.1__D-B', "
                                                                      'None, None, False)',
 "filename_to_groupname-'IMG-HH-ALOS2225333100-180726-WWDR1.1__D-X3'": "('EXC', "
                                                                       "'builtins.ValueError', "
                                                                       "'invalid file name: "
                                                                       "IMG-HH-ALOS2225333100-180726-WWDR1.1__D-X3', "
                                                                       'None, None, False)',
 "filename_to_groupname-'IMG-HX-ALOS2225333100-180726-WWDR1.1__D-B3'": "('EXC', "
                                                                       "'builtins.ValueError', "
                                                                       "'invalid file name: "
                                                                       "IMG-HX-ALOS2225333100-180726-WWDR1.1__D-B3', "
                                                                       'None, None, False)',
 "filename_to_groupname-'IMG-HH-ALOS2225333100-180732-WWDR1.1__D-B3'": "('EXC', "
                                                                       "'builtins.ValueError', "
                                                                       "'invalid scene id: "
                                                                       "ALOS2225333100-180732', "
                                                                       "('EXC', "
                                                                       "'builtins.ValueError', "
                                                                       "'unconverted data remains: "
                                                                       "2', None, None, False), "
                                                                       "('EXC', "
                                                                       "'builtins.ValueError', "
                                                                       "'unconverted data remains: "
                                                                       "2', None, None, False), "
                                                                       'True)',
 "filename_to_groupname-'IMG-HH-ALOS2225333100-180726-XXXR1.1__D-B3'": "('EXC', "
                                                                       "'builtins.ValueError', "
                                                                       "'invalid product id: "
                                                                       "XXXR1.1__D', ('EXC', "
                                                                       "'builtins.ValueError', "
                                                                       '"invalid code \'XXX\'", '
                                                                       'None, None, False), '
                                                                       "('EXC', "
                                                                       "'builtins.ValueError', "
                                                                       '"invalid code \'XXX\'", '
                                                                       'None, None, False), True)',
 "filename_to_groupname-'IMG-HH-ALOS2225333100-180726-WWDR1.1__D-B3 '": "('EXC', "
                                                                        "'builtins.ValueError', "
                                                                        "'invalid file name: "
                                                                        'IMG-HH-ALOS2225333100-180726-WWDR1.1__D-B3 '
                                                                        "', None, None, False)",
 "filename_to_groupname-'dir/IMG-HH-ALOS2225333100-180726-WWDR1.1__D-B3'": "('EXC', "
                                                                           "'builtins.ValueError', "
                                                                           "'invalid file name: "
                                                                           "dir/IMG-HH-ALOS2225333100-180726-WWDR1.1__D-B3', "
                                                                           'None, None, False)',
 "filename_to_groupname-'img-hh-alos2225333100-180726-wwdr1.1__d-b3'": "('EXC', "
                                                                       "'builtins.ValueError', "
                                                                       "'invalid file name: "
                                                                       "img-hh-alos2225333100-180726-wwdr1.1__d-b3', "
                                                                       'None, None, False)',
 "filename_to_groupname-''": "('EXC', 'builtins.ValueError', 'invalid file name: ', None, None, "
                             'False)',
 "filename_to_groupname-'IMG'": "('EXC', 'builtins.ValueError', 'invalid file name: IMG', None, "
                                'None, False)',
 'filename_to_groupname-None': '(\'EXC\', \'builtins.TypeError\', "expected string or bytes-like '
                               'object, got \'NoneType\'", None, None, False)',
 'filename_to_groupname-5': '(\'EXC\', \'builtins.TypeError\', "expected string or bytes-like '
                            'object, got \'int\'", None, None, False)',
 "filename_to_groupname-b'IMG-HV-ALOS2290760600-191011-WWDR1.5RUA'": "('EXC', "
                                                                     "'builtins.TypeError', "
                                                                     "'cannot use a string pattern "
                                                                     "on a bytes-like object', "
                                                                     'None, None, False)',
 "filename_to_groupname-PurePosixPath('IMG-HV-ALOS2290760600-191011-WWDR1.5RUA')": "('EXC', "
                                                                                   "'builtins.TypeError', "
                                                                                   '"expected '
                                                                                   'string or '
                                                                                   'bytes-like '
                                                                                   'object, got '
                                                                                   '\'PurePosixPath\'", '
                                                                                   'None, None, '
                                                                                   'False)',
 'filename_to_groupname-info-0': "('OK', ('str', ''))",
 'filename_to_groupname-info-1': "('OK', ('str', ''))",
 'filename_to_groupname-info-2': "('OK', ('str', ''))",
 'filename_to_groupname-info-3': "('OK', ('str', 'HH'))",
 'filename_to_groupname-info-4': "('OK', ('str', 'scan3'))",
 'filename_to_groupname-info-5': "('OK', ('str', 'scanNone'))",
 'filename_to_groupname-info-6': "('OK', ('str', 'scan'))",
 'filename_to_groupname-info-7': "('OK', ('str', 'scan0'))",
 'filename_to_groupname-info-8': "('OK', ('str', 'scan3.5'))",
 'filename_to_groupname-info-9': "('OK', ('str', 'VV_scan1'))",
 'filename_to_groupname-info-10': "('OK', ('str', 'VV_scan1'))",
 'filename_to_groupname-info-11': "('OK', ('str', 'scan1'))",
 'filename_to_groupname-info-12': "('OK', ('str', 'scan1'))",
 'filename_to_groupname-info-13': "('EXC', 'builtins.TypeError', 'sequence item 0: expected str "
                                  "instance, int found', None, None, False)",
 'filename_to_groupname-info-14': "('OK', ('str', 'scan2'))",
 'filename_to_groupname-info-15': "('EXC', 'builtins.TypeError', 'sequence item 0: expected str "
                                  "instance, list found', None, None, False)",
 'filename_to_groupname-info-16': "('EXC', 'builtins.TypeError', 'sequence item 0: expected str "
                                  "instance, bytes found', None, None, False)",
 'filename_to_groupname-info-17': "('OK', ('str', 'HH_scan3'))",
 'filename_to_groupname-info-18': '(\'EXC\', \'builtins.TypeError\', "argument of type '
                                  '\'NoneType\' is not iterable", None, None, False)',
 'filename_to_groupname-info-19': '(\'EXC\', \'builtins.AttributeError\', "\'list\' object has no '
                                  'attribute \'get\'", None, None, False)',
 'filename_to_groupname-info-20': '(\'EXC\', \'builtins.TypeError\', "string indices must be '
                                  'integers, not \'str\'", None, None, False)',
 'open_image-signal-rpc1': 'sha256:a3c9cadabc8c219b29e8d8f0bc6d3a3ed7c29e977bb47239b679f0d1838f0152 '
                           "length:24190 start:(('OK', ('Group', 'HH_scan3', None, [('rows', "
                           "('Variable', ('list', [('str', 'rows')]), ('list', [('int', 0), "
                           "('int', 1), ('int', 2)]), ('dict', []))), ('sensor",
 'open_image-signal-rpc1-cache': 'sha256:adf055765d3191d3a49939a4aa78f138cec92a0ba0f65f5255518d0da5224556 '
                                 "length:24333 start:(('OK', ('Group', 'HH_scan3', None, [('rows', "
                                 "('Variable', ('list', [('str', 'rows')]), ('list', [('int', 0), "
                                 "('int', 1), ('int', 2)]), ('dict', []))), ('sensor",
 'open_image-signal-rpc2': 'sha256:d2a3deeaf8f13a9593a2fc0e077798bbfa11279b2436caa64f2bfeb2f6d75580 '
                           "length:24070 start:(('OK', ('Group', 'HH_scan3', None, [('rows', "
                           "('Variable', ('list', [('str', 'rows')]), ('list', [('int', 0), "
                           "('int', 1), ('int', 2)]), ('dict', []))), ('sensor",
 'open_image-signal-rpc2-cache': 'sha256:9830db47132acae072b4e4ea8aa3f2b35358c7994c47caafea6023be9b0a4d63 '
                                 "length:24213 start:(('OK', ('Group', 'HH_scan3', None, [('rows', "
                                 "('Variable', ('list', [('str', 'rows')]), ('list', [('int', 0), "
                                 "('int', 1), ('int', 2)]), ('dict', []))), ('sensor",
 'open_image-signal-rpc3': 'sha256:6603d795fdd9e38d7fd93518bbb265e01c2f6a346aa6aa1588e06ae869bc0713 '
                           "length:23948 start:(('OK', ('Group', 'HH_scan3', None, [('rows', "
                           "('Variable', ('list', [('str', 'rows')]), ('list', [('int', 0), "
                           "('int', 1), ('int', 2)]), ('dict', []))), ('sensor",
 'open_image-signal-rpc3-cache': 'sha256:566117e07b91cdf459ccb5137cb1a98529e07413c77ccc5febe00031c47438f6 '
                                 "length:24091 start:(('OK', ('Group', 'HH_scan3', None, [('rows', "
                                 "('Variable', ('list', [('str', 'rows')]), ('list', [('int', 0), "
                                 "('int', 1), ('int', 2)]), ('dict', []))), ('sensor",
 'open_image-signal-rpc1024': 'sha256:188cfc8be07915671a5b8051c9a4030ddcae0aba51d3d9d4370108020121f6d1 '
                              "length:23951 start:(('OK', ('Group', 'HH_scan3', None, [('rows', "
                              "('Variable', ('list', [('str', 'rows')]), ('list', [('int', 0), "
                              "('int', 1), ('int', 2)]), ('dict', []))), ('sensor",
 'open_image-signal-rpc1024-cache': 'sha256:716ea5cbda6a4f14e0abe48a3c9354a9fd97cdd3c1ba99d163abae00663dece1 '
                                    "length:24097 start:(('OK', ('Group', 'HH_scan3', None, "
                                    "[('rows', ('Variable', ('list', [('str', 'rows')]), ('list', "
                                    "[('int', 0), ('int', 1), ('int', 2)]), ('dict', []))), "
                                    "('sensor",
 'open_image-signal-rpcNone': 'sha256:7843a358870f2bb55eb305c541fdc5ef2309ccb6468671aa74cfe137b031f5e2 '
                              'length:12705 start:((\'EXC\', \'builtins.TypeError\', "unsupported '
                              'operand type(s) for /: \'int\' and \'NoneType\'", None, None, '
                              "False), [('open', '/product/IMG-HH-ALOS2225333100-180726-W",
 'open_image-signal-rpcNone-cache': 'sha256:000f78d56b5c63606ec2d4dc6ba2ba2f3bb81e7d96a6f4bbfb32a581ebb7fbbb '
                                    "length:12851 start:(('EXC', 'builtins.TypeError', "
                                    '"unsupported operand type(s) for /: \'int\' and '
                                    '\'NoneType\'", None, None, False), [(\'open\', '
                                    "'/product/IMG-HH-ALOS2225333100-180726-W",
 'open_image-signal-rpc-1': 'sha256:5859c8dfaa01d84f5254b5b0ef291aad9271706e827447ce0dd5ae14434ef365 '
                            "length:13217 start:(('OK', ('Group', 'HH_scan3', None, [('data', "
                            "('Variable', ('list', [('str', 'rows'), ('str', 'columns')]), "
                            "('Array', 'DirFileSystem', '/product', 'IMG-HH-ALOS2",
 'open_image-signal-rpc-1-cache': 'sha256:9efaeaa2aeb48cc0a2c667acc507638cd2cbfa999410bf70b14e69b75df9da0b '
                                  "length:13361 start:(('OK', ('Group', 'HH_scan3', None, "
                                  "[('data', ('Variable', ('list', [('str', 'rows'), ('str', "
                                  "'columns')]), ('Array', 'DirFileSystem', '/product', "
                                  "'IMG-HH-ALOS2",
 'open_image-signal-rpc0': 'sha256:10fd7440c90f64a7251fffc6032ebffac75cfa0468d24d5b73a3df05f49014f5 '
                           "length:12687 start:(('EXC', 'builtins.ZeroDivisionError', 'division by "
                           "zero', None, None, False), [('open', "
                           "'/product/IMG-HH-ALOS2225333100-180726-WWDR1.1__D-B3', (), [('data', "
                           "b'",
 'open_image-signal-rpc0-cache': 'sha256:d18b85f8c9d4ea3d275c03e9d97d985100817b6effd316e33e6b4c0da2f14b0b '
                                 "length:12830 start:(('EXC', 'builtins.ZeroDivisionError', "
                                 "'division by zero', None, None, False), [('open', "
                                 "'/product/IMG-HH-ALOS2225333100-180726-WWDR1.1__D-B3', (), "
                                 "[('data', b'",
 "open_image-signal-rpc'auto'": 'sha256:1fa454bde6de82494e2a43586965b41b0c7b4b87390a28a9e3ab4e4f9c70290c '
                                "length:12702 start:(('EXC', 'builtins.TypeError', "
                                '"unsupported operand type(s) for /: \'int\' and \'str\'", None, '
                                "None, False), [('open', "
                                "'/product/IMG-HH-ALOS2225333100-180726-WWDR1.",
 "open_image-signal-rpc'auto'-cache": 'sha256:8decbf983129cb025769490bbe594e48fe08dc3f08dbc710b108208b2c27f321 '
                                      "length:12850 start:(('EXC', 'builtins.TypeError', "
                                      '"unsupported operand type(s) for /: \'int\' and \'str\'", '
                                      "None, None, False), [('open', "
                                      "'/product/IMG-HH-ALOS2225333100-180726-WWDR1.",
 "open_image-signal-rpc'1kB'": 'sha256:61e361d4ed0f88aaa8e44879e6af97892adc2ce870688475ddf731d30655b462 '
                               'length:12701 start:((\'EXC\', \'builtins.TypeError\', "unsupported '
                               'operand type(s) for /: \'int\' and \'str\'", None, None, False), '
                               "[('open', '/product/IMG-HH-ALOS2225333100-180726-WWDR1.",
 "open_image-signal-rpc'1kB'-cache": 'sha256:7ad9ad38d3050b7694e678481879afe8d8b6542e0fceac9cdf2d128fc0a2566e '
                                     "length:12848 start:(('EXC', 'builtins.TypeError', "
                                     '"unsupported operand type(s) for /: \'int\' and \'str\'", '
                                     "None, None, False), [('open', "
                                     "'/product/IMG-HH-ALOS2225333100-180726-WWDR1.",
 'open_image-signal-rpc2.0': 'sha256:16e4a1448f85b420f7e2e6a6675d008618fc87cc2d5ffb271af527404ac014ec '
                             'length:12700 start:((\'EXC\', \'builtins.TypeError\', "argument '
                             'should be integer or None, not \'float\'", None, None, False), '
                             "[('open', '/product/IMG-HH-ALOS2225333100-180726-WWDR1.1__",
 'open_image-signal-rpc2.0-cache': 'sha256:d6f9f2f69e918c24f490ee5c85553fcdecfcb8606088982bd65e9fadae853c89 '
                                   "length:12845 start:(('EXC', 'builtins.TypeError', "
                                   '"argument should be integer or None, not \'float\'", None, '
                                   "None, False), [('open', "
                                   "'/product/IMG-HH-ALOS2225333100-180726-WWDR1.1__",
 'open_image-signal-defaults': 'sha256:000f78d56b5c63606ec2d4dc6ba2ba2f3bb81e7d96a6f4bbfb32a581ebb7fbbb '
                               'length:12851 start:((\'EXC\', \'builtins.TypeError\', "unsupported '
                               'operand type(s) for /: \'int\' and \'NoneType\'", None, None, '
                               "False), [('open', '/product/IMG-HH-ALOS2225333100-180726-W",
 'open_image-signal-create': 'sha256:a756e6a36f5af361976f3b61e8624a8768adba643871239feccba8926ab93f01 '
                             "length:34308 start:(('OK', ('Group', 'HH_scan3', None, [('rows', "
                             "('Variable', ('list', [('str', 'rows')]), ('list', [('int', 0), "
                             "('int', 1), ('int', 2)]), ('dict', []))), ('sensor",
 'open_image-signal-create-only': 'sha256:8f1050765c5f825ca70a49f04c3acfe9dc745ea793fa75b512c84c4dc52060e3 '
                                  "length:34165 start:(('OK', ('Group', 'HH_scan3', None, "
                                  "[('rows', ('Variable', ('list', [('str', 'rows')]), ('list', "
                                  "[('int', 0), ('int', 1), ('int', 2)]), ('dict', []))), ('sensor",
 'open_image-signal-truthy-flags': 'sha256:e1bc48738d66c6245d7b40c3f586d0d19672de0ce46471b29df13ef5e281724f '
                                   "length:34043 start:(('OK', ('Group', 'HH_scan3', None, "
                                   "[('rows', ('Variable', ('list', [('str', 'rows')]), ('list', "
                                   "[('int', 0), ('int', 1), ('int', 2)]), ('dict', []))), "
                                   "('sensor",
 'open_image-signal-create-failing': 'sha256:000f78d56b5c63606ec2d4dc6ba2ba2f3bb81e7d96a6f4bbfb32a581ebb7fbbb '
                                     "length:12851 start:(('EXC', 'builtins.TypeError', "
                                     '"unsupported operand type(s) for /: \'int\' and '
                                     '\'NoneType\'", None, None, False), [(\'open\', '
                                     "'/product/IMG-HH-ALOS2225333100-180726-W",
 'open_image-processed-rpc1': 'sha256:3d238657b885e65070d002d428849bbc899acd82cf6d505d9e223d13a1dc81e0 '
                              "length:20743 start:(('OK', ('Group', 'HV', None, [('rows', "
                              "('Variable', ('list', [('str', 'rows')]), ('list', [('int', 0), "
                              "('int', 1), ('int', 2), ('int', 3), ('int', 4)]), ('dict",
 'open_image-processed-rpc1-cache': 'sha256:5fbf3d87442350a97ded3723424ff7de168d8d47a6fb5a793cd76ebf44f26c42 '
                                    "length:20883 start:(('OK', ('Group', 'HV', None, [('rows', "
                                    "('Variable', ('list', [('str', 'rows')]), ('list', [('int', "
                                    "0), ('int', 1), ('int', 2), ('int', 3), ('int', 4)]), ('dict",
 'open_image-processed-rpc2': 'sha256:17c4ba61eed0cd3ec0bc71428cf8710639884c06cbdc25ec3c37b847195ed43d '
                              "length:20504 start:(('OK', ('Group', 'HV', None, [('rows', "
                              "('Variable', ('list', [('str', 'rows')]), ('list', [('int', 0), "
                              "('int', 1), ('int', 2), ('int', 3), ('int', 4)]), ('dict",
 'open_image-processed-rpc2-cache': 'sha256:9c11290663654a4a2fc377ec5d91db39dbea2825620bfee66f569dbdc0dabe5b '
                                    "length:20644 start:(('OK', ('Group', 'HV', None, [('rows', "
                                    "('Variable', ('list', [('str', 'rows')]), ('list', [('int', "
                                    "0), ('int', 1), ('int', 2), ('int', 3), ('int', 4)]), ('dict",
 'open_image-processed-rpc3': 'sha256:f88e63304ed327b3e1a3ce4c165061852cf6f4387ce1e18ec09039167f19d714 '
                              "length:20382 start:(('OK', ('Group', 'HV', None, [('rows', "
                              "('Variable', ('list', [('str', 'rows')]), ('list', [('int', 0), "
                              "('int', 1), ('int', 2), ('int', 3), ('int', 4)]), ('dict",
 'open_image-processed-rpc3-cache': 'sha256:12b03f581de12ca0e47e086467aef13dff38cf94dfcf82c2b79dd9b74075b774 '
                                    "length:20522 start:(('OK', ('Group', 'HV', None, [('rows', "
                                    "('Variable', ('list', [('str', 'rows')]), ('list', [('int', "
                                    "0), ('int', 1), ('int', 2), ('int', 3), ('int', 4)]), ('dict",
 'open_image-processed-rpc1024': 'sha256:b3d8a551dca426af27991e443bd65de29e75d41ba9fe0f3a6ef3e540f9f910cc '
                                 "length:20263 start:(('OK', ('Group', 'HV', None, [('rows', "
                                 "('Variable', ('list', [('str', 'rows')]), ('list', [('int', 0), "
                                 "('int', 1), ('int', 2), ('int', 3), ('int', 4)]), ('dict",
 'open_image-processed-rpc1024-cache': 'sha256:e813a3a93abd52c786c31b8166d41fe0e90272061ffb59207d1bdc638253f2ab '
                                       "length:20406 start:(('OK', ('Group', 'HV', None, [('rows', "
                                       "('Variable', ('list', [('str', 'rows')]), ('list', "
                                       "[('int', 0), ('int', 1), ('int', 2), ('int', 3), ('int', "
                                       "4)]), ('dict",
 'open_image-processed-rpcNone': 'sha256:b4d6ab5e7e113897e760ea572d363f345768c1faf63c7fec36ecee89a1ef776b '
                                 "length:12702 start:(('EXC', 'builtins.TypeError', "
                                 '"unsupported operand type(s) for /: \'int\' and \'NoneType\'", '
                                 "None, None, False), [('open', "
                                 "'/product/IMG-HH-ALOS2225333100-180726-W",
 'open_image-processed-rpcNone-cache': 'sha256:3520c6fef81e9fdd83da92df0e3ada977e67848affdd2896d7218def0e8f9302 '
                                       "length:12845 start:(('EXC', 'builtins.TypeError', "
                                       '"unsupported operand type(s) for /: \'int\' and '
                                       '\'NoneType\'", None, None, False), [(\'open\', '
                                       "'/product/IMG-HH-ALOS2225333100-180726-W",
 'open_image-processed-rpc-1': 'sha256:891341c3d734dfab4d18e857fe23198ba13e938131b82f159db55324d9d6ab56 '
                               "length:13265 start:(('OK', ('Group', 'HV', None, [('data', "
                               "('Variable', ('list', [('str', 'rows'), ('str', 'columns')]), "
                               "('Array', 'DirFileSystem', '/product', 'IMG-HV-ALOS2290760",
 'open_image-processed-rpc-1-cache': 'sha256:ceedf3bc35f8c2b6e3c2a44863ef14108ef2becd81a5bb214ef5c3b9ca599c92 '
                                     "length:13406 start:(('OK', ('Group', 'HV', None, [('data', "
                                     "('Variable', ('list', [('str', 'rows'), ('str', "
                                     "'columns')]), ('Array', 'DirFileSystem', '/product', "
                                     "'IMG-HV-ALOS2290760",
 'open_image-processed-rpc0': 'sha256:21291f16ea9993c9a59c342a16c24f4660214102ebcf1f3d8cba75316df5a820 '
                              "length:12684 start:(('EXC', 'builtins.ZeroDivisionError', 'division "
                              "by zero', None, None, False), [('open', "
                              "'/product/IMG-HH-ALOS2225333100-180726-WWDR1.1__D-B3', (), "
                              "[('data', b'",
 'open_image-processed-rpc0-cache': 'sha256:fd7e885be33875a393dc354e5c5017f31cb44c4864dc56fc838a0b0e64235e10 '
                                    "length:12824 start:(('EXC', 'builtins.ZeroDivisionError', "
                                    "'division by zero', None, None, False), [('open', "
                                    "'/product/IMG-HH-ALOS2225333100-180726-WWDR1.1__D-B3', (), "
                                    "[('data', b'",
 "open_image-processed-rpc'auto'": 'sha256:702c7718ba5a7d3fa0973b52b375019178e3e892f4fc1a003e2b042b96fcb6d7 '
                                   "length:12699 start:(('EXC', 'builtins.TypeError', "
                                   '"unsupported operand type(s) for /: \'int\' and \'str\'", '
                                   "None, None, False), [('open', "
                                   "'/product/IMG-HH-ALOS2225333100-180726-WWDR1.",
 "open_image-processed-rpc'auto'-cache": 'sha256:5aa2484b5218f15df37b495b98c3e52a7d90c8b73a5d5c254fe0d0b23afdd22a '
                                         "length:12844 start:(('EXC', 'builtins.TypeError', "
                                         '"unsupported operand type(s) for /: \'int\' and '
                                         '\'str\'", None, None, False), [(\'open\', '
                                         "'/product/IMG-HH-ALOS2225333100-180726-WWDR1.",
 "open_image-processed-rpc'1kB'": 'sha256:8581b86f58b78e729ceee8030b6ec4aca7e8094a42bb58c60fdd55c1b92c2779 '
                                  "length:12698 start:(('EXC', 'builtins.TypeError', "
                                  '"unsupported operand type(s) for /: \'int\' and \'str\'", None, '
                                  "None, False), [('open', "
                                  "'/product/IMG-HH-ALOS2225333100-180726-WWDR1.",
 "open_image-processed-rpc'1kB'-cache": 'sha256:dd14427325c5662c235e8028e46e3820c2c26319ff362c449a2d1bec0fffb3c1 '
                                        "length:12842 start:(('EXC', 'builtins.TypeError', "
                                        '"unsupported operand type(s) for /: \'int\' and \'str\'", '
                                        "None, None, False), [('open', "
                                        "'/product/IMG-HH-ALOS2225333100-180726-WWDR1.",
 'open_image-processed-rpc2.0': 'sha256:7b9c32fc3c40c1cd8fdd5e6d93c3f222bbec5be0893e2ddc418a2e1c622144c4 '
                                'length:12697 start:((\'EXC\', \'builtins.TypeError\', "argument '
                                'should be integer or None, not \'float\'", None, None, False), '
                                "[('open', '/product/IMG-HH-ALOS2225333100-180726-WWDR1.1__",
 'open_image-processed-rpc2.0-cache': 'sha256:112a5e608fc694a4051862c38c309eee5002c4ac1de885a9ada6b2263f16e326 '
                                      "length:12839 start:(('EXC', 'builtins.TypeError', "
                                      '"argument should be integer or None, not \'float\'", None, '
                                      "None, False), [('open', "
                                      "'/product/IMG-HH-ALOS2225333100-180726-WWDR1.1__",
 'open_image-processed-defaults': 'sha256:3520c6fef81e9fdd83da92df0e3ada977e67848affdd2896d7218def0e8f9302 '
                                  "length:12845 start:(('EXC', 'builtins.TypeError', "
                                  '"unsupported operand type(s) for /: \'int\' and \'NoneType\'", '
                                  "None, None, False), [('open', "
                                  "'/product/IMG-HH-ALOS2225333100-180726-W",
 'open_image-processed-create': 'sha256:f39698b46bf1ba0afbbeeb27a0dd309247406c8a91dbc7994636eb9a5e44619f '
                                "length:27439 start:(('OK', ('Group', 'HV', None, [('rows', "
                                "('Variable', ('list', [('str', 'rows')]), ('list', [('int', 0), "
                                "('int', 1), ('int', 2), ('int', 3), ('int', 4)]), ('dict",
 'open_image-processed-create-only': 'sha256:e6e3c58881a01ddf23900757f7a5f0fc76abaeb7f21f8e0f716a964610de4a19 '
                                     "length:27299 start:(('OK', ('Group', 'HV', None, [('rows', "
                                     "('Variable', ('list', [('str', 'rows')]), ('list', [('int', "
                                     "0), ('int', 1), ('int', 2), ('int', 3), ('int', 4)]), ('dict",
 'open_image-processed-truthy-flags': 'sha256:62df989ad6014e8dc21c92888477ee160b1a57170dc0cd5b46c9e2b56bce66fb '
                                      "length:27175 start:(('OK', ('Group', 'HV', None, [('rows', "
                                      "('Variable', ('list', [('str', 'rows')]), ('list', [('int', "
                                      "0), ('int', 1), ('int', 2), ('int', 3), ('int', 4)]), "
                                      "('dict",
 'open_image-processed-create-failing': 'sha256:3520c6fef81e9fdd83da92df0e3ada977e67848affdd2896d7218def0e8f9302 '
                                        "length:12845 start:(('EXC', 'builtins.TypeError', "
                                        '"unsupported operand type(s) for /: \'int\' and '
                                        '\'NoneType\'", None, None, False), [(\'open\', '
                                        "'/product/IMG-HH-ALOS2225333100-180726-W",
 'open_image-missing': 'sha256:03b2cc83919cf87cf57beae6848fd376c8fc3cb2c31ca1e27f425fd0cf496fc5 '
                       "length:12703 start:(('EXC', 'builtins.FileNotFoundError', "
                       "'/product/IMG-VV-ALOS2225333100-180726-WWDR1.1__D-F1', None, None, False), "
                       "[('open', '/product/IMG-HH-ALOS2225333100-1807",
 'open_image-missing-no-cache': 'sha256:179447e768ab890057183b0393101c04a752816aa4300716094cd5bcc80334ae '
                                "length:12560 start:(('EXC', 'builtins.FileNotFoundError', "
                                "'/product/IMG-VV-ALOS2225333100-180726-WWDR1.1__D-F1', None, "
                                "None, False), [('open', '/product/IMG-HH-ALOS2225333100-1807",
 'open_image-bad-name': 'sha256:7ccd62142192f136850b4719ce4670d6b91b29b377c0de521900e792adc64705 '
                        "length:8177 start:(('EXC', 'builtins.ValueError', 'invalid file name: "
                        "image', None, None, False), [('open', '/product/image', (), [('data', "
                        "b'\\x00\\x00\\x00\\x012\\xc0\\x12\\x12\\x00\\x0",
 'open_image-empty': 'sha256:719008a2a47f9d3d695a3839e0ce70f751fb826f25d1905ac199082eb6848f68 '
                     "length:661 start:(('EXC', 'construct.core.StreamError', 'Error in path "
                     '(parsing) -> preamble -> record_sequence_number\\nstream read less than '
                     'specified amount, expected 4, found',
 'open_image-truncated': 'sha256:667cafcdbbdcacdf78bf403212da73eb127e8e4fc2e14ac87193ac260c6b476b '
                         "length:5319 start:(('EXC', 'builtins.ValueError', 'sizes mismatch: "
                         "chunksize is 0 but got 197 bytes', None, None, False), [('open', "
                         "'/product/IMG-HV-ALOS2290760600-191011-WWDR1.5",
 'open_image-unknown-type-code': 'sha256:8d5afc870b2bad4dd2e5b3bcb8d1fa260cffcc798c12fc9508586bf440cc5896 '
                                 "length:2990 start:(('EXC', 'builtins.ValueError', 'unknown type "
                                 "code: F*4', None, None, False), [('open', "
                                 "'/product/IMG-HV-ALOS2290760600-191011-WWDR1.5RUA', (), "
                                 "[('data', b'\\x00",
 'open_image-no-records': 'sha256:97824f91a7b10befc7720d06907745af0606ba007756b48fc2ae7e868ba070d2 '
                          "length:1836 start:(('OK', ('Group', 'HV', None, [('data', ('Variable', "
                          "('list', [('str', 'rows'), ('str', 'columns')]), ('Array', "
                          "'DirFileSystem', '/product', 'IMG-HV-ALOS2290760",
 'open_image-subdirectory': 'sha256:9dc3266024bd30c4c1cdd64492d33df2bbd44c34df2de125b230be6e14ba6655 '
                            "length:8372 start:(('EXC', 'builtins.ValueError', 'invalid file name: "
                            "a/IMG-HH-ALOS2225333100-180726-WWDR1.1__D-B3', None, None, False), "
                            "[('open', '/product/a/IMG-HH-ALOS22253331",
 'open_image-path-none': 'sha256:79bf34d71be81d0a6bc32909eb2da65399a3fcf5ad6bee8004306d8dbcb703d6 '
                         'length:12550 start:((\'EXC\', \'builtins.TypeError\', "\'NoneType\' '
                         'object is not iterable", None, None, False), [(\'open\', '
                         "'/product/IMG-HH-ALOS2225333100-180726-WWDR1.1__D-B3', (), [('",
 'open_image-path-none-no-cache': 'sha256:1d7b2d7f75e77374e510d490c5ae841d203724770c3a0b3b6cb9b4ae5417cb3f '
                                  "length:12447 start:(('EXC', 'builtins.TypeError', "
                                  '"\'NoneType\' object is not iterable", None, None, False), '
                                  "[('open', "
                                  "'/product/IMG-HH-ALOS2225333100-180726-WWDR1.1__D-B3', (), [('",
 'open_image-positional-flags': 'sha256:e1f4498b29200be7aad93c829ed10e5cb9ca0ab5936a04cf6f2cd182da7dd80e '
                                "length:12472 start:(('EXC', 'builtins.TypeError', 'open_image() "
                                "takes 2 positional arguments but 3 were given', None, None, "
                                "False), [('open', '/product/IMG-HH-ALOS2225333100-18072",
 'open_image-unknown-keyword': 'sha256:307cd0e883498d6d06ee42e3735c68dcbded0c49d36e2912e8985803f9af7f8c '
                               "length:12470 start:(('EXC', 'builtins.TypeError', "
                               '"open_image() got an unexpected keyword argument \'chunks\'", '
                               "None, None, False), [('open', "
                               "'/product/IMG-HH-ALOS2225333100-180726-",
 'open_image-mapper-none': '(\'EXC\', \'builtins.AttributeError\', "\'NoneType\' object has no '
                           'attribute \'root\'", None, None, False)',
 'open_image-mapper-none-cache': '(\'EXC\', \'builtins.AttributeError\', "\'NoneType\' object has '
                                 'no attribute \'root\'", None, None, False)',
 'open_image-remote-cache-valid-rpc2-defaults': 'sha256:656879b14e9a02909d47c0bbebf432119b5209f443198fab4fe75798e2bf31d6 '
                                                "length:27527 start:(('OK', ('Group', 'HV', None, "
                                                "[('rows', ('Variable', ('list', [('str', "
                                                "'rows')]), ('ndarray', 'int64', (5,), ('list', "
                                                "[('int', 0), ('int', 1), ('int', 2), ('int",
 'open_image-remote-cache-valid-rpc2-use_cache=False': 'sha256:039604c3518ecc1a49ea4061939bc56c4521f148dbcb26adbe994c3acdc07f95 '
                                                       "length:27224 start:(('OK', ('Group', 'HV', "
                                                       "None, [('rows', ('Variable', ('list', "
                                                       "[('str', 'rows')]), ('list', [('int', 0), "
                                                       "('int', 1), ('int', 2), ('int', 3), "
                                                       "('int', 4)]), ('dict",
 'open_image-remote-cache-valid-rpc2-create_cache=True': 'sha256:656879b14e9a02909d47c0bbebf432119b5209f443198fab4fe75798e2bf31d6 '
                                                         "length:27527 start:(('OK', ('Group', "
                                                         "'HV', None, [('rows', ('Variable', "
                                                         "('list', [('str', 'rows')]), ('ndarray', "
                                                         "'int64', (5,), ('list', [('int', 0), "
                                                         "('int', 1), ('int', 2), ('int",
 'open_image-remote-cache-valid-rpcNone-defaults': 'sha256:e15d0b07af9a5f63bf87323be5b21cbe98d56efbe363820f6c6c0d02518d668a '
                                                   "length:27345 start:(('OK', ('Group', 'HV', "
                                                   "None, [('rows', ('Variable', ('list', [('str', "
                                                   "'rows')]), ('ndarray', 'int64', (5,), ('list', "
                                                   "[('int', 0), ('int', 1), ('int', 2), ('int",
 'open_image-remote-cache-valid-rpcNone-use_cache=False': 'sha256:3c15ee8ca8c291eb7deb884ed4ebad1a093559ba22df96332b37e071201be3af '
                                                          "length:19422 start:(('EXC', "
                                                          '\'builtins.TypeError\', "unsupported '
                                                          "operand type(s) for /: 'int' and "
                                                          '\'NoneType\'", None, None, False), '
                                                          "[('open', "
                                                          "'/product/IMG-HH-ALOS2225333100-180726-W",
 'open_image-remote-cache-valid-rpcNone-create_cache=True': 'sha256:e15d0b07af9a5f63bf87323be5b21cbe98d56efbe363820f6c6c0d02518d668a '
                                                            "length:27345 start:(('OK', ('Group', "
                                                            "'HV', None, [('rows', ('Variable', "
                                                            "('list', [('str', 'rows')]), "
                                                            "('ndarray', 'int64', (5,), ('list', "
                                                            "[('int', 0), ('int', 1), ('int', 2), "
                                                            "('int",
 'open_image-remote-cache-other-image-rpc2-defaults': 'sha256:81e0411fb2d9c9ad67a7082554b7b7e1266d1189022cb8fa70e3b7de6a7c619e '
                                                      "length:34548 start:(('OK', ('Group', "
                                                      "'HH_scan3', None, [('rows', ('Variable', "
                                                      "('list', [('str', 'rows')]), ('ndarray', "
                                                      "'int64', (3,), ('list', [('int', 0), "
                                                      "('int', 1), ('int', 2)]",
 'open_image-remote-cache-other-image-rpc2-use_cache=False': 'sha256:2bc8f734db71db9033a97781ac95949bc1b54aec55930af6eb283775e04c7aee '
                                                             "length:30518 start:(('OK', ('Group', "
                                                             "'HV', None, [('rows', ('Variable', "
                                                             "('list', [('str', 'rows')]), "
                                                             "('list', [('int', 0), ('int', 1), "
                                                             "('int', 2), ('int', 3), ('int', "
                                                             "4)]), ('dict",
 'open_image-remote-cache-other-image-rpc2-create_cache=True': 'sha256:81e0411fb2d9c9ad67a7082554b7b7e1266d1189022cb8fa70e3b7de6a7c619e '
                                                               "length:34548 start:(('OK', "
                                                               "('Group', 'HH_scan3', None, "
                                                               "[('rows', ('Variable', ('list', "
                                                               "[('str', 'rows')]), ('ndarray', "
                                                               "'int64', (3,), ('list', [('int', "
                                                               "0), ('int', 1), ('int', 2)]",
 'open_image-remote-cache-other-image-rpcNone-defaults': 'sha256:2c0a56df91d08a91ea20b410ac96be3149d391f571ac542e54227e54012e47f2 '
                                                         "length:34461 start:(('OK', ('Group', "
                                                         "'HH_scan3', None, [('rows', ('Variable', "
                                                         "('list', [('str', 'rows')]), ('ndarray', "
                                                         "'int64', (3,), ('list', [('int', 0), "
                                                         "('int', 1), ('int', 2)]",
 'open_image-remote-cache-other-image-rpcNone-use_cache=False': 'sha256:d90588805737454864166a7727300d1fd8f9ba90e2da6c503576814885f3274e '
                                                                "length:22716 start:(('EXC', "
                                                                "'builtins.TypeError', "
                                                                '"unsupported operand type(s) for '
                                                                '/: \'int\' and \'NoneType\'", '
                                                                "None, None, False), [('open', "
                                                                "'/product/IMG-HH-ALOS2225333100-180726-W",
 'open_image-remote-cache-other-image-rpcNone-create_cache=True': 'sha256:2c0a56df91d08a91ea20b410ac96be3149d391f571ac542e54227e54012e47f2 '
                                                                  "length:34461 start:(('OK', "
                                                                  "('Group', 'HH_scan3', None, "
                                                                  "[('rows', ('Variable', ('list', "
                                                                  "[('str', 'rows')]), ('ndarray', "
                                                                  "'int64', (3,), ('list', "
                                                                  "[('int', 0), ('int', 1), "
                                                                  "('int', 2)]",
 'open_image-remote-cache-empty-rpc2-defaults': 'sha256:0fdab7cd1a21587fda91dc7e32946ff5bea4ee5fefd1f58e4d7fdd2f01aaec54 '
                                                "length:20749 start:(('OK', ('Group', 'HV', None, "
                                                "[('rows', ('Variable', ('list', [('str', "
                                                "'rows')]), ('list', [('int', 0), ('int', 1), "
                                                "('int', 2), ('int', 3), ('int', 4)]), ('dict",
 'open_image-remote-cache-empty-rpc2-use_cache=False': 'sha256:d7bd1f2cec9aaef4ddcae5fadd2e947b6ef776ff806d993e0eea58aceb52ef3e '
                                                       "length:20609 start:(('OK', ('Group', 'HV', "
                                                       "None, [('rows', ('Variable', ('list', "
                                                       "[('str', 'rows')]), ('list', [('int', 0), "
                                                       "('int', 1), ('int', 2), ('int', 3), "
                                                       "('int', 4)]), ('dict",
 'open_image-remote-cache-empty-rpc2-create_cache=True': 'sha256:b5249996b839906a7c7cb2bab4d76177e5e6c5c08d405ca6874cf176e4cf28ee '
                                                         "length:27544 start:(('OK', ('Group', "
                                                         "'HV', None, [('rows', ('Variable', "
                                                         "('list', [('str', 'rows')]), ('list', "
                                                         "[('int', 0), ('int', 1), ('int', 2), "
                                                         "('int', 3), ('int', 4)]), ('dict",
 'open_image-remote-cache-empty-rpcNone-defaults': 'sha256:8375c3a770cf8c1f95c26485af78c082019ba89f4de3e52de9aaf367dfc528fc '
                                                   "length:12950 start:(('EXC', "
                                                   '\'builtins.TypeError\', "unsupported operand '
                                                   'type(s) for /: \'int\' and \'NoneType\'", '
                                                   "None, None, False), [('open', "
                                                   "'/product/IMG-HH-ALOS2225333100-180726-W",
 'open_image-remote-cache-empty-rpcNone-use_cache=False': 'sha256:4d1598215cc5850e0c97db4fb9f3119115d635fea3b15359933d7f9f233dc1b5 '
                                                          "length:12807 start:(('EXC', "
                                                          '\'builtins.TypeError\', "unsupported '
                                                          "operand type(s) for /: 'int' and "
                                                          '\'NoneType\'", None, None, False), '
                                                          "[('open', "
                                                          "'/product/IMG-HH-ALOS2225333100-180726-W",
 'open_image-remote-cache-empty-rpcNone-create_cache=True': 'sha256:8375c3a770cf8c1f95c26485af78c082019ba89f4de3e52de9aaf367dfc528fc '
                                                            "length:12950 start:(('EXC', "
                                                            '\'builtins.TypeError\', "unsupported '
                                                            "operand type(s) for /: 'int' and "
                                                            '\'NoneType\'", None, None, False), '
                                                            "[('open', "
                                                            "'/product/IMG-HH-ALOS2225333100-180726-W",
 'open_image-remote-cache-garbage-rpc2-defaults': 'sha256:e060cda5c13dd809f321b4599625bc981f14a7b333d053fa4a4881c691b6dbbd '
                                                  "length:20766 start:(('OK', ('Group', 'HV', "
                                                  "None, [('rows', ('Variable', ('list', [('str', "
                                                  "'rows')]), ('list', [('int', 0), ('int', 1), "
                                                  "('int', 2), ('int', 3), ('int', 4)]), ('dict",
 'open_image-remote-cache-garbage-rpc2-use_cache=False': 'sha256:65184f855e8639b8c87ea95331fd7b87dcfc9d6d80a8809cb5f4440be93a7856 '
                                                         "length:20626 start:(('OK', ('Group', "
                                                         "'HV', None, [('rows', ('Variable', "
                                                         "('list', [('str', 'rows')]), ('list', "
                                                         "[('int', 0), ('int', 1), ('int', 2), "
                                                         "('int', 3), ('int', 4)]), ('dict",
 'open_image-remote-cache-garbage-rpc2-create_cache=True': 'sha256:aa5b50c2d6bb02884d8ec353e176df19ffe4e74ce1dd40e6e33a7df6a24eda9c '
                                                           "length:27561 start:(('OK', ('Group', "
                                                           "'HV', None, [('rows', ('Variable', "
                                                           "('list', [('str', 'rows')]), ('list', "
                                                           "[('int', 0), ('int', 1), ('int', 2), "
                                                           "('int', 3), ('int', 4)]), ('dict",
 'open_image-remote-cache-garbage-rpcNone-defaults': 'sha256:252b96efc4f7cf3ddef413a1a10eb1df4e376ceef2f57d7d9615bf6920000e46 '
                                                     "length:12967 start:(('EXC', "
                                                     '\'builtins.TypeError\', "unsupported operand '
                                                     'type(s) for /: \'int\' and \'NoneType\'", '
                                                     "None, None, False), [('open', "
                                                     "'/product/IMG-HH-ALOS2225333100-180726-W",
 'open_image-remote-cache-garbage-rpcNone-use_cache=False': 'sha256:728d0a1ab4539c395df73059275edb21de2a752a7b5e026d8504a34bc96972d4 '
                                                            "length:12824 start:(('EXC', "
                                                            '\'builtins.TypeError\', "unsupported '
                                                            "operand type(s) for /: 'int' and "
                                                            '\'NoneType\'", None, None, False), '
                                                            "[('open', "
                                                            "'/product/IMG-HH-ALOS2225333100-180726-W",
 'open_image-remote-cache-garbage-rpcNone-create_cache=True': 'sha256:252b96efc4f7cf3ddef413a1a10eb1df4e376ceef2f57d7d9615bf6920000e46 '
                                                              "length:12967 start:(('EXC', "
                                                              "'builtins.TypeError', "
                                                              '"unsupported operand type(s) for /: '
                                                              '\'int\' and \'NoneType\'", None, '
                                                              "None, False), [('open', "
                                                              "'/product/IMG-HH-ALOS2225333100-180726-W",
 'open_image-remote-cache-truncated-rpc2-defaults': 'sha256:a1fc471642afc9c624480002cc381b3fafa9102721f4be7ff07ed60dbec33130 '
                                                    "length:24056 start:(('OK', ('Group', 'HV', "
                                                    "None, [('rows', ('Variable', ('list', "
                                                    "[('str', 'rows')]), ('list', [('int', 0), "
                                                    "('int', 1), ('int', 2), ('int', 3), ('int', "
                                                    "4)]), ('dict",
 'open_image-remote-cache-truncated-rpc2-use_cache=False': 'sha256:18f82384a6bb5522e08f7add8fffadab0d7ae62b2f0968481afb898e67c2a83f '
                                                           "length:23916 start:(('OK', ('Group', "
                                                           "'HV', None, [('rows', ('Variable', "
                                                           "('list', [('str', 'rows')]), ('list', "
                                                           "[('int', 0), ('int', 1), ('int', 2), "
                                                           "('int', 3), ('int', 4)]), ('dict",
 'open_image-remote-cache-truncated-rpc2-create_cache=True': 'sha256:1c2e1e035ea37798e41ffb424345599cab3f4e3520c7e259826b688b7801017a '
                                                             "length:30851 start:(('OK', ('Group', "
                                                             "'HV', None, [('rows', ('Variable', "
                                                             "('list', [('str', 'rows')]), "
                                                             "('list', [('int', 0), ('int', 1), "
                                                             "('int', 2), ('int', 3), ('int', "
                                                             "4)]), ('dict",
 'open_image-remote-cache-truncated-rpcNone-defaults': 'sha256:a495dee8394432f74890a97d397b908535d1783bc18df0310b7404dedfd6d5a1 '
                                                       "length:16257 start:(('EXC', "
                                                       '\'builtins.TypeError\', "unsupported '
                                                       "operand type(s) for /: 'int' and "
                                                       '\'NoneType\'", None, None, False), '
                                                       "[('open', "
                                                       "'/product/IMG-HH-ALOS2225333100-180726-W",
 'open_image-remote-cache-truncated-rpcNone-use_cache=False': 'sha256:aa3b44f3c0e050158e57e86a9e633c90bdb4f9a51ac0682c1f9f3d237234a8b1 '
                                                              "length:16114 start:(('EXC', "
                                                              "'builtins.TypeError', "
                                                              '"unsupported operand type(s) for /: '
                                                              '\'int\' and \'NoneType\'", None, '
                                                              "None, False), [('open', "
                                                              "'/product/IMG-HH-ALOS2225333100-180726-W",
 'open_image-remote-cache-truncated-rpcNone-create_cache=True': 'sha256:a495dee8394432f74890a97d397b908535d1783bc18df0310b7404dedfd6d5a1 '
                                                                "length:16257 start:(('EXC', "
                                                                "'builtins.TypeError', "
                                                                '"unsupported operand type(s) for '
                                                                '/: \'int\' and \'NoneType\'", '
                                                                "None, None, False), [('open', "
                                                                "'/product/IMG-HH-ALOS2225333100-180726-W",
 'open_image-remote-cache-empty-object-rpc2-defaults': 'sha256:27c355ed19e5a9fcc92e77c1a3b97d71ae15baf0234a81582d6bc656c0adf522 '
                                                       "length:12623 start:(('OK', ('dict', [])), "
                                                       "[('open', "
                                                       "'/product/IMG-HH-ALOS2225333100-180726-WWDR1.1__D-B3', "
                                                       "(), [('data', "
                                                       "b'\\x00\\x00\\x00\\x012\\xc0\\x12\\x12\\x00\\x00\\x02\\xd0           ",
 'open_image-remote-cache-empty-object-rpc2-use_cache=False': 'sha256:32b11f2d9894c6647b5dcf264a5d94a80c4c2bc2f1590c641e2f933b8017ca49 '
                                                              "length:20611 start:(('OK', "
                                                              "('Group', 'HV', None, [('rows', "
                                                              "('Variable', ('list', [('str', "
                                                              "'rows')]), ('list', [('int', 0), "
                                                              "('int', 1), ('int', 2), ('int', 3), "
                                                              "('int', 4)]), ('dict",
 'open_image-remote-cache-empty-object-rpc2-create_cache=True': 'sha256:27c355ed19e5a9fcc92e77c1a3b97d71ae15baf0234a81582d6bc656c0adf522 '
                                                                "length:12623 start:(('OK', "
                                                                "('dict', [])), [('open', "
                                                                "'/product/IMG-HH-ALOS2225333100-180726-WWDR1.1__D-B3', "
                                                                "(), [('data', "
                                                                "b'\\x00\\x00\\x00\\x012\\xc0\\x12\\x12\\x00\\x00\\x02\\xd0           ",
 'open_image-remote-cache-empty-object-rpcNone-defaults': 'sha256:915b4ed30470148bc72ef07a035f0dc3fb40178712916554b0b0c1140361e61f '
                                                          "length:12626 start:(('OK', ('dict', "
                                                          "[])), [('open', "
                                                          "'/product/IMG-HH-ALOS2225333100-180726-WWDR1.1__D-B3', "
                                                          "(), [('data', "
                                                          "b'\\x00\\x00\\x00\\x012\\xc0\\x12\\x12\\x00\\x00\\x02\\xd0           ",
 'open_image-remote-cache-empty-object-rpcNone-use_cache=False': 'sha256:ebcc63fbb51f969d935539976fa1d6bc513154c8928ad0e34c241ea64620c376 '
                                                                 "length:12809 start:(('EXC', "
                                                                 "'builtins.TypeError', "
                                                                 '"unsupported operand type(s) for '
                                                                 '/: \'int\' and \'NoneType\'", '
                                                                 "None, None, False), [('open', "
                                                                 "'/product/IMG-HH-ALOS2225333100-180726-W",
 'open_image-remote-cache-empty-object-rpcNone-create_cache=True': 'sha256:915b4ed30470148bc72ef07a035f0dc3fb40178712916554b0b0c1140361e61f '
                                                                   "length:12626 start:(('OK', "
                                                                   "('dict', [])), [('open', "
                                                                   "'/product/IMG-HH-ALOS2225333100-180726-WWDR1.1__D-B3', "
                                                                   "(), [('data', "
                                                                   "b'\\x00\\x00\\x00\\x012\\xc0\\x12\\x12\\x00\\x00\\x02\\xd0           ",
 'open_image-remote-cache-list-rpc2-defaults': 'sha256:80288807c575f6c21948ac1ed284541ce48d4d64c8469460ec52e2b82809f492 '
                                               "length:12708 start:(('EXC', "
                                               '\'builtins.AttributeError\', "\'list\' object has '
                                               'no attribute \'get\'", None, None, False), '
                                               "[('open', "
                                               "'/product/IMG-HH-ALOS2225333100-180726-WWDR1.1__D-B3',",
 'open_image-remote-cache-list-rpc2-use_cache=False': 'sha256:2a244580537ca0ffa65e2640f88f708529fc29cd07b4d72a735e0f2453668898 '
                                                      "length:20615 start:(('OK', ('Group', 'HV', "
                                                      "None, [('rows', ('Variable', ('list', "
                                                      "[('str', 'rows')]), ('list', [('int', 0), "
                                                      "('int', 1), ('int', 2), ('int', 3), ('int', "
                                                      "4)]), ('dict",
 'open_image-remote-cache-list-rpc2-create_cache=True': 'sha256:80288807c575f6c21948ac1ed284541ce48d4d64c8469460ec52e2b82809f492 '
                                                        "length:12708 start:(('EXC', "
                                                        '\'builtins.AttributeError\', "\'list\' '
                                                        'object has no attribute \'get\'", None, '
                                                        "None, False), [('open', "
                                                        "'/product/IMG-HH-ALOS2225333100-180726-WWDR1.1__D-B3',",
 'open_image-remote-cache-list-rpcNone-defaults': 'sha256:6cf92e484001564294e0cf022225bcab31df3890518c8761696a6a6c4d473773 '
                                                  "length:12711 start:(('EXC', "
                                                  '\'builtins.AttributeError\', "\'list\' object '
                                                  'has no attribute \'get\'", None, None, False), '
                                                  "[('open', "
                                                  "'/product/IMG-HH-ALOS2225333100-180726-WWDR1.1__D-B3',",
 'open_image-remote-cache-list-rpcNone-use_cache=False': 'sha256:e53518b1171ad40e47a942e7ba9d8133379750626802acbe146f8686e264715b '
                                                         "length:12813 start:(('EXC', "
                                                         '\'builtins.TypeError\', "unsupported '
                                                         "operand type(s) for /: 'int' and "
                                                         '\'NoneType\'", None, None, False), '
                                                         "[('open', "
                                                         "'/product/IMG-HH-ALOS2225333100-180726-W",
 'open_image-remote-cache-list-rpcNone-create_cache=True': 'sha256:6cf92e484001564294e0cf022225bcab31df3890518c8761696a6a6c4d473773 '
                                                           "length:12711 start:(('EXC', "
                                                           '\'builtins.AttributeError\', "\'list\' '
                                                           'object has no attribute \'get\'", '
                                                           "None, None, False), [('open', "
                                                           "'/product/IMG-HH-ALOS2225333100-180726-WWDR1.1__D-B3',",
 'open_image-remote-cache-null-rpc2-defaults': 'sha256:2d7fce06b4a30078cd8766badc3c393d548bc888f1da8ea406084d2857b5032e '
                                               "length:12710 start:(('EXC', "
                                               '\'builtins.AttributeError\', "\'NoneType\' object '
                                               'has no attribute \'get\'", None, None, False), '
                                               "[('open', "
                                               "'/product/IMG-HH-ALOS2225333100-180726-WWDR1.1__D-",
 'open_image-remote-cache-null-rpc2-use_cache=False': 'sha256:62aeb46265ce6edbdf4212ab37eddfb28da7bd7582f811b57d596c09f48901bf '
                                                      "length:20613 start:(('OK', ('Group', 'HV', "
                                                      "None, [('rows', ('Variable', ('list', "
                                                      "[('str', 'rows')]), ('list', [('int', 0), "
                                                      "('int', 1), ('int', 2), ('int', 3), ('int', "
                                                      "4)]), ('dict",
 'open_image-remote-cache-null-rpc2-create_cache=True': 'sha256:2d7fce06b4a30078cd8766badc3c393d548bc888f1da8ea406084d2857b5032e '
                                                        "length:12710 start:(('EXC', "
                                                        "'builtins.AttributeError', "
                                                        '"\'NoneType\' object has no attribute '
                                                        '\'get\'", None, None, False), [(\'open\', '
                                                        "'/product/IMG-HH-ALOS2225333100-180726-WWDR1.1__D-",
 'open_image-remote-cache-null-rpcNone-defaults': 'sha256:b1820bf100d2761d050bcee93ecccc8cc7cea959e2477ed6eab3aafe98fd254c '
                                                  "length:12713 start:(('EXC', "
                                                  '\'builtins.AttributeError\', "\'NoneType\' '
                                                  'object has no attribute \'get\'", None, None, '
                                                  "False), [('open', "
                                                  "'/product/IMG-HH-ALOS2225333100-180726-WWDR1.1__D-",
 'open_image-remote-cache-null-rpcNone-use_cache=False': 'sha256:53ae3bc5cdce1d32dbec487c173a8e4a216bcb77fe51ccbb4e78b47ede36122d '
                                                         "length:12811 start:(('EXC', "
                                                         '\'builtins.TypeError\', "unsupported '
                                                         "operand type(s) for /: 'int' and "
                                                         '\'NoneType\'", None, None, False), '
                                                         "[('open', "
                                                         "'/product/IMG-HH-ALOS2225333100-180726-W",
 'open_image-remote-cache-null-rpcNone-create_cache=True': 'sha256:b1820bf100d2761d050bcee93ecccc8cc7cea959e2477ed6eab3aafe98fd254c '
                                                           "length:12713 start:(('EXC', "
                                                           "'builtins.AttributeError', "
                                                           '"\'NoneType\' object has no attribute '
                                                           '\'get\'", None, None, False), '
                                                           "[('open', "
                                                           "'/product/IMG-HH-ALOS2225333100-180726-WWDR1.1__D-",
 'open_image-remote-cache-number-rpc2-defaults': 'sha256:26c281f211fc4cc4a5278ada0b5729d9548587d79f81aba4f2b0547d51f7d3ac '
                                                 "length:12702 start:(('EXC', "
                                                 '\'builtins.AttributeError\', "\'int\' object has '
                                                 'no attribute \'get\'", None, None, False), '
                                                 "[('open', "
                                                 "'/product/IMG-HH-ALOS2225333100-180726-WWDR1.1__D-B3', ",
 'open_image-remote-cache-number-rpc2-use_cache=False': 'sha256:7937fd2f21f68b76ba81ba43984bd26b543dbb9eb0fde73f6b1476bf075d7c9b '
                                                        "length:20610 start:(('OK', ('Group', "
                                                        "'HV', None, [('rows', ('Variable', "
                                                        "('list', [('str', 'rows')]), ('list', "
                                                        "[('int', 0), ('int', 1), ('int', 2), "
                                                        "('int', 3), ('int', 4)]), ('dict",
 'open_image-remote-cache-number-rpc2-create_cache=True': 'sha256:26c281f211fc4cc4a5278ada0b5729d9548587d79f81aba4f2b0547d51f7d3ac '
                                                          "length:12702 start:(('EXC', "
                                                          '\'builtins.AttributeError\', "\'int\' '
                                                          'object has no attribute \'get\'", None, '
                                                          "None, False), [('open', "
                                                          "'/product/IMG-HH-ALOS2225333100-180726-WWDR1.1__D-B3', ",
 'open_image-remote-cache-number-rpcNone-defaults': 'sha256:2b67f62d6eb4e08026585770a04b7394e7937fd6ad145df0159a3526105658dc '
                                                    "length:12705 start:(('EXC', "
                                                    '\'builtins.AttributeError\', "\'int\' object '
                                                    'has no attribute \'get\'", None, None, '
                                                    "False), [('open', "
                                                    "'/product/IMG-HH-ALOS2225333100-180726-WWDR1.1__D-B3', ",
 'open_image-remote-cache-number-rpcNone-use_cache=False': 'sha256:b2cdc6eb4edd794e13a053ae95f57017e384e12592ebca5c121eb581977193b4 '
                                                           "length:12808 start:(('EXC', "
                                                           '\'builtins.TypeError\', "unsupported '
                                                           "operand type(s) for /: 'int' and "
                                                           '\'NoneType\'", None, None, False), '
                                                           "[('open', "
                                                           "'/product/IMG-HH-ALOS2225333100-180726-W",
 'open_image-remote-cache-number-rpcNone-create_cache=True': 'sha256:2b67f62d6eb4e08026585770a04b7394e7937fd6ad145df0159a3526105658dc '
                                                             "length:12705 start:(('EXC', "
                                                             "'builtins.AttributeError', "
                                                             '"\'int\' object has no attribute '
                                                             '\'get\'", None, None, False), '
                                                             "[('open', "
                                                             "'/product/IMG-HH-ALOS2225333100-180726-WWDR1.1__D-B3', ",
 'open_image-remote-cache-string-rpc2-defaults': 'sha256:38a6e585cbf963fcddf6c27e35ed0f792553b6663cbd127f41dd7dadafc6fb93 '
                                                 "length:12706 start:(('EXC', "
                                                 '\'builtins.AttributeError\', "\'str\' object has '
                                                 'no attribute \'get\'", None, None, False), '
                                                 "[('open', "
                                                 "'/product/IMG-HH-ALOS2225333100-180726-WWDR1.1__D-B3', ",
 'open_image-remote-cache-string-rpc2-use_cache=False': 'sha256:466b8e3de5e15cbc85b9152c8c718189a2b80f4a5c0171471a9106689c73af4f '
                                                        "length:20614 start:(('OK', ('Group', "
                                                        "'HV', None, [('rows', ('Variable', "
                                                        "('list', [('str', 'rows')]), ('list', "
                                                        "[('int', 0), ('int', 1), ('int', 2), "
                                                        "('int', 3), ('int', 4)]), ('dict",
 'open_image-remote-cache-string-rpc2-create_cache=True': 'sha256:38a6e585cbf963fcddf6c27e35ed0f792553b6663cbd127f41dd7dadafc6fb93 '
                                                          "length:12706 start:(('EXC', "
                                                          '\'builtins.AttributeError\', "\'str\' '
                                                          'object has no attribute \'get\'", None, '
                                                          "None, False), [('open', "
                                                          "'/product/IMG-HH-ALOS2225333100-180726-WWDR1.1__D-B3', ",
 'open_image-remote-cache-string-rpcNone-defaults': 'sha256:958ebec79112b4a48c827d147d961fdf6884f19d9967736a018f4f253d9f6d83 '
                                                    "length:12709 start:(('EXC', "
                                                    '\'builtins.AttributeError\', "\'str\' object '
                                                    'has no attribute \'get\'", None, None, '
                                                    "False), [('open', "
                                                    "'/product/IMG-HH-ALOS2225333100-180726-WWDR1.1__D-B3', ",
 'open_image-remote-cache-string-rpcNone-use_cache=False': 'sha256:e1b4f7a1e1e14b1a81fd2a9e0861380ec26702238adaeb75fee284f3cab3798a '
                                                           "length:12812 start:(('EXC', "
                                                           '\'builtins.TypeError\', "unsupported '
                                                           "operand type(s) for /: 'int' and "
                                                           '\'NoneType\'", None, None, False), '
                                                           "[('open', "
                                                           "'/product/IMG-HH-ALOS2225333100-180726-W",
 'open_image-remote-cache-string-rpcNone-create_cache=True': 'sha256:958ebec79112b4a48c827d147d961fdf6884f19d9967736a018f4f253d9f6d83 '
                                                             "length:12709 start:(('EXC', "
                                                             "'builtins.AttributeError', "
                                                             '"\'str\' object has no attribute '
                                                             '\'get\'", None, None, False), '
                                                             "[('open', "
                                                             "'/product/IMG-HH-ALOS2225333100-180726-WWDR1.1__D-B3', ",
 'open_image-remote-cache-variable-rpc2-defaults': 'sha256:1efc3adbba141a5bee143782b665815ccf98e6a596b424d9feedee8d3e416e80 '
                                                   "length:12829 start:(('OK', ('Variable', "
                                                   "('list', [('str', 'x')]), ('ndarray', 'int8', "
                                                   "(1,), ('list', [('int', 1)])), ('dict', []))), "
                                                   "[('open', '/product/IMG-HH-ALOS2225333100-1807",
 'open_image-remote-cache-variable-rpc2-use_cache=False': 'sha256:135d6dddf85738eb3edf94bb543f03c9930a3f705501cec3d3098a2f8e0c4c87 '
                                                          "length:20722 start:(('OK', ('Group', "
                                                          "'HV', None, [('rows', ('Variable', "
                                                          "('list', [('str', 'rows')]), ('list', "
                                                          "[('int', 0), ('int', 1), ('int', 2), "
                                                          "('int', 3), ('int', 4)]), ('dict",
 'open_image-remote-cache-variable-rpc2-create_cache=True': 'sha256:1efc3adbba141a5bee143782b665815ccf98e6a596b424d9feedee8d3e416e80 '
                                                            "length:12829 start:(('OK', "
                                                            "('Variable', ('list', [('str', "
                                                            "'x')]), ('ndarray', 'int8', (1,), "
                                                            "('list', [('int', 1)])), ('dict', "
                                                            "[]))), [('open', "
                                                            "'/product/IMG-HH-ALOS2225333100-1807",
 'open_image-remote-cache-variable-rpcNone-defaults': 'sha256:c53dc07fbee2b525e9542936082d2432ee3f27f0f1fae035386b374b7530cab1 '
                                                      "length:12832 start:(('OK', ('Variable', "
                                                      "('list', [('str', 'x')]), ('ndarray', "
                                                      "'int8', (1,), ('list', [('int', 1)])), "
                                                      "('dict', []))), [('open', "
                                                      "'/product/IMG-HH-ALOS2225333100-1807",
 'open_image-remote-cache-variable-rpcNone-use_cache=False': 'sha256:8837f731e0f6951f5e80b7b45c30d53fdb5f68adbcdccecf9a64897599122214 '
                                                             "length:12920 start:(('EXC', "
                                                             '\'builtins.TypeError\', "unsupported '
                                                             "operand type(s) for /: 'int' and "
                                                             '\'NoneType\'", None, None, False), '
                                                             "[('open', "
                                                             "'/product/IMG-HH-ALOS2225333100-180726-W",
 'open_image-remote-cache-variable-rpcNone-create_cache=True': 'sha256:c53dc07fbee2b525e9542936082d2432ee3f27f0f1fae035386b374b7530cab1 '
                                                               "length:12832 start:(('OK', "
                                                               "('Variable', ('list', [('str', "
                                                               "'x')]), ('ndarray', 'int8', (1,), "
                                                               "('list', [('int', 1)])), ('dict', "
                                                               "[]))), [('open', "
                                                               "'/product/IMG-HH-ALOS2225333100-1807",
 'open_image-remote-cache-incomplete-group-rpc2-defaults': 'sha256:74604607cba0b1a519d151a1ea7a26d74b3d0196b3476547ad25b0d44c51f411 '
                                                           "length:12694 start:(('EXC', "
                                                           '\'builtins.KeyError\', "\'data\'", '
                                                           "None, None, False), [('open', "
                                                           "'/product/IMG-HH-ALOS2225333100-180726-WWDR1.1__D-B3', "
                                                           "(), [('data', "
                                                           "b'\\x00\\x00\\x00\\x012\\x",
 'open_image-remote-cache-incomplete-group-rpc2-use_cache=False': 'sha256:be10a7d2ebd87e8b49a81833744542d373a6c0128b1f13eecf07cf71ce902ace '
                                                                  "length:20643 start:(('OK', "
                                                                  "('Group', 'HV', None, [('rows', "
                                                                  "('Variable', ('list', [('str', "
                                                                  "'rows')]), ('list', [('int', "
                                                                  "0), ('int', 1), ('int', 2), "
                                                                  "('int', 3), ('int', 4)]), "
                                                                  "('dict",
 'open_image-remote-cache-incomplete-group-rpc2-create_cache=True': 'sha256:74604607cba0b1a519d151a1ea7a26d74b3d0196b3476547ad25b0d44c51f411 '
                                                                    "length:12694 start:(('EXC', "
                                                                    "'builtins.KeyError', "
                                                                    '"\'data\'", None, None, '
                                                                    "False), [('open', "
                                                                    "'/product/IMG-HH-ALOS2225333100-180726-WWDR1.1__D-B3', "
                                                                    "(), [('data', "
                                                                    "b'\\x00\\x00\\x00\\x012\\x",
 'open_image-remote-cache-incomplete-group-rpcNone-defaults': 'sha256:70cdd43b85ead08ed2bc7238171f7fa40157c41a438afabdaf5960f8329a5253 '
                                                              "length:12697 start:(('EXC', "
                                                              '\'builtins.KeyError\', "\'data\'", '
                                                              "None, None, False), [('open', "
                                                              "'/product/IMG-HH-ALOS2225333100-180726-WWDR1.1__D-B3', "
                                                              "(), [('data', "
                                                              "b'\\x00\\x00\\x00\\x012\\x",
 'open_image-remote-cache-incomplete-group-rpcNone-use_cache=False': 'sha256:c0851ef9d3e866a9eb24ffb99d566cbcafd326af11e818ee53fb2012a47775ff '
                                                                     "length:12841 start:(('EXC', "
                                                                     "'builtins.TypeError', "
                                                                     '"unsupported operand type(s) '
                                                                     "for /: 'int' and "
                                                                     '\'NoneType\'", None, None, '
                                                                     "False), [('open', "
                                                                     "'/product/IMG-HH-ALOS2225333100-180726-W",
 'open_image-remote-cache-incomplete-group-rpcNone-create_cache=True': 'sha256:70cdd43b85ead08ed2bc7238171f7fa40157c41a438afabdaf5960f8329a5253 '
                                                                       'length:12697 '
                                                                       "start:(('EXC', "
                                                                       "'builtins.KeyError', "
                                                                       '"\'data\'", None, None, '
                                                                       "False), [('open', "
                                                                       "'/product/IMG-HH-ALOS2225333100-180726-WWDR1.1__D-B3', "
                                                                       "(), [('data', "
                                                                       "b'\\x00\\x00\\x00\\x012\\x",
 'open_image-remote-cache-tuple-rpc2-defaults': 'sha256:f3c7f54cb05e0a4387bb8dd401e3a229109ac1d62884be2073899bf0739608a5 '
                                                "length:12740 start:(('EXC', "
                                                '\'builtins.AttributeError\', "\'tuple\' object '
                                                'has no attribute \'get\'", None, None, False), '
                                                "[('open', "
                                                "'/product/IMG-HH-ALOS2225333100-180726-WWDR1.1__D-B3'",
 'open_image-remote-cache-tuple-rpc2-use_cache=False': 'sha256:6f5ee1638a610f9ac0ea979417f2af8427ec84c72b9ac822f9e897e4c88455e2 '
                                                       "length:20646 start:(('OK', ('Group', 'HV', "
                                                       "None, [('rows', ('Variable', ('list', "
                                                       "[('str', 'rows')]), ('list', [('int', 0), "
                                                       "('int', 1), ('int', 2), ('int', 3), "
                                                       "('int', 4)]), ('dict",
 'open_image-remote-cache-tuple-rpc2-create_cache=True': 'sha256:f3c7f54cb05e0a4387bb8dd401e3a229109ac1d62884be2073899bf0739608a5 '
                                                         "length:12740 start:(('EXC', "
                                                         '\'builtins.AttributeError\', "\'tuple\' '
                                                         'object has no attribute \'get\'", None, '
                                                         "None, False), [('open', "
                                                         "'/product/IMG-HH-ALOS2225333100-180726-WWDR1.1__D-B3'",
 'open_image-remote-cache-tuple-rpcNone-defaults': 'sha256:2db149dd4a4b2357b6cab93e02517e55f7840cea05db2ddac220c0580900d286 '
                                                   "length:12743 start:(('EXC', "
                                                   '\'builtins.AttributeError\', "\'tuple\' object '
                                                   'has no attribute \'get\'", None, None, False), '
                                                   "[('open', "
                                                   "'/product/IMG-HH-ALOS2225333100-180726-WWDR1.1__D-B3'",
 'open_image-remote-cache-tuple-rpcNone-use_cache=False': 'sha256:29e632bc19d62271f3fdaec3ef1711ed93d2029194b955b32aa644c3d9e5426f '
                                                          "length:12844 start:(('EXC', "
                                                          '\'builtins.TypeError\', "unsupported '
                                                          "operand type(s) for /: 'int' and "
                                                          '\'NoneType\'", None, None, False), '
                                                          "[('open', "
                                                          "'/product/IMG-HH-ALOS2225333100-180726-W",
 'open_image-remote-cache-tuple-rpcNone-create_cache=True': 'sha256:2db149dd4a4b2357b6cab93e02517e55f7840cea05db2ddac220c0580900d286 '
                                                            "length:12743 start:(('EXC', "
                                                            "'builtins.AttributeError', "
                                                            '"\'tuple\' object has no attribute '
                                                            '\'get\'", None, None, False), '
                                                            "[('open', "
                                                            "'/product/IMG-HH-ALOS2225333100-180726-WWDR1.1__D-B3'",
 'open_image-remote-cache-not-utf8-rpc2-defaults': 'sha256:20d3b4ffe15d995a2429caeb6db0327ab14aa1369604978a37787a8e4ffd94b3 '
                                                   "length:12752 start:(('EXC', "
                                                   '\'builtins.UnicodeDecodeError\', "\'utf-8\' '
                                                   "codec can't decode byte 0xff in position 0: "
                                                   'invalid start byte", None, None, False), '
                                                   "[('open', '/product/IMG-HH",
 'open_image-remote-cache-not-utf8-rpc2-use_cache=False': 'sha256:56d2cde31548e88824f632a5b30d14bad7de50229dbc78276fa34c2790c6cb0b '
                                                          "length:20617 start:(('OK', ('Group', "
                                                          "'HV', None, [('rows', ('Variable', "
                                                          "('list', [('str', 'rows')]), ('list', "
                                                          "[('int', 0), ('int', 1), ('int', 2), "
                                                          "('int', 3), ('int', 4)]), ('dict",
 'open_image-remote-cache-not-utf8-rpc2-create_cache=True': 'sha256:20d3b4ffe15d995a2429caeb6db0327ab14aa1369604978a37787a8e4ffd94b3 '
                                                            "length:12752 start:(('EXC', "
                                                            "'builtins.UnicodeDecodeError', "
                                                            '"\'utf-8\' codec can\'t decode byte '
                                                            '0xff in position 0: invalid start '
                                                            'byte", None, None, False), '
                                                            "[('open', '/product/IMG-HH",
 'open_image-remote-cache-not-utf8-rpcNone-defaults': 'sha256:84546645c41e9d4a3b03bd77d62cf17b824d77ddf5faeeeaa18a6f73db382ad1 '
                                                      "length:12755 start:(('EXC', "
                                                      '\'builtins.UnicodeDecodeError\', "\'utf-8\' '
                                                      "codec can't decode byte 0xff in position 0: "
                                                      'invalid start byte", None, None, False), '
                                                      "[('open', '/product/IMG-HH",
 'open_image-remote-cache-not-utf8-rpcNone-use_cache=False': 'sha256:c95c8429c800c862dbc595aa55a7e49167ec59709c64f70e00c84354868694dd '
                                                             "length:12815 start:(('EXC', "
                                                             '\'builtins.TypeError\', "unsupported '
                                                             "operand type(s) for /: 'int' and "
                                                             '\'NoneType\'", None, None, False), '
                                                             "[('open', "
                                                             "'/product/IMG-HH-ALOS2225333100-180726-W",
 'open_image-remote-cache-not-utf8-rpcNone-create_cache=True': 'sha256:84546645c41e9d4a3b03bd77d62cf17b824d77ddf5faeeeaa18a6f73db382ad1 '
                                                               "length:12755 start:(('EXC', "
                                                               "'builtins.UnicodeDecodeError', "
                                                               '"\'utf-8\' codec can\'t decode '
                                                               'byte 0xff in position 0: invalid '
                                                               'start byte", None, None, False), '
                                                               "[('open', '/product/IMG-HH",
 'open_image-local-cache': 'sha256:e44970daaab8d8792e71c18c3b99f650458c77831a54110bc257c0143e24aa7e '
                           "length:103105 start:[(0, ('OK', ('Group', 'HV', None, [('rows', "
                           "('Variable', ('list', [('str', 'rows')]), ('list', [('int', 0), "
                           "('int', 1), ('int', 2), ('int', 3), ('int', 4)]), ('",
 'open_image-invalid-local-cache': 'sha256:70f2deb235ae1fc88c8e5616bdb48e2e11ee283c6ac12f5277d9094570e8098c '
                                   "length:7916 start:(('OK', ('Group', 'HV', None, [('rows', "
                                   "('Variable', ('list', [('str', 'rows')]), ('list', [('int', "
                                   "0), ('int', 1), ('int', 2), ('int', 3), ('int', 4)]), ('dict",
 'open_image-read_cache-raises-CachingError': 'sha256:5f46b8ec8d1659c8a6e5b6cb9332fc5d53d9b0b633c6689025ff2a6c1e4d5f8b '
                                              "length:20208 start:(('OK', ('Group', 'HV', None, "
                                              "[('rows', ('Variable', ('list', [('str', 'rows')]), "
                                              "('list', [('int', 0), ('int', 1), ('int', 2), "
                                              "('int', 3), ('int', 4)]), ('dict",
 'open_image-read_cache-raises-CachingError-then-missing': "(('EXC', 'builtins.FileNotFoundError', "
                                                           "'/product/IMG-VV-ALOS2225333100-180726-WWDR1.1__D-F1', "
                                                           "None, None, False), [('open', "
                                                           "'/product/IMG-VV-ALOS2225333100-180726-WWDR1.1__D-F1', "
                                                           "(), [('mode', 'rb')])], [])",
 'open_image-read_cache-raises-FileNotFoundError': 'sha256:b1073998b32c93d0bc405e99463b8a75af55aa87eb620ddc9524cec36360a61e '
                                                   "length:12429 start:(('EXC', "
                                                   "'builtins.FileNotFoundError', 'no file', None, "
                                                   "None, False), [('open', "
                                                   "'/product/IMG-HH-ALOS2225333100-180726-WWDR1.1__D-B3', "
                                                   "(), [('data', b'\\x00\\x00\\",
 'open_image-read_cache-raises-FileNotFoundError-then-missing': "(('EXC', "
                                                                "'builtins.FileNotFoundError', 'no "
                                                                "file', None, None, False), [], "
                                                                '[])',
 'open_image-read_cache-raises-OSError': 'sha256:445e7d423f3ac3f0759e6684958fe87ce7cc7b0781ad6e7e341eeda9ca1d68c7 '
                                         "length:12421 start:(('EXC', 'builtins.OSError', 'no "
                                         "device', None, None, False), [('open', "
                                         "'/product/IMG-HH-ALOS2225333100-180726-WWDR1.1__D-B3', "
                                         "(), [('data', b'\\x00\\x00\\x00\\x012",
 'open_image-read_cache-raises-OSError-then-missing': "(('EXC', 'builtins.OSError', 'no device', "
                                                      'None, None, False), [], [])',
 'open_image-read_cache-raises-ValueError': 'sha256:dd9232cd99239117ff860b0c3ff4397ed908139e6cd60b6af43de8c9b7d72354 '
                                            "length:12423 start:(('EXC', 'builtins.ValueError', "
                                            "'no value', None, None, False), [('open', "
                                            "'/product/IMG-HH-ALOS2225333100-180726-WWDR1.1__D-B3', "
                                            "(), [('data', b'\\x00\\x00\\x00\\x0",
 'open_image-read_cache-raises-ValueError-then-missing': "(('EXC', 'builtins.ValueError', 'no "
                                                         "value', None, None, False), [], [])",
 'open_image-read_cache-raises-KeyError': 'sha256:14b8dfdd9c0c30110466dc5e3aecd0a0de33c0eb899bb0d0931f1436cebe646c '
                                          "length:12421 start:(('EXC', 'builtins.KeyError', "
                                          '"\'no key\'", None, None, False), [(\'open\', '
                                          "'/product/IMG-HH-ALOS2225333100-180726-WWDR1.1__D-B3', "
                                          "(), [('data', b'\\x00\\x00\\x00\\x012",
 'open_image-read_cache-raises-KeyError-then-missing': '((\'EXC\', \'builtins.KeyError\', "\'no '
                                                       'key\'", None, None, False), [], [])',
 'open_image-read_cache-raises-SubCachingError': 'sha256:5f46b8ec8d1659c8a6e5b6cb9332fc5d53d9b0b633c6689025ff2a6c1e4d5f8b '
                                                 "length:20208 start:(('OK', ('Group', 'HV', None, "
                                                 "[('rows', ('Variable', ('list', [('str', "
                                                 "'rows')]), ('list', [('int', 0), ('int', 1), "
                                                 "('int', 2), ('int', 3), ('int', 4)]), ('dict",
 'open_image-read_cache-raises-SubCachingError-then-missing': "(('EXC', "
                                                              "'builtins.FileNotFoundError', "
                                                              "'/product/IMG-VV-ALOS2225333100-180726-WWDR1.1__D-F1', "
                                                              "None, None, False), [('open', "
                                                              "'/product/IMG-VV-ALOS2225333100-180726-WWDR1.1__D-F1', "
                                                              "(), [('mode', 'rb')])], [])",
 'open_image-other-error-class': "('EXC', 'ceos_alos2.sar_image.caching.CachingError', 'no cache "
                                 "found for IMG-HV-ALOS2290760600-191011-WWDR1.5RUA', None, None, "
                                 'False)',
 'open_image-independent': "(False, False, False, False, True, True, 'HV', (5, 4), {'rows': 2, "
                           "'columns': 4})",
 'open_image-values': "('OK', ('ndarray', 'uint16', (5, 4), ('list', [('list', [('int', 2560), "
                      "('int', 13573), ('int', 51871), ('int', 30060)]), ('list', [('int', 18000), "
                      "('int', 24280), ('int', 46523), ('int', 34275)]), ('list', [('int', 10265), "
                      "('int', 63435), ('int', 62170), ('int', 27723)]), ('list', [('int', 45348), "
                      "('int', 54453), ('int', 19032), ('int', 58531)]), ('list', [('int', 34846), "
                      "('int', 39503), ('int', 32068), ('int', 48823)])])))",
 'open_image-values-row': "('OK', ('ndarray', 'uint16', (2,), ('list', [('int', 54453), ('int', "
                          '19032)])))',
 'signatures': 'sha256:2e5581bd8af56876e45547e8eed7782b12733910384417372aed256d3f60c537 length:525 '
               'start:[(\'open_image\', [(\'mapper\', \'POSITIONAL_OR_KEYWORD\', "<class '
               '\'inspect._empty\'>"), (\'path\', \'POSITIONAL_OR_KEYWORD\', "<class '
               '\'inspect._empty\'>"), (\'use_cache\', \'',
 'open_image-curried': 'sha256:c48103bf89aabfeab29face7b6bab76e7a0af08fc5c4da86556d99b2c8599f06 '
                       "length:18837 start:('OK', ('list', [('Group', 'HH_scan3', None, [('rows', "
                       "('Variable', ('list', [('str', 'rows')]), ('list', [('int', 0), ('int', "
                       "1), ('int', 2)]), ('dict', []))),",
 'open_image-curried-incomplete': "'curry'",
 'names': "['Array', 'CachingError', 'Variable', 'caching', 'decode_filename', 'enums', "
          "'file_descriptor', 'filename_to_groupname', 'io', 'metadata', 'open_image', "
          "'processed_data', 'read_metadata', 'signal_data', 'transform_metadata']",
 'transform_metadata-IU2-none': "(('OK', ('tuple', [('Group', '/', None, [], ('dict', [(('str', "
                                "'coordinates'), ('list', []))])), ('dict', [(('str', "
                                "'type_code'), ('str', 'IU2')), (('str', 'shape'), ('tuple', "
                                "[('int', 2), ('int', 4)])), (('str', 'dtype'), ('str', "
                                "'uint16')), (('str', 'byte_ranges'), ('list', []))])])), True)",
 'transform_metadata-IU2-data-only': "(('OK', ('tuple', [('Group', '/', None, [], ('dict', "
                                     "[(('str', 'coordinates'), ('list', []))])), ('dict', "
                                     "[(('str', 'type_code'), ('str', 'IU2')), (('str', 'shape'), "
                                     "('tuple', [('int', 2), ('int', 4)])), (('str', 'dtype'), "
                                     "('str', 'uint16')), (('str', 'byte_ranges'), ('list', "
                                     "[('tuple', [('int', 1), ('int', 5)]), ('tuple', [('int', 6), "
                                     "('int', 10)])]))])])), True)",
 'transform_metadata-IU2-data-extra': "(('OK', ('tuple', [('Group', '/', None, [], ('dict', "
                                      "[(('str', 'coordinates'), ('list', []))])), ('dict', "
                                      "[(('str', 'type_code'), ('str', 'IU2')), (('str', 'shape'), "
                                      "('tuple', [('int', 2), ('int', 4)])), (('str', 'dtype'), "
                                      "('str', 'uint16')), (('str', 'byte_ranges'), ('list', "
                                      "[('tuple', [('int', 1), ('int', 5)])]))])])), True)",
 'transform_metadata-IU2-data-tuple-values': "(('OK', ('tuple', [('Group', '/', None, [], ('dict', "
                                             "[(('str', 'coordinates'), ('list', []))])), ('dict', "
                                             "[(('str', 'type_code'), ('str', 'IU2')), (('str', "
                                             "'shape'), ('tuple', [('int', 2), ('int', 4)])), "
                                             "(('str', 'dtype'), ('str', 'uint16')), (('str', "
                                             "'byte_ranges'), ('list', [('tuple', [('tuple', "
                                             "[('int', 1)]), None])]))])])), True)",
 'transform_metadata-IU2-fields': 'sha256:bfec46a7af70832b43c24c034e8dedf45027d02a79dcb25a21c5aa60efcc42c0 '
                                  "length:644 start:(('OK', ('tuple', [('Group', '/', None, "
                                  "[('rows', ('Variable', ('list', [('str', 'rows')]), ('list', "
                                  "[('int', 1), ('int', 2)]), ('dict', []))), ('a', ('Variable",
 'transform_metadata-IU2-missing-data': '((\'EXC\', \'builtins.KeyError\', "\'data\'", None, None, '
                                        'False), True)',
 'transform_metadata-IU2-missing-data-later': '((\'EXC\', \'builtins.KeyError\', "\'data\'", None, '
                                              'None, False), True)',
 'transform_metadata-IU2-missing-start': '((\'EXC\', \'builtins.KeyError\', "\'start\'", None, '
                                         'None, False), True)',
 'transform_metadata-IU2-missing-stop': '((\'EXC\', \'builtins.KeyError\', "\'stop\'", None, None, '
                                        'False), True)',
 'transform_metadata-IU2-missing-both': '((\'EXC\', \'builtins.KeyError\', "\'start\'", None, '
                                        'None, False), True)',
 'transform_metadata-IU2-data-list': "(('EXC', 'builtins.TypeError', 'list indices must be "
                                     "integers or slices, not str', None, None, False), True)",
 'transform_metadata-IU2-data-str': '((\'EXC\', \'builtins.TypeError\', "string indices must be '
                                    'integers, not \'str\'", None, None, False), True)',
 'transform_metadata-IU2-data-none': '((\'EXC\', \'builtins.TypeError\', "\'NoneType\' object is '
                                     'not subscriptable", None, None, False), True)',
 'transform_metadata-IU2-line-none': '((\'EXC\', \'builtins.TypeError\', "\'NoneType\' object is '
                                     'not subscriptable", None, None, False), True)',
 'transform_metadata-IU2-line-list': "(('EXC', 'builtins.TypeError', 'list indices must be "
                                     "integers or slices, not str', None, None, False), True)",
 'transform_metadata-IU2-coordinates-field': "(('OK', ('tuple', [('Group', '/', None, "
                                             "[('coordinates', ('Variable', ('list', [('str', "
                                             "'rows')]), ('list', [('int', 1), ('int', 2)]), "
                                             "('dict', [])))], ('dict', [(('str', 'coordinates'), "
                                             "('list', [('str', 'coordinates')]))])), ('dict', "
                                             "[(('str', 'type_code'), ('str', 'IU2')), (('str', "
                                             "'shape'), ('tuple', [('int', 2), ('int', 4)])), "
                                             "(('str', 'dtype'), ('str', 'uint16')), (('str', "
                                             "'byte_ranges'), ('list', [('tuple', [('int', 1), "
                                             "('int', 5)]), ('tuple', [('int', 6), ('int', "
                                             '10)])]))])])), True)',
 'transform_metadata-IU2-header-attr-field': 'sha256:437304cd7d09fa92948094b84c758165cea834f0ab84902f9d37234fb7659e15 '
                                             "length:638 start:(('OK', ('tuple', [('Group', '/', "
                                             "None, [('interleaving_id', ('Variable', ('list', "
                                             "[('str', 'rows')]), ('list', [('int', 1), ('int', "
                                             "2)]), ('dict', []))), ('val",
 'transform_metadata-C*8-none': "(('OK', ('tuple', [('Group', '/', None, [], ('dict', [(('str', "
                                "'coordinates'), ('list', []))])), ('dict', [(('str', "
                                "'type_code'), ('str', 'C*8')), (('str', 'shape'), ('tuple', "
                                "[('int', 6), ('int', 3)])), (('str', 'dtype'), ('str', "
                                "'complex64')), (('str', 'byte_ranges'), ('list', []))])])), True)",
 'transform_metadata-C*8-data-only': "(('OK', ('tuple', [('Group', '/', None, [], ('dict', "
                                     "[(('str', 'coordinates'), ('list', []))])), ('dict', "
                                     "[(('str', 'type_code'), ('str', 'C*8')), (('str', 'shape'), "
                                     "('tuple', [('int', 6), ('int', 3)])), (('str', 'dtype'), "
                                     "('str', 'complex64')), (('str', 'byte_ranges'), ('list', "
                                     "[('tuple', [('int', 1), ('int', 5)]), ('tuple', [('int', 6), "
                                     "('int', 10)])]))])])), True)",
 'transform_metadata-C*8-data-extra': "(('OK', ('tuple', [('Group', '/', None, [], ('dict', "
                                      "[(('str', 'coordinates'), ('list', []))])), ('dict', "
                                      "[(('str', 'type_code'), ('str', 'C*8')), (('str', 'shape'), "
                                      "('tuple', [('int', 6), ('int', 3)])), (('str', 'dtype'), "
                                      "('str', 'complex64')), (('str', 'byte_ranges'), ('list', "
                                      "[('tuple', [('int', 1), ('int', 5)])]))])])), True)",
 'transform_metadata-C*8-data-tuple-values': "(('OK', ('tuple', [('Group', '/', None, [], ('dict', "
                                             "[(('str', 'coordinates'), ('list', []))])), ('dict', "
                                             "[(('str', 'type_code'), ('str', 'C*8')), (('str', "
                                             "'shape'), ('tuple', [('int', 6), ('int', 3)])), "
                                             "(('str', 'dtype'), ('str', 'complex64')), (('str', "
                                             "'byte_ranges'), ('list', [('tuple', [('tuple', "
                                             "[('int', 1)]), None])]))])])), True)",
 'transform_metadata-C*8-fields': 'sha256:c8421a2532c5387fb052513cf66d81b46e1e3a117757677152ee696c48d63f73 '
                                  "length:647 start:(('OK', ('tuple', [('Group', '/', None, "
                                  "[('rows', ('Variable', ('list', [('str', 'rows')]), ('list', "
                                  "[('int', 1), ('int', 2)]), ('dict', []))), ('a', ('Variable",
 'transform_metadata-C*8-missing-data': '((\'EXC\', \'builtins.KeyError\', "\'data\'", None, None, '
                                        'False), True)',
 'transform_metadata-C*8-missing-data-later': '((\'EXC\', \'builtins.KeyError\', "\'data\'", None, '
                                              'None, False), True)',
 'transform_metadata-C*8-missing-start': '((\'EXC\', \'builtins.KeyError\', "\'start\'", None, '
                                         'None, False), True)',
 'transform_metadata-C*8-missing-stop': '((\'EXC\', \'builtins.KeyError\', "\'stop\'", None, None, '
                                        'False), True)',
 'transform_metadata-C*8-missing-both': '((\'EXC\', \'builtins.KeyError\', "\'start\'", None, '
                                        'None, False), True)',
 'transform_metadata-C*8-data-list': "(('EXC', 'builtins.TypeError', 'list indices must be "
                                     "integers or slices, not str', None, None, False), True)",
 'transform_metadata-C*8-data-str': '((\'EXC\', \'builtins.TypeError\', "string indices must be '
                                    'integers, not \'str\'", None, None, False), True)',
 'transform_metadata-C*8-data-none': '((\'EXC\', \'builtins.TypeError\', "\'NoneType\' object is '
                                     'not subscriptable", None, None, False), True)',
 'transform_metadata-C*8-line-none': '((\'EXC\', \'builtins.TypeError\', "\'NoneType\' object is '
                                     'not subscriptable", None, None, False), True)',
 'transform_metadata-C*8-line-list': "(('EXC', 'builtins.TypeError', 'list indices must be "
                                     "integers or slices, not str', None, None, False), True)",
 'transform_metadata-C*8-coordinates-field': "(('OK', ('tuple', [('Group', '/', None, "
                                             "[('coordinates', ('Variable', ('list', [('str', "
                                             "'rows')]), ('list', [('int', 1), ('int', 2)]), "
                                             "('dict', [])))], ('dict', [(('str', 'coordinates'), "
                                             "('list', [('str', 'coordinates')]))])), ('dict', "
                                             "[(('str', 'type_code'), ('str', 'C*8')), (('str', "
                                             "'shape'), ('tuple', [('int', 6), ('int', 3)])), "
                                             "(('str', 'dtype'), ('str', 'complex64')), (('str', "
                                             "'byte_ranges'), ('list', [('tuple', [('int', 1), "
                                             "('int', 5)]), ('tuple', [('int', 6), ('int', "
                                             '10)])]))])])), True)',
 'transform_metadata-C*8-header-attr-field': 'sha256:67aba41bc456670bdc7dc9da8d425e7aeee985518cdc66fc9347fa8d0146d452 '
                                             "length:641 start:(('OK', ('tuple', [('Group', '/', "
                                             "None, [('interleaving_id', ('Variable', ('list', "
                                             "[('str', 'rows')]), ('list', [('int', 1), ('int', "
                                             "2)]), ('dict', []))), ('val",
 'transform_metadata-F*4-none': "(('EXC', 'builtins.ValueError', 'unknown type code: F*4', None, "
                                'None, False), True)',
 'transform_metadata-F*4-data-only': "(('EXC', 'builtins.ValueError', 'unknown type code: F*4', "
                                     'None, None, False), True)',
 'transform_metadata-F*4-data-extra': "(('EXC', 'builtins.ValueError', 'unknown type code: F*4', "
                                      'None, None, False), True)',
 'transform_metadata-F*4-data-tuple-values': "(('EXC', 'builtins.ValueError', 'unknown type code: "
                                             "F*4', None, None, False), True)",
 'transform_metadata-F*4-fields': "(('EXC', 'builtins.ValueError', 'unknown type code: F*4', None, "
                                  'None, False), True)',
 'transform_metadata-F*4-missing-data': '((\'EXC\', \'builtins.KeyError\', "\'data\'", None, None, '
                                        'False), True)',
 'transform_metadata-F*4-missing-data-later': '((\'EXC\', \'builtins.KeyError\', "\'data\'", None, '
                                              'None, False), True)',
 'transform_metadata-F*4-missing-start': '((\'EXC\', \'builtins.KeyError\', "\'start\'", None, '
                                         'None, False), True)',
 'transform_metadata-F*4-missing-stop': '((\'EXC\', \'builtins.KeyError\', "\'stop\'", None, None, '
                                        'False), True)',
 'transform_metadata-F*4-missing-both': '((\'EXC\', \'builtins.KeyError\', "\'start\'", None, '
                                        'None, False), True)',
 'transform_metadata-F*4-data-list': "(('EXC', 'builtins.TypeError', 'list indices must be "
                                     "integers or slices, not str', None, None, False), True)",
 'transform_metadata-F*4-data-str': '((\'EXC\', \'builtins.TypeError\', "string indices must be '
                                    'integers, not \'str\'", None, None, False), True)',
 'transform_metadata-F*4-data-none': '((\'EXC\', \'builtins.TypeError\', "\'NoneType\' object is '
                                     'not subscriptable", None, None, False), True)',
 'transform_metadata-F*4-line-none': '((\'EXC\', \'builtins.TypeError\', "\'NoneType\' object is '
                                     'not subscriptable", None, None, False), True)',
 'transform_metadata-F*4-line-list': "(('EXC', 'builtins.TypeError', 'list indices must be "
                                     "integers or slices, not str', None, None, False), True)",
 'transform_metadata-F*4-coordinates-field': "(('EXC', 'builtins.ValueError', 'unknown type code: "
                                             "F*4', None, None, False), True)",
 'transform_metadata-F*4-header-attr-field': "(('EXC', 'builtins.ValueError', 'unknown type code: "
                                             "F*4', None, None, False), True)",
 'transform_metadata-none-code-none': "(('EXC', 'builtins.ValueError', 'unknown type code: None', "
                                      'None, None, False), True)',
 'transform_metadata-none-code-data-only': "(('EXC', 'builtins.ValueError', 'unknown type code: "
                                           "None', None, None, False), True)",
 'transform_metadata-none-code-data-extra': "(('EXC', 'builtins.ValueError', 'unknown type code: "
                                            "None', None, None, False), True)",
 'transform_metadata-none-code-data-tuple-values': "(('EXC', 'builtins.ValueError', 'unknown type "
                                                   "code: None', None, None, False), True)",
 'transform_metadata-none-code-fields': "(('EXC', 'builtins.ValueError', 'unknown type code: "
                                        "None', None, None, False), True)",
 'transform_metadata-none-code-missing-data': '((\'EXC\', \'builtins.KeyError\', "\'data\'", None, '
                                              'None, False), True)',
 'transform_metadata-none-code-missing-data-later': '((\'EXC\', \'builtins.KeyError\', "\'data\'", '
                                                    'None, None, False), True)',
 'transform_metadata-none-code-missing-start': '((\'EXC\', \'builtins.KeyError\', "\'start\'", '
                                               'None, None, False), True)',
 'transform_metadata-none-code-missing-stop': '((\'EXC\', \'builtins.KeyError\', "\'stop\'", None, '
                                              'None, False), True)',
 'transform_metadata-none-code-missing-both': '((\'EXC\', \'builtins.KeyError\', "\'start\'", '
                                              'None, None, False), True)',
 'transform_metadata-none-code-data-list': "(('EXC', 'builtins.TypeError', 'list indices must be "
                                           "integers or slices, not str', None, None, False), "
                                           'True)',
 'transform_metadata-none-code-data-str': '((\'EXC\', \'builtins.TypeError\', "string indices must '
                                          'be integers, not \'str\'", None, None, False), True)',
 'transform_metadata-none-code-data-none': '((\'EXC\', \'builtins.TypeError\', "\'NoneType\' '
                                           'object is not subscriptable", None, None, False), '
                                           'True)',
 'transform_metadata-none-code-line-none': '((\'EXC\', \'builtins.TypeError\', "\'NoneType\' '
                                           'object is not subscriptable", None, None, False), '
                                           'True)',
 'transform_metadata-none-code-line-list': "(('EXC', 'builtins.TypeError', 'list indices must be "
                                           "integers or slices, not str', None, None, False), "
                                           'True)',
 'transform_metadata-none-code-coordinates-field': "(('EXC', 'builtins.ValueError', 'unknown type "
                                                   "code: None', None, None, False), True)",
 'transform_metadata-none-code-header-attr-field': "(('EXC', 'builtins.ValueError', 'unknown type "
                                                   "code: None', None, None, False), True)",
 'transform_metadata-unhashable-code-none': '((\'EXC\', \'builtins.TypeError\', "unhashable type: '
                                            '\'list\'", None, None, False), True)',
 'transform_metadata-unhashable-code-data-only': '((\'EXC\', \'builtins.TypeError\', "unhashable '
                                                 'type: \'list\'", None, None, False), True)',
 'transform_metadata-unhashable-code-data-extra': '((\'EXC\', \'builtins.TypeError\', "unhashable '
                                                  'type: \'list\'", None, None, False), True)',
 'transform_metadata-unhashable-code-data-tuple-values': "(('EXC', 'builtins.TypeError', "
                                                         '"unhashable type: \'list\'", None, None, '
                                                         'False), True)',
 'transform_metadata-unhashable-code-fields': '((\'EXC\', \'builtins.TypeError\', "unhashable '
                                              'type: \'list\'", None, None, False), True)',
 'transform_metadata-unhashable-code-missing-data': '((\'EXC\', \'builtins.KeyError\', "\'data\'", '
                                                    'None, None, False), True)',
 'transform_metadata-unhashable-code-missing-data-later': "(('EXC', 'builtins.KeyError', "
                                                          '"\'data\'", None, None, False), True)',
 'transform_metadata-unhashable-code-missing-start': "(('EXC', 'builtins.KeyError', "
                                                     '"\'start\'", None, None, False), True)',
 'transform_metadata-unhashable-code-missing-stop': '((\'EXC\', \'builtins.KeyError\', "\'stop\'", '
                                                    'None, None, False), True)',
 'transform_metadata-unhashable-code-missing-both': "(('EXC', 'builtins.KeyError', "
                                                    '"\'start\'", None, None, False), True)',
 'transform_metadata-unhashable-code-data-list': "(('EXC', 'builtins.TypeError', 'list indices "
                                                 "must be integers or slices, not str', None, "
                                                 'None, False), True)',
 'transform_metadata-unhashable-code-data-str': '((\'EXC\', \'builtins.TypeError\', "string '
                                                'indices must be integers, not \'str\'", None, '
                                                'None, False), True)',
 'transform_metadata-unhashable-code-data-none': '((\'EXC\', \'builtins.TypeError\', "\'NoneType\' '
                                                 'object is not subscriptable", None, None, '
                                                 'False), True)',
 'transform_metadata-unhashable-code-line-none': '((\'EXC\', \'builtins.TypeError\', "\'NoneType\' '
                                                 'object is not subscriptable", None, None, '
                                                 'False), True)',
 'transform_metadata-unhashable-code-line-list': "(('EXC', 'builtins.TypeError', 'list indices "
                                                 "must be integers or slices, not str', None, "
                                                 'None, False), True)',
 'transform_metadata-unhashable-code-coordinates-field': "(('EXC', 'builtins.TypeError', "
                                                         '"unhashable type: \'list\'", None, None, '
                                                         'False), True)',
 'transform_metadata-unhashable-code-header-attr-field': "(('EXC', 'builtins.TypeError', "
                                                         '"unhashable type: \'list\'", None, None, '
                                                         'False), True)',
 'transform_metadata-with-attrs-none': "(('OK', ('tuple', [('Group', '/', None, [], ('dict', "
                                       "[(('str', 'interleaving_id'), ('str', 'BSQ')), (('str', "
                                       "'valid_range'), ('list', [('int', 0), ('int', 255)])), "
                                       "(('str', 'coordinates'), ('list', []))])), ('dict', "
                                       "[(('str', 'type_code'), ('str', 'IU2')), (('str', "
                                       "'shape'), ('tuple', [('int', 2), ('int', 4)])), (('str', "
                                       "'dtype'), ('str', 'uint16')), (('str', 'byte_ranges'), "
                                       "('list', []))])])), True)",
 'transform_metadata-with-attrs-data-only': "(('OK', ('tuple', [('Group', '/', None, [], ('dict', "
                                            "[(('str', 'interleaving_id'), ('str', 'BSQ')), "
                                            "(('str', 'valid_range'), ('list', [('int', 0), "
                                            "('int', 255)])), (('str', 'coordinates'), ('list', "
                                            "[]))])), ('dict', [(('str', 'type_code'), ('str', "
                                            "'IU2')), (('str', 'shape'), ('tuple', [('int', 2), "
                                            "('int', 4)])), (('str', 'dtype'), ('str', 'uint16')), "
                                            "(('str', 'byte_ranges'), ('list', [('tuple', [('int', "
                                            "1), ('int', 5)]), ('tuple', [('int', 6), ('int', "
                                            '10)])]))])])), True)',
 'transform_metadata-with-attrs-data-extra': "(('OK', ('tuple', [('Group', '/', None, [], ('dict', "
                                             "[(('str', 'interleaving_id'), ('str', 'BSQ')), "
                                             "(('str', 'valid_range'), ('list', [('int', 0), "
                                             "('int', 255)])), (('str', 'coordinates'), ('list', "
                                             "[]))])), ('dict', [(('str', 'type_code'), ('str', "
                                             "'IU2')), (('str', 'shape'), ('tuple', [('int', 2), "
                                             "('int', 4)])), (('str', 'dtype'), ('str', "
                                             "'uint16')), (('str', 'byte_ranges'), ('list', "
                                             "[('tuple', [('int', 1), ('int', 5)])]))])])), True)",
 'transform_metadata-with-attrs-data-tuple-values': "(('OK', ('tuple', [('Group', '/', None, [], "
                                                    "('dict', [(('str', 'interleaving_id'), "
                                                    "('str', 'BSQ')), (('str', 'valid_range'), "
                                                    "('list', [('int', 0), ('int', 255)])), "
                                                    "(('str', 'coordinates'), ('list', []))])), "
                                                    "('dict', [(('str', 'type_code'), ('str', "
                                                    "'IU2')), (('str', 'shape'), ('tuple', "
                                                    "[('int', 2), ('int', 4)])), (('str', "
                                                    "'dtype'), ('str', 'uint16')), (('str', "
                                                    "'byte_ranges'), ('list', [('tuple', "
                                                    "[('tuple', [('int', 1)]), None])]))])])), "
                                                    'True)',
 'transform_metadata-with-attrs-fields': 'sha256:a2724f6b49d991be047529dcdede25f77ba30fead4f4e3329df57e42a38c7be6 '
                                         "length:754 start:(('OK', ('tuple', [('Group', '/', None, "
                                         "[('rows', ('Variable', ('list', [('str', 'rows')]), "
                                         "('list', [('int', 1), ('int', 2)]), ('dict', []))), "
                                         "('a', ('Variable",
 'transform_metadata-with-attrs-missing-data': '((\'EXC\', \'builtins.KeyError\', "\'data\'", '
                                               'None, None, False), True)',
 'transform_metadata-with-attrs-missing-data-later': "(('EXC', 'builtins.KeyError', "
                                                     '"\'data\'", None, None, False), True)',
 'transform_metadata-with-attrs-missing-start': '((\'EXC\', \'builtins.KeyError\', "\'start\'", '
                                                'None, None, False), True)',
 'transform_metadata-with-attrs-missing-stop': '((\'EXC\', \'builtins.KeyError\', "\'stop\'", '
                                               'None, None, False), True)',
 'transform_metadata-with-attrs-missing-both': '((\'EXC\', \'builtins.KeyError\', "\'start\'", '
                                               'None, None, False), True)',
 'transform_metadata-with-attrs-data-list': "(('EXC', 'builtins.TypeError', 'list indices must be "
                                            "integers or slices, not str', None, None, False), "
                                            'True)',
 'transform_metadata-with-attrs-data-str': '((\'EXC\', \'builtins.TypeError\', "string indices '
                                           'must be integers, not \'str\'", None, None, False), '
                                           'True)',
 'transform_metadata-with-attrs-data-none': '((\'EXC\', \'builtins.TypeError\', "\'NoneType\' '
                                            'object is not subscriptable", None, None, False), '
                                            'True)',
 'transform_metadata-with-attrs-line-none': '((\'EXC\', \'builtins.TypeError\', "\'NoneType\' '
                                            'object is not subscriptable", None, None, False), '
                                            'True)',
 'transform_metadata-with-attrs-line-list': "(('EXC', 'builtins.TypeError', 'list indices must be "
                                            "integers or slices, not str', None, None, False), "
                                            'True)',
 'transform_metadata-with-attrs-coordinates-field': 'sha256:0927477a6d58208355d88df0a5a1600c41572b6c246ac427a03b7819ee4822e1 '
                                                    "length:606 start:(('OK', ('tuple', [('Group', "
                                                    "'/', None, [('coordinates', ('Variable', "
                                                    "('list', [('str', 'rows')]), ('list', "
                                                    "[('int', 1), ('int', 2)]), ('dict', [])))], "
                                                    "('dict',",
 'transform_metadata-with-attrs-header-attr-field': 'sha256:fa9fa8a2d399ac0aee746e7e04c3771bbe9b1d765604dd865c31bea461eb1a2c '
                                                    "length:748 start:(('OK', ('tuple', [('Group', "
                                                    "'/', None, [('interleaving_id', ('Variable', "
                                                    "('list', [('str', 'rows')]), ('list', "
                                                    "[('int', 1), ('int', 2)]), ('dict', []))), "
                                                    "('val",
 'transform_metadata-bad-attrs-none': "(('EXC', 'builtins.TypeError', 'must be real number, not "
                                      "str', None, None, False), True)",
 'transform_metadata-bad-attrs-data-only': "(('EXC', 'builtins.TypeError', 'must be real number, "
                                           "not str', None, None, False), True)",
 'transform_metadata-bad-attrs-data-extra': "(('EXC', 'builtins.TypeError', 'must be real number, "
                                            "not str', None, None, False), True)",
 'transform_metadata-bad-attrs-data-tuple-values': "(('EXC', 'builtins.TypeError', 'must be real "
                                                   "number, not str', None, None, False), True)",
 'transform_metadata-bad-attrs-fields': "(('EXC', 'builtins.TypeError', 'must be real number, not "
                                        "str', None, None, False), True)",
 'transform_metadata-bad-attrs-missing-data': '((\'EXC\', \'builtins.KeyError\', "\'data\'", None, '
                                              'None, False), True)',
 'transform_metadata-bad-attrs-missing-data-later': '((\'EXC\', \'builtins.KeyError\', "\'data\'", '
                                                    'None, None, False), True)',
 'transform_metadata-bad-attrs-missing-start': '((\'EXC\', \'builtins.KeyError\', "\'start\'", '
                                               'None, None, False), True)',
 'transform_metadata-bad-attrs-missing-stop': '((\'EXC\', \'builtins.KeyError\', "\'stop\'", None, '
                                              'None, False), True)',
 'transform_metadata-bad-attrs-missing-both': '((\'EXC\', \'builtins.KeyError\', "\'start\'", '
                                              'None, None, False), True)',
 'transform_metadata-bad-attrs-data-list': "(('EXC', 'builtins.TypeError', 'list indices must be "
                                           "integers or slices, not str', None, None, False), "
                                           'True)',
 'transform_metadata-bad-attrs-data-str': '((\'EXC\', \'builtins.TypeError\', "string indices must '
                                          'be integers, not \'str\'", None, None, False), True)',
 'transform_metadata-bad-attrs-data-none': '((\'EXC\', \'builtins.TypeError\', "\'NoneType\' '
                                           'object is not subscriptable", None, None, False), '
                                           'True)',
 'transform_metadata-bad-attrs-line-none': '((\'EXC\', \'builtins.TypeError\', "\'NoneType\' '
                                           'object is not subscriptable", None, None, False), '
                                           'True)',
 'transform_metadata-bad-attrs-line-list': "(('EXC', 'builtins.TypeError', 'list indices must be "
                                           "integers or slices, not str', None, None, False), "
                                           'True)',
 'transform_metadata-bad-attrs-coordinates-field': "(('EXC', 'builtins.TypeError', 'must be real "
                                                   "number, not str', None, None, False), True)",
 'transform_metadata-bad-attrs-header-attr-field': "(('EXC', 'builtins.TypeError', 'must be real "
                                                   "number, not str', None, None, False), True)",
 'transform_metadata-no-code-none': "(('EXC', 'builtins.KeyError', "
                                    '"\'prefix_suffix_data_locators\'", None, None, False), True)',
 'transform_metadata-no-code-data-only': "(('EXC', 'builtins.KeyError', "
                                         '"\'prefix_suffix_data_locators\'", None, None, False), '
                                         'True)',
 'transform_metadata-no-code-data-extra': "(('EXC', 'builtins.KeyError', "
                                          '"\'prefix_suffix_data_locators\'", None, None, False), '
                                          'True)',
 'transform_metadata-no-code-data-tuple-values': "(('EXC', 'builtins.KeyError', "
                                                 '"\'prefix_suffix_data_locators\'", None, None, '
                                                 'False), True)',
 'transform_metadata-no-code-fields': "(('EXC', 'builtins.KeyError', "
                                      '"\'prefix_suffix_data_locators\'", None, None, False), '
                                      'True)',
 'transform_metadata-no-code-missing-data': '((\'EXC\', \'builtins.KeyError\', "\'data\'", None, '
                                            'None, False), True)',
 'transform_metadata-no-code-missing-data-later': '((\'EXC\', \'builtins.KeyError\', "\'data\'", '
                                                  'None, None, False), True)',
 'transform_metadata-no-code-missing-start': '((\'EXC\', \'builtins.KeyError\', "\'start\'", None, '
                                             'None, False), True)',
 'transform_metadata-no-code-missing-stop': '((\'EXC\', \'builtins.KeyError\', "\'stop\'", None, '
                                            'None, False), True)',
 'transform_metadata-no-code-missing-both': '((\'EXC\', \'builtins.KeyError\', "\'start\'", None, '
                                            'None, False), True)',
 'transform_metadata-no-code-data-list': "(('EXC', 'builtins.TypeError', 'list indices must be "
                                         "integers or slices, not str', None, None, False), True)",
 'transform_metadata-no-code-data-str': '((\'EXC\', \'builtins.TypeError\', "string indices must '
                                        'be integers, not \'str\'", None, None, False), True)',
 'transform_metadata-no-code-data-none': '((\'EXC\', \'builtins.TypeError\', "\'NoneType\' object '
                                         'is not subscriptable", None, None, False), True)',
 'transform_metadata-no-code-line-none': '((\'EXC\', \'builtins.TypeError\', "\'NoneType\' object '
                                         'is not subscriptable", None, None, False), True)',
 'transform_metadata-no-code-line-list': "(('EXC', 'builtins.TypeError', 'list indices must be "
                                         "integers or slices, not str', None, None, False), True)",
 'transform_metadata-no-code-coordinates-field': "(('EXC', 'builtins.KeyError', "
                                                 '"\'prefix_suffix_data_locators\'", None, None, '
                                                 'False), True)',
 'transform_metadata-no-code-header-attr-field': "(('EXC', 'builtins.KeyError', "
                                                 '"\'prefix_suffix_data_locators\'", None, None, '
                                                 'False), True)',
 'transform_metadata-no-shape-none': "(('EXC', 'builtins.KeyError', "
                                     '"\'sar_related_data_in_the_record\'", None, None, False), '
                                     'True)',
 'transform_metadata-no-shape-data-only': "(('EXC', 'builtins.KeyError', "
                                          '"\'sar_related_data_in_the_record\'", None, None, '
                                          'False), True)',
 'transform_metadata-no-shape-data-extra': "(('EXC', 'builtins.KeyError', "
                                           '"\'sar_related_data_in_the_record\'", None, None, '
                                           'False), True)',
 'transform_metadata-no-shape-data-tuple-values': "(('EXC', 'builtins.KeyError', "
                                                  '"\'sar_related_data_in_the_record\'", None, '
                                                  'None, False), True)',
 'transform_metadata-no-shape-fields': "(('EXC', 'builtins.KeyError', "
                                       '"\'sar_related_data_in_the_record\'", None, None, False), '
                                       'True)',
 'transform_metadata-no-shape-missing-data': '((\'EXC\', \'builtins.KeyError\', "\'data\'", None, '
                                             'None, False), True)',
 'transform_metadata-no-shape-missing-data-later': '((\'EXC\', \'builtins.KeyError\', "\'data\'", '
                                                   'None, None, False), True)',
 'transform_metadata-no-shape-missing-start': '((\'EXC\', \'builtins.KeyError\', "\'start\'", '
                                              'None, None, False), True)',
 'transform_metadata-no-shape-missing-stop': '((\'EXC\', \'builtins.KeyError\', "\'stop\'", None, '
                                             'None, False), True)',
 'transform_metadata-no-shape-missing-both': '((\'EXC\', \'builtins.KeyError\', "\'start\'", None, '
                                             'None, False), True)',
 'transform_metadata-no-shape-data-list': "(('EXC', 'builtins.TypeError', 'list indices must be "
                                          "integers or slices, not str', None, None, False), True)",
 'transform_metadata-no-shape-data-str': '((\'EXC\', \'builtins.TypeError\', "string indices must '
                                         'be integers, not \'str\'", None, None, False), True)',
 'transform_metadata-no-shape-data-none': '((\'EXC\', \'builtins.TypeError\', "\'NoneType\' object '
                                          'is not subscriptable", None, None, False), True)',
 'transform_metadata-no-shape-line-none': '((\'EXC\', \'builtins.TypeError\', "\'NoneType\' object '
                                          'is not subscriptable", None, None, False), True)',
 'transform_metadata-no-shape-line-list': "(('EXC', 'builtins.TypeError', 'list indices must be "
                                          "integers or slices, not str', None, None, False), True)",
 'transform_metadata-no-shape-coordinates-field': "(('EXC', 'builtins.KeyError', "
                                                  '"\'sar_related_data_in_the_record\'", None, '
                                                  'None, False), True)',
 'transform_metadata-no-shape-header-attr-field': "(('EXC', 'builtins.KeyError', "
                                                  '"\'sar_related_data_in_the_record\'", None, '
                                                  'None, False), True)',
 'transform_metadata-partial-shape-none': "(('EXC', 'builtins.KeyError', "
                                          '"\'number_of_data_groups_per_line\'", None, None, '
                                          'False), True)',
 'transform_metadata-partial-shape-data-only': "(('EXC', 'builtins.KeyError', "
                                               '"\'number_of_data_groups_per_line\'", None, None, '
                                               'False), True)',
 'transform_metadata-partial-shape-data-extra': "(('EXC', 'builtins.KeyError', "
                                                '"\'number_of_data_groups_per_line\'", None, None, '
                                                'False), True)',
 'transform_metadata-partial-shape-data-tuple-values': "(('EXC', 'builtins.KeyError', "
                                                       '"\'number_of_data_groups_per_line\'", '
                                                       'None, None, False), True)',
 'transform_metadata-partial-shape-fields': "(('EXC', 'builtins.KeyError', "
                                            '"\'number_of_data_groups_per_line\'", None, None, '
                                            'False), True)',
 'transform_metadata-partial-shape-missing-data': '((\'EXC\', \'builtins.KeyError\', "\'data\'", '
                                                  'None, None, False), True)',
 'transform_metadata-partial-shape-missing-data-later': "(('EXC', 'builtins.KeyError', "
                                                        '"\'data\'", None, None, False), True)',
 'transform_metadata-partial-shape-missing-start': '((\'EXC\', \'builtins.KeyError\', "\'start\'", '
                                                   'None, None, False), True)',
 'transform_metadata-partial-shape-missing-stop': '((\'EXC\', \'builtins.KeyError\', "\'stop\'", '
                                                  'None, None, False), True)',
 'transform_metadata-partial-shape-missing-both': '((\'EXC\', \'builtins.KeyError\', "\'start\'", '
                                                  'None, None, False), True)',
 'transform_metadata-partial-shape-data-list': "(('EXC', 'builtins.TypeError', 'list indices must "
                                               "be integers or slices, not str', None, None, "
                                               'False), True)',
 'transform_metadata-partial-shape-data-str': '((\'EXC\', \'builtins.TypeError\', "string indices '
                                              'must be integers, not \'str\'", None, None, False), '
                                              'True)',
 'transform_metadata-partial-shape-data-none': '((\'EXC\', \'builtins.TypeError\', "\'NoneType\' '
                                               'object is not subscriptable", None, None, False), '
                                               'True)',
 'transform_metadata-partial-shape-line-none': '((\'EXC\', \'builtins.TypeError\', "\'NoneType\' '
                                               'object is not subscriptable", None, None, False), '
                                               'True)',
 'transform_metadata-partial-shape-line-list': "(('EXC', 'builtins.TypeError', 'list indices must "
                                               "be integers or slices, not str', None, None, "
                                               'False), True)',
 'transform_metadata-partial-shape-coordinates-field': "(('EXC', 'builtins.KeyError', "
                                                       '"\'number_of_data_groups_per_line\'", '
                                                       'None, None, False), True)',
 'transform_metadata-partial-shape-header-attr-field': "(('EXC', 'builtins.KeyError', "
                                                       '"\'number_of_data_groups_per_line\'", '
                                                       'None, None, False), True)',
 'transform_metadata-empty-none': "(('EXC', 'builtins.KeyError', "
                                  '"\'prefix_suffix_data_locators\'", None, None, False), True)',
 'transform_metadata-empty-data-only': "(('EXC', 'builtins.KeyError', "
                                       '"\'prefix_suffix_data_locators\'", None, None, False), '
                                       'True)',
 'transform_metadata-empty-data-extra': "(('EXC', 'builtins.KeyError', "
                                        '"\'prefix_suffix_data_locators\'", None, None, False), '
                                        'True)',
 'transform_metadata-empty-data-tuple-values': "(('EXC', 'builtins.KeyError', "
                                               '"\'prefix_suffix_data_locators\'", None, None, '
                                               'False), True)',
 'transform_metadata-empty-fields': "(('EXC', 'builtins.KeyError', "
                                    '"\'prefix_suffix_data_locators\'", None, None, False), True)',
 'transform_metadata-empty-missing-data': '((\'EXC\', \'builtins.KeyError\', "\'data\'", None, '
                                          'None, False), True)',
 'transform_metadata-empty-missing-data-later': '((\'EXC\', \'builtins.KeyError\', "\'data\'", '
                                                'None, None, False), True)',
 'transform_metadata-empty-missing-start': '((\'EXC\', \'builtins.KeyError\', "\'start\'", None, '
                                           'None, False), True)',
 'transform_metadata-empty-missing-stop': '((\'EXC\', \'builtins.KeyError\', "\'stop\'", None, '
                                          'None, False), True)',
 'transform_metadata-empty-missing-both': '((\'EXC\', \'builtins.KeyError\', "\'start\'", None, '
                                          'None, False), True)',
 'transform_metadata-empty-data-list': "(('EXC', 'builtins.TypeError', 'list indices must be "
                                       "integers or slices, not str', None, None, False), True)",
 'transform_metadata-empty-data-str': '((\'EXC\', \'builtins.TypeError\', "string indices must be '
                                      'integers, not \'str\'", None, None, False), True)',
 'transform_metadata-empty-data-none': '((\'EXC\', \'builtins.TypeError\', "\'NoneType\' object is '
                                       'not subscriptable", None, None, False), True)',
 'transform_metadata-empty-line-none': '((\'EXC\', \'builtins.TypeError\', "\'NoneType\' object is '
                                       'not subscriptable", None, None, False), True)',
 'transform_metadata-empty-line-list': "(('EXC', 'builtins.TypeError', 'list indices must be "
                                       "integers or slices, not str', None, None, False), True)",
 'transform_metadata-empty-coordinates-field': "(('EXC', 'builtins.KeyError', "
                                               '"\'prefix_suffix_data_locators\'", None, None, '
                                               'False), True)',
 'transform_metadata-empty-header-attr-field': "(('EXC', 'builtins.KeyError', "
                                               '"\'prefix_suffix_data_locators\'", None, None, '
                                               'False), True)',
 'transform_metadata-none-none': '((\'EXC\', \'builtins.TypeError\', "\'NoneType\' object is not '
                                 'subscriptable", None, None, False), True)',
 'transform_metadata-none-data-only': '((\'EXC\', \'builtins.TypeError\', "\'NoneType\' object is '
                                      'not subscriptable", None, None, False), True)',
 'transform_metadata-none-data-extra': '((\'EXC\', \'builtins.TypeError\', "\'NoneType\' object is '
                                       'not subscriptable", None, None, False), True)',
 'transform_metadata-none-data-tuple-values': '((\'EXC\', \'builtins.TypeError\', "\'NoneType\' '
                                              'object is not subscriptable", None, None, False), '
                                              'True)',
 'transform_metadata-none-fields': '((\'EXC\', \'builtins.TypeError\', "\'NoneType\' object is not '
                                   'subscriptable", None, None, False), True)',
 'transform_metadata-none-missing-data': '((\'EXC\', \'builtins.KeyError\', "\'data\'", None, '
                                         'None, False), True)',
 'transform_metadata-none-missing-data-later': '((\'EXC\', \'builtins.KeyError\', "\'data\'", '
                                               'None, None, False), True)',
 'transform_metadata-none-missing-start': '((\'EXC\', \'builtins.KeyError\', "\'start\'", None, '
                                          'None, False), True)',
 'transform_metadata-none-missing-stop': '((\'EXC\', \'builtins.KeyError\', "\'stop\'", None, '
                                         'None, False), True)',
 'transform_metadata-none-missing-both': '((\'EXC\', \'builtins.KeyError\', "\'start\'", None, '
                                         'None, False), True)',
 'transform_metadata-none-data-list': "(('EXC', 'builtins.TypeError', 'list indices must be "
                                      "integers or slices, not str', None, None, False), True)",
 'transform_metadata-none-data-str': '((\'EXC\', \'builtins.TypeError\', "string indices must be '
                                     'integers, not \'str\'", None, None, False), True)',
 'transform_metadata-none-data-none': '((\'EXC\', \'builtins.TypeError\', "\'NoneType\' object is '
                                      'not subscriptable", None, None, False), True)',
 'transform_metadata-none-line-none': '((\'EXC\', \'builtins.TypeError\', "\'NoneType\' object is '
                                      'not subscriptable", None, None, False), True)',
 'transform_metadata-none-line-list': "(('EXC', 'builtins.TypeError', 'list indices must be "
                                      "integers or slices, not str', None, None, False), True)",
 'transform_metadata-none-coordinates-field': '((\'EXC\', \'builtins.TypeError\', "\'NoneType\' '
                                              'object is not subscriptable", None, None, False), '
                                              'True)',
 'transform_metadata-none-header-attr-field': '((\'EXC\', \'builtins.TypeError\', "\'NoneType\' '
                                              'object is not subscriptable", None, None, False), '
                                              'True)',
 'transform_metadata-generator-data-only': "('OK', ('tuple', [('Group', '/', None, [], ('dict', "
                                           "[(('str', 'coordinates'), ('list', []))])), ('dict', "
                                           "[(('str', 'type_code'), ('str', 'IU2')), (('str', "
                                           "'shape'), ('tuple', [('int', 2), ('int', 4)])), "
                                           "(('str', 'dtype'), ('str', 'uint16')), (('str', "
                                           "'byte_ranges'), ('list', [('tuple', [('int', 1), "
                                           "('int', 5)]), ('tuple', [('int', 6), ('int', "
                                           '10)])]))])]))',
 'transform_metadata-tuple-data-only': "('OK', ('tuple', [('Group', '/', None, [], ('dict', "
                                       "[(('str', 'coordinates'), ('list', []))])), ('dict', "
                                       "[(('str', 'type_code'), ('str', 'IU2')), (('str', "
                                       "'shape'), ('tuple', [('int', 2), ('int', 4)])), (('str', "
                                       "'dtype'), ('str', 'uint16')), (('str', 'byte_ranges'), "
                                       "('list', [('tuple', [('int', 1), ('int', 5)]), ('tuple', "
                                       "[('int', 6), ('int', 10)])]))])]))",
 'transform_metadata-generator-fields': "('OK', ('tuple', [('Group', '/', None, [], ('dict', "
                                        "[(('str', 'coordinates'), ('list', []))])), ('dict', "
                                        "[(('str', 'type_code'), ('str', 'IU2')), (('str', "
                                        "'shape'), ('tuple', [('int', 2), ('int', 4)])), (('str', "
                                        "'dtype'), ('str', 'uint16')), (('str', 'byte_ranges'), "
                                        "('list', [('tuple', [('int', 5), ('int', 21)]), ('tuple', "
                                        "[('int', 25), ('int', 41)])]))])]))",
 'transform_metadata-tuple-fields': 'sha256:d6a640db9efe1f9e61be09325edbad144bd7ff041cb5c99ac767bd8cb8f6e093 '
                                    "length:636 start:('OK', ('tuple', [('Group', '/', None, "
                                    "[('rows', ('Variable', ('list', [('str', 'rows')]), ('list', "
                                    "[('int', 1), ('int', 2)]), ('dict', []))), ('a', ('Variable'",
 'transform_metadata-lines-none': '(\'EXC\', \'builtins.TypeError\', "\'NoneType\' object is not '
                                  'iterable", None, None, False)',
 'transform_metadata-types': "('dict', 'list', ['tuple', 'tuple'], 'tuple', 'str', ['type_code', "
                             "'shape', 'dtype', 'byte_ranges'], False, False, False, ['scan_id', "
                             "'interleaving_id', 'valid_range', 'coordinates'])",
 'transform_metadata-calls-with-attrs-fields': "('OK', ['extract_format_type', 'extract_shape', "
                                               "'extract_attrs', 'transform_line_metadata'])",
 'transform_metadata-calls-with-attrs-missing-data': "('EXC', [])",
 'transform_metadata-calls-F*4-fields': "('EXC', ['extract_format_type', 'extract_shape'])",
 'transform_metadata-calls-F*4-missing-data': "('EXC', [])",
 'transform_metadata-calls-bad-attrs-fields': "('EXC', ['extract_format_type', 'extract_shape', "
                                              "'extract_attrs'])",
 'transform_metadata-calls-bad-attrs-missing-data': "('EXC', [])",
 'transform_metadata-calls-no-shape-fields': "('EXC', ['extract_format_type', 'extract_shape'])",
 'transform_metadata-calls-no-shape-missing-data': "('EXC', [])",
 'transform_metadata-file-signal': 'sha256:5e27f95ae0724ad1f03db4ea8fdd49c074ef05011c6406b3321c441ef3458e90 '
                                   "length:10940 start:('OK', ('tuple', [('Group', '/', None, "
                                   "[('rows', ('Variable', ('list', [('str', 'rows')]), ('list', "
                                   "[('int', 0), ('int', 1), ('int', 2)]), ('dict', []))), ('sen",
 'transform_metadata-file-processed': 'sha256:6aa7dfb8c82a15176fdc976b3f598b62b4082e742cac9bec4c8c89266edf5b27 '
                                      "length:7269 start:('OK', ('tuple', [('Group', '/', None, "
                                      "[('rows', ('Variable', ('list', [('str', 'rows')]), "
                                      "('list', [('int', 0), ('int', 1), ('int', 2), ('int', 3), "
                                      "('int', 4)]",
 'transform_metadata-file-unknown': "('EXC', 'builtins.ValueError', 'unknown type code: F*4', "
                                    'None, None, False)'}

if __name__ == "__main__":
    recorder = Recorder()
    run(recorder)
    sys.exit(recorder.finish(EXPECTED))


def test_equivalence():
    recorder = Recorder()
    run(recorder)
    recorder.finish(EXPECTED)
