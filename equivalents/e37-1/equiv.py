"""Equivalence check for refactoring 1 (ceos_alos2/decoders.py: translation table and id decoders).

Run as a script (``python equiv.py``) or with pytest. ``python equiv.py --record`` prints
the observed outcomes (used once, on the unchanged code, to fill ``EXPECTED``).
"""

import datetime
import itertools
import pprint
import sys

from ceos_alos2 import decoders


def describe_exception(exc):
    if exc is None:
        return None
    return (type(exc).__name__, str(exc))


def outcome(func, *args):
    try:
        result = func(*args)
    except Exception as e:  # noqa: BLE001
        return (
            "raises",
            describe_exception(e),
            "cause",
            describe_exception(e.__cause__),
            "context",
            describe_exception(e.__context__),
            e.__suppress_context__,
        )
    if isinstance(result, dict):
        # the order of the items is part of the behaviour
        return ("returns", type(result).__name__, list(result.items()))
    return ("returns", type(result).__name__, result)


scene_ids = [
    "ALOS2225333200-180726",
    "ALOS2000000000-000229",
    "ALOS2999999999-991231",
    "ALOS2123450010-680101",
    "ALOS2123450010-690101",
    "ABCDE123450010-200101",
    "A1B2C000010000-240229",
    # translation failures (the regex matches, the date is impossible)
    "ALOS2225333200-180732",
    "ALOS2225333200-181301",
    "ALOS2225333200-180229",
    "ALOS2225333200-000000",
    "ALOS2225333200-987433",
    # regex failures
    "ALOS2xxxxx3200-180726",
    "ALOS2225333200-a87433",
    "alos2225333200-180726",
    "ALOS2225333200-1807266",
    "ALOS2225333200-18072",
    "ALOS2225333200_180726",
    "ALOS2225333200-180726\n",
    " ALOS2225333200-180726",
    "XALOS2225333200-180726",
    "",
    # wrong types
    None,
    b"ALOS2225333200-180726",
    20,
]

valid_product_ids = (
    # every observation mode once, then every code of every other position once
    [f"{mode}L1.0GUA" for mode in sorted(decoders.observation_modes)]
    + [f"WWD{direction}1.1__D" for direction in "LR"]
    + [f"WWDR{level}__D" for level in ["1.0", "1.1", "1.5", "3.1"]]
    + [f"WWDR1.5{option}_D" for option in "GR_"]
    + [f"WWDR1.5G{projection}D" for projection in "UPML_"]
    + [f"WWDR1.5GU{orbit}" for orbit in "AD"]
    + ["".join(parts) for parts in itertools.product(["VBS"], "LR", ["3.1"], "R_", "L_", "AD")]
)
product_ids = valid_product_ids + [
    # translation failures: the regex matches, the observation mode is unknown
    "XXXR1.1__D",
    "AAAL1.5GUA",
    "WWWR3.1RPD",
    "SBDL1.0_MA",
    # regex failures
    "WWDR1.1__",
    "WWDR1.1__DD",
    "WWDR2.0__D",
    "WWDR1.2__D",
    "WWDX1.1__D",
    "WWDR1.1X_D",
    "WWDR1.1_XD",
    "WWDR1.1__X",
    "wwdr1.1__d",
    "WWDR1.1__D\n",
    "WWDR1x1__D",
    "WWDR11__D",
    "",
    None,
    b"WWDR1.1__D",
    3.1,
]

scan_infos = (
    [None]
    + [m + n for m in "BF" for n in "0123456789"]
    + ["X1", "b4", "B", "F", "4", "4B", "B10", "BB", "", " B4", "B4 ", "B4\n", "B-1", b"B4", 4, 0, ()]
)

table_inputs = {
    "observation_mode": ["SBS", "WWD", "VBD", "XXX", "", "sbs"],
    "observation_direction": ["L", "R", "X", ""],
    "processing_level": ["1.0", "1.1", "1.5", "3.1", "2.0", "1.10", 1.1],
    "processing_option": ["G", "R", "_", "X"],
    "map_projection": ["U", "P", "M", "L", "_", "X", None],
    "orbit_direction": ["A", "D", "X", "AD"],
    "date": ["180726", "000229", "180732", "abcdef", "20180726", "", "1807", None, 180726],
    "mission_name": ["ALOS2", "", None, 1],
    "orbit_accumulation": ["22533", "", None],
    "scene_frame": ["3200", "", None],
    "processing_method": ["F", "B", "X", ""],
    "scan_number": ["0", "9", "", None],
}


def observe():
    observed = {}
    observed["scene_id"] = [(value, outcome(decoders.decode_scene_id, value)) for value in scene_ids]
    observed["product_id"] = [
        (value, outcome(decoders.decode_product_id, value)) for value in product_ids
    ]
    observed["scan_info"] = [
        (value, outcome(decoders.decode_scan_info, value)) for value in scan_infos
    ]
    observed["table_keys"] = list(decoders.translations)
    observed["table"] = [
        (name, value, outcome(decoders.translations[name], value))
        for name, values in table_inputs.items()
        for value in values
    ]
    observed["lookup"] = [
        outcome(decoders.lookup, decoders.resampling_methods, "NN"),
        outcome(decoders.lookup, decoders.resampling_methods, "XX"),
        outcome(decoders.lookup, decoders.processing_facilities, "SCMO"),
        outcome(decoders.lookup, {}, "a"),
        outcome(decoders.lookup, {"a": None}, "a"),
        outcome(decoders.lookup, {"a": 0}, "a"),
    ]
    return observed


def check_identity():
    # the pass-through entries return the very same object
    for name in ["mission_name", "orbit_accumulation", "scene_frame", "scan_number"]:
        marker = object()
        assert decoders.translations[name](marker) is marker, name
    # unhashable codes fail in the lookup itself
    for name in ["observation_mode", "processing_method"]:
        try:
            decoders.translations[name]([])
        except TypeError as e:
            assert "unhashable" in str(e)
        else:
            raise AssertionError("expected a TypeError")
    # the scan info decoder returns a new dict every time
    first = decoders.decode_scan_info(None)
    second = decoders.decode_scan_info(None)
    assert first == {} and second == {} and first is not second
    # the public names are still there
    for name in [
        "scene_id_re", "product_id_re", "scan_info_re", "fname_re", "observation_modes",
        "observation_directions", "processing_levels", "processing_options", "map_projections",
        "orbit_directions", "processing_methods", "resampling_methods", "processing_facilities",
        "parse_date", "lookup", "translations", "decode_scene_id", "decode_product_id",
        "decode_scan_info", "decode_filename", "passthrough",
    ]:
        assert hasattr(decoders, name), name
    assert isinstance(decoders.translations, dict)


EXPECTED = None  # filled below


def test_equivalent():
    observed = observe()
    assert sorted(observed) == sorted(EXPECTED)
    for section, expected in EXPECTED.items():
        actual = observed[section]
        assert len(actual) == len(expected), section
        for a, e in zip(actual, expected):
            assert a == e, (section, a, e)
    check_identity()


# EXPECTED-BEGIN
# fmt: off
EXPECTED = {'scene_id': [('ALOS2225333200-180726',
               ('returns', 'dict',
                [('mission_name', 'ALOS2'), ('orbit_accumulation', '22533'), ('scene_frame', '3200'),
                 ('date', datetime.datetime(2018, 7, 26, 0, 0))])),
              ('ALOS2000000000-000229',
               ('returns', 'dict',
                [('mission_name', 'ALOS2'), ('orbit_accumulation', '00000'), ('scene_frame', '0000'),
                 ('date', datetime.datetime(2000, 2, 29, 0, 0))])),
              ('ALOS2999999999-991231',
               ('returns', 'dict',
                [('mission_name', 'ALOS2'), ('orbit_accumulation', '99999'), ('scene_frame', '9999'),
                 ('date', datetime.datetime(1999, 12, 31, 0, 0))])),
              ('ALOS2123450010-680101',
               ('returns', 'dict',
                [('mission_name', 'ALOS2'), ('orbit_accumulation', '12345'), ('scene_frame', '0010'),
                 ('date', datetime.datetime(2068, 1, 1, 0, 0))])),
              ('ALOS2123450010-690101',
               ('returns', 'dict',
                [('mission_name', 'ALOS2'), ('orbit_accumulation', '12345'), ('scene_frame', '0010'),
                 ('date', datetime.datetime(1969, 1, 1, 0, 0))])),
              ('ABCDE123450010-200101',
               ('returns', 'dict',
                [('mission_name', 'ABCDE'), ('orbit_accumulation', '12345'), ('scene_frame', '0010'),
                 ('date', datetime.datetime(2020, 1, 1, 0, 0))])),
              ('A1B2C000010000-240229',
               ('returns', 'dict',
                [('mission_name', 'A1B2C'), ('orbit_accumulation', '00001'), ('scene_frame', '0000'),
                 ('date', datetime.datetime(2024, 2, 29, 0, 0))])),
              ('ALOS2225333200-180732',
               ('raises', ('ValueError', 'invalid scene id: ALOS2225333200-180732'), 'cause', ('ValueError', 'unconverted data remains: 2'),
                'context', ('ValueError', 'unconverted data remains: 2'), True)),
              ('ALOS2225333200-181301',
               ('raises', ('ValueError', 'invalid scene id: ALOS2225333200-181301'), 'cause', ('ValueError', 'unconverted data remains: 1'),
                'context', ('ValueError', 'unconverted data remains: 1'), True)),
              ('ALOS2225333200-180229',
               ('raises', ('ValueError', 'invalid scene id: ALOS2225333200-180229'), 'cause', ('ValueError', 'day is out of range for month'),
                'context', ('ValueError', 'day is out of range for month'), True)),
              ('ALOS2225333200-000000',
               ('raises', ('ValueError', 'invalid scene id: ALOS2225333200-000000'), 'cause',
                ('ValueError', "time data '000000' does not match format '%y%m%d'"), 'context',
                ('ValueError', "time data '000000' does not match format '%y%m%d'"), True)),
              ('ALOS2225333200-987433',
               ('raises', ('ValueError', 'invalid scene id: ALOS2225333200-987433'), 'cause', ('ValueError', 'unconverted data remains: 33'),
                'context', ('ValueError', 'unconverted data remains: 33'), True)),
              ('ALOS2xxxxx3200-180726', ('raises', ('ValueError', 'invalid scene id: ALOS2xxxxx3200-180726'), 'cause', None, 'context', None, False)),
              ('ALOS2225333200-a87433', ('raises', ('ValueError', 'invalid scene id: ALOS2225333200-a87433'), 'cause', None, 'context', None, False)),
              ('alos2225333200-180726', ('raises', ('ValueError', 'invalid scene id: alos2225333200-180726'), 'cause', None, 'context', None, False)),
              ('ALOS2225333200-1807266',
               ('raises', ('ValueError', 'invalid scene id: ALOS2225333200-1807266'), 'cause', None, 'context', None, False)),
              ('ALOS2225333200-18072', ('raises', ('ValueError', 'invalid scene id: ALOS2225333200-18072'), 'cause', None, 'context', None, False)),
              ('ALOS2225333200_180726', ('raises', ('ValueError', 'invalid scene id: ALOS2225333200_180726'), 'cause', None, 'context', None, False)),
              ('ALOS2225333200-180726\n',
               ('raises', ('ValueError', 'invalid scene id: ALOS2225333200-180726\n'), 'cause', None, 'context', None, False)),
              (' ALOS2225333200-180726',
               ('raises', ('ValueError', 'invalid scene id:  ALOS2225333200-180726'), 'cause', None, 'context', None, False)),
              ('XALOS2225333200-180726',
               ('raises', ('ValueError', 'invalid scene id: XALOS2225333200-180726'), 'cause', None, 'context', None, False)),
              ('', ('raises', ('ValueError', 'invalid scene id: '), 'cause', None, 'context', None, False)),
              (None, ('raises', ('TypeError', "expected string or bytes-like object, got 'NoneType'"), 'cause', None, 'context', None, False)),
              (b'ALOS2225333200-180726',
               ('raises', ('TypeError', 'cannot use a string pattern on a bytes-like object'), 'cause', None, 'context', None, False)),
              (20, ('raises', ('TypeError', "expected string or bytes-like object, got 'int'"), 'cause', None, 'context', None, False))],
 'product_id': [('FBDL1.0GUA',
                 ('returns', 'dict',
                  [('observation_mode', 'fine mode dual polarization'), ('observation_direction', 'left looking'), ('processing_level', 'level 1.0'),
                   ('processing_option', 'geo-code'), ('map_projection', 'UTM'), ('orbit_direction', 'ascending')])),
                ('FBQL1.0GUA',
                 ('returns', 'dict',
                  [('observation_mode', 'fine mode full (quad.) polarimetry'), ('observation_direction', 'left looking'),
                   ('processing_level', 'level 1.0'), ('processing_option', 'geo-code'), ('map_projection', 'UTM'),
                   ('orbit_direction', 'ascending')])),
                ('FBSL1.0GUA',
                 ('returns', 'dict',
                  [('observation_mode', 'fine mode single polarization'), ('observation_direction', 'left looking'),
                   ('processing_level', 'level 1.0'), ('processing_option', 'geo-code'), ('map_projection', 'UTM'),
                   ('orbit_direction', 'ascending')])),
                ('HBDL1.0GUA',
                 ('returns', 'dict',
                  [('observation_mode', 'high-sensitive mode dual polarization'), ('observation_direction', 'left looking'),
                   ('processing_level', 'level 1.0'), ('processing_option', 'geo-code'), ('map_projection', 'UTM'),
                   ('orbit_direction', 'ascending')])),
                ('HBQL1.0GUA',
                 ('returns', 'dict',
                  [('observation_mode', 'high-sensitive mode full (quad.) polarimetry'), ('observation_direction', 'left looking'),
                   ('processing_level', 'level 1.0'), ('processing_option', 'geo-code'), ('map_projection', 'UTM'),
                   ('orbit_direction', 'ascending')])),
                ('HBSL1.0GUA',
                 ('returns', 'dict',
                  [('observation_mode', 'high-sensitive mode single polarization'), ('observation_direction', 'left looking'),
                   ('processing_level', 'level 1.0'), ('processing_option', 'geo-code'), ('map_projection', 'UTM'),
                   ('orbit_direction', 'ascending')])),
                ('SBSL1.0GUA',
                 ('returns', 'dict',
                  [('observation_mode', 'spotlight mode'), ('observation_direction', 'left looking'), ('processing_level', 'level 1.0'),
                   ('processing_option', 'geo-code'), ('map_projection', 'UTM'), ('orbit_direction', 'ascending')])),
                ('UBDL1.0GUA',
                 ('returns', 'dict',
                  [('observation_mode', 'ultra-fine mode dual polarization'), ('observation_direction', 'left looking'),
                   ('processing_level', 'level 1.0'), ('processing_option', 'geo-code'), ('map_projection', 'UTM'),
                   ('orbit_direction', 'ascending')])),
                ('UBSL1.0GUA',
                 ('returns', 'dict',
                  [('observation_mode', 'ultra-fine mode single polarization'), ('observation_direction', 'left looking'),
                   ('processing_level', 'level 1.0'), ('processing_option', 'geo-code'), ('map_projection', 'UTM'),
                   ('orbit_direction', 'ascending')])),
                ('VBDL1.0GUA',
                 ('returns', 'dict',
                  [('observation_mode', 'ScanSAR wide mode dual polarization'), ('observation_direction', 'left looking'),
                   ('processing_level', 'level 1.0'), ('processing_option', 'geo-code'), ('map_projection', 'UTM'),
                   ('orbit_direction', 'ascending')])),
                ('VBSL1.0GUA',
                 ('returns', 'dict',
                  [('observation_mode', 'ScanSAR wide mode single polarization'), ('observation_direction', 'left looking'),
                   ('processing_level', 'level 1.0'), ('processing_option', 'geo-code'), ('map_projection', 'UTM'),
                   ('orbit_direction', 'ascending')])),
                ('WBDL1.0GUA',
                 ('returns', 'dict',
                  [('observation_mode', 'ScanSAR nominal 14MHz mode dual polarization'), ('observation_direction', 'left looking'),
                   ('processing_level', 'level 1.0'), ('processing_option', 'geo-code'), ('map_projection', 'UTM'),
                   ('orbit_direction', 'ascending')])),
                ('WBSL1.0GUA',
                 ('returns', 'dict',
                  [('observation_mode', 'ScanSAR nominal 14MHz mode single polarization'), ('observation_direction', 'left looking'),
                   ('processing_level', 'level 1.0'), ('processing_option', 'geo-code'), ('map_projection', 'UTM'),
                   ('orbit_direction', 'ascending')])),
                ('WWDL1.0GUA',
                 ('returns', 'dict',
                  [('observation_mode', 'ScanSAR nominal 28MHz mode dual polarization'), ('observation_direction', 'left looking'),
                   ('processing_level', 'level 1.0'), ('processing_option', 'geo-code'), ('map_projection', 'UTM'),
                   ('orbit_direction', 'ascending')])),
                ('WWSL1.0GUA',
                 ('returns', 'dict',
                  [('observation_mode', 'ScanSAR nominal 28MHz mode single polarization'), ('observation_direction', 'left looking'),
                   ('processing_level', 'level 1.0'), ('processing_option', 'geo-code'), ('map_projection', 'UTM'),
                   ('orbit_direction', 'ascending')])),
                ('WWDL1.1__D',
                 ('returns', 'dict',
                  [('observation_mode', 'ScanSAR nominal 28MHz mode dual polarization'), ('observation_direction', 'left looking'),
                   ('processing_level', 'level 1.1'), ('processing_option', 'not specified'), ('map_projection', 'not specified'),
                   ('orbit_direction', 'descending')])),
                ('WWDR1.1__D',
                 ('returns', 'dict',
                  [('observation_mode', 'ScanSAR nominal 28MHz mode dual polarization'), ('observation_direction', 'right looking'),
                   ('processing_level', 'level 1.1'), ('processing_option', 'not specified'), ('map_projection', 'not specified'),
                   ('orbit_direction', 'descending')])),
                ('WWDR1.0__D',
                 ('returns', 'dict',
                  [('observation_mode', 'ScanSAR nominal 28MHz mode dual polarization'), ('observation_direction', 'right looking'),
                   ('processing_level', 'level 1.0'), ('processing_option', 'not specified'), ('map_projection', 'not specified'),
                   ('orbit_direction', 'descending')])),
                ('WWDR1.1__D',
                 ('returns', 'dict',
                  [('observation_mode', 'ScanSAR nominal 28MHz mode dual polarization'), ('observation_direction', 'right looking'),
                   ('processing_level', 'level 1.1'), ('processing_option', 'not specified'), ('map_projection', 'not specified'),
                   ('orbit_direction', 'descending')])),
                ('WWDR1.5__D',
                 ('returns', 'dict',
                  [('observation_mode', 'ScanSAR nominal 28MHz mode dual polarization'), ('observation_direction', 'right looking'),
                   ('processing_level', 'level 1.5'), ('processing_option', 'not specified'), ('map_projection', 'not specified'),
                   ('orbit_direction', 'descending')])),
                ('WWDR3.1__D',
                 ('returns', 'dict',
                  [('observation_mode', 'ScanSAR nominal 28MHz mode dual polarization'), ('observation_direction', 'right looking'),
                   ('processing_level', 'level 3.1'), ('processing_option', 'not specified'), ('map_projection', 'not specified'),
                   ('orbit_direction', 'descending')])),
                ('WWDR1.5G_D',
                 ('returns', 'dict',
                  [('observation_mode', 'ScanSAR nominal 28MHz mode dual polarization'), ('observation_direction', 'right looking'),
                   ('processing_level', 'level 1.5'), ('processing_option', 'geo-code'), ('map_projection', 'not specified'),
                   ('orbit_direction', 'descending')])),
                ('WWDR1.5R_D',
                 ('returns', 'dict',
                  [('observation_mode', 'ScanSAR nominal 28MHz mode dual polarization'), ('observation_direction', 'right looking'),
                   ('processing_level', 'level 1.5'), ('processing_option', 'geo-reference'), ('map_projection', 'not specified'),
                   ('orbit_direction', 'descending')])),
                ('WWDR1.5__D',
                 ('returns', 'dict',
                  [('observation_mode', 'ScanSAR nominal 28MHz mode dual polarization'), ('observation_direction', 'right looking'),
                   ('processing_level', 'level 1.5'), ('processing_option', 'not specified'), ('map_projection', 'not specified'),
                   ('orbit_direction', 'descending')])),
                ('WWDR1.5GUD',
                 ('returns', 'dict',
                  [('observation_mode', 'ScanSAR nominal 28MHz mode dual polarization'), ('observation_direction', 'right looking'),
                   ('processing_level', 'level 1.5'), ('processing_option', 'geo-code'), ('map_projection', 'UTM'),
                   ('orbit_direction', 'descending')])),
                ('WWDR1.5GPD',
                 ('returns', 'dict',
                  [('observation_mode', 'ScanSAR nominal 28MHz mode dual polarization'), ('observation_direction', 'right looking'),
                   ('processing_level', 'level 1.5'), ('processing_option', 'geo-code'), ('map_projection', 'PS'),
                   ('orbit_direction', 'descending')])),
                ('WWDR1.5GMD',
                 ('returns', 'dict',
                  [('observation_mode', 'ScanSAR nominal 28MHz mode dual polarization'), ('observation_direction', 'right looking'),
                   ('processing_level', 'level 1.5'), ('processing_option', 'geo-code'), ('map_projection', 'MER'),
                   ('orbit_direction', 'descending')])),
                ('WWDR1.5GLD',
                 ('returns', 'dict',
                  [('observation_mode', 'ScanSAR nominal 28MHz mode dual polarization'), ('observation_direction', 'right looking'),
                   ('processing_level', 'level 1.5'), ('processing_option', 'geo-code'), ('map_projection', 'LCC'),
                   ('orbit_direction', 'descending')])),
                ('WWDR1.5G_D',
                 ('returns', 'dict',
                  [('observation_mode', 'ScanSAR nominal 28MHz mode dual polarization'), ('observation_direction', 'right looking'),
                   ('processing_level', 'level 1.5'), ('processing_option', 'geo-code'), ('map_projection', 'not specified'),
                   ('orbit_direction', 'descending')])),
                ('WWDR1.5GUA',
                 ('returns', 'dict',
                  [('observation_mode', 'ScanSAR nominal 28MHz mode dual polarization'), ('observation_direction', 'right looking'),
                   ('processing_level', 'level 1.5'), ('processing_option', 'geo-code'), ('map_projection', 'UTM'),
                   ('orbit_direction', 'ascending')])),
                ('WWDR1.5GUD',
                 ('returns', 'dict',
                  [('observation_mode', 'ScanSAR nominal 28MHz mode dual polarization'), ('observation_direction', 'right looking'),
                   ('processing_level', 'level 1.5'), ('processing_option', 'geo-code'), ('map_projection', 'UTM'),
                   ('orbit_direction', 'descending')])),
                ('VBSL3.1RLA',
                 ('returns', 'dict',
                  [('observation_mode', 'ScanSAR wide mode single polarization'), ('observation_direction', 'left looking'),
                   ('processing_level', 'level 3.1'), ('processing_option', 'geo-reference'), ('map_projection', 'LCC'),
                   ('orbit_direction', 'ascending')])),
                ('VBSL3.1RLD',
                 ('returns', 'dict',
                  [('observation_mode', 'ScanSAR wide mode single polarization'), ('observation_direction', 'left looking'),
                   ('processing_level', 'level 3.1'), ('processing_option', 'geo-reference'), ('map_projection', 'LCC'),
                   ('orbit_direction', 'descending')])),
                ('VBSL3.1R_A',
                 ('returns', 'dict',
                  [('observation_mode', 'ScanSAR wide mode single polarization'), ('observation_direction', 'left looking'),
                   ('processing_level', 'level 3.1'), ('processing_option', 'geo-reference'), ('map_projection', 'not specified'),
                   ('orbit_direction', 'ascending')])),
                ('VBSL3.1R_D',
                 ('returns', 'dict',
                  [('observation_mode', 'ScanSAR wide mode single polarization'), ('observation_direction', 'left looking'),
                   ('processing_level', 'level 3.1'), ('processing_option', 'geo-reference'), ('map_projection', 'not specified'),
                   ('orbit_direction', 'descending')])),
                ('VBSL3.1_LA',
                 ('returns', 'dict',
                  [('observation_mode', 'ScanSAR wide mode single polarization'), ('observation_direction', 'left looking'),
                   ('processing_level', 'level 3.1'), ('processing_option', 'not specified'), ('map_projection', 'LCC'),
                   ('orbit_direction', 'ascending')])),
                ('VBSL3.1_LD',
                 ('returns', 'dict',
                  [('observation_mode', 'ScanSAR wide mode single polarization'), ('observation_direction', 'left looking'),
                   ('processing_level', 'level 3.1'), ('processing_option', 'not specified'), ('map_projection', 'LCC'),
                   ('orbit_direction', 'descending')])),
                ('VBSL3.1__A',
                 ('returns', 'dict',
                  [('observation_mode', 'ScanSAR wide mode single polarization'), ('observation_direction', 'left looking'),
                   ('processing_level', 'level 3.1'), ('processing_option', 'not specified'), ('map_projection', 'not specified'),
                   ('orbit_direction', 'ascending')])),
                ('VBSL3.1__D',
                 ('returns', 'dict',
                  [('observation_mode', 'ScanSAR wide mode single polarization'), ('observation_direction', 'left looking'),
                   ('processing_level', 'level 3.1'), ('processing_option', 'not specified'), ('map_projection', 'not specified'),
                   ('orbit_direction', 'descending')])),
                ('VBSR3.1RLA',
                 ('returns', 'dict',
                  [('observation_mode', 'ScanSAR wide mode single polarization'), ('observation_direction', 'right looking'),
                   ('processing_level', 'level 3.1'), ('processing_option', 'geo-reference'), ('map_projection', 'LCC'),
                   ('orbit_direction', 'ascending')])),
                ('VBSR3.1RLD',
                 ('returns', 'dict',
                  [('observation_mode', 'ScanSAR wide mode single polarization'), ('observation_direction', 'right looking'),
                   ('processing_level', 'level 3.1'), ('processing_option', 'geo-reference'), ('map_projection', 'LCC'),
                   ('orbit_direction', 'descending')])),
                ('VBSR3.1R_A',
                 ('returns', 'dict',
                  [('observation_mode', 'ScanSAR wide mode single polarization'), ('observation_direction', 'right looking'),
                   ('processing_level', 'level 3.1'), ('processing_option', 'geo-reference'), ('map_projection', 'not specified'),
                   ('orbit_direction', 'ascending')])),
                ('VBSR3.1R_D',
                 ('returns', 'dict',
                  [('observation_mode', 'ScanSAR wide mode single polarization'), ('observation_direction', 'right looking'),
                   ('processing_level', 'level 3.1'), ('processing_option', 'geo-reference'), ('map_projection', 'not specified'),
                   ('orbit_direction', 'descending')])),
                ('VBSR3.1_LA',
                 ('returns', 'dict',
                  [('observation_mode', 'ScanSAR wide mode single polarization'), ('observation_direction', 'right looking'),
                   ('processing_level', 'level 3.1'), ('processing_option', 'not specified'), ('map_projection', 'LCC'),
                   ('orbit_direction', 'ascending')])),
                ('VBSR3.1_LD',
                 ('returns', 'dict',
                  [('observation_mode', 'ScanSAR wide mode single polarization'), ('observation_direction', 'right looking'),
                   ('processing_level', 'level 3.1'), ('processing_option', 'not specified'), ('map_projection', 'LCC'),
                   ('orbit_direction', 'descending')])),
                ('VBSR3.1__A',
                 ('returns', 'dict',
                  [('observation_mode', 'ScanSAR wide mode single polarization'), ('observation_direction', 'right looking'),
                   ('processing_level', 'level 3.1'), ('processing_option', 'not specified'), ('map_projection', 'not specified'),
                   ('orbit_direction', 'ascending')])),
                ('VBSR3.1__D',
                 ('returns', 'dict',
                  [('observation_mode', 'ScanSAR wide mode single polarization'), ('observation_direction', 'right looking'),
                   ('processing_level', 'level 3.1'), ('processing_option', 'not specified'), ('map_projection', 'not specified'),
                   ('orbit_direction', 'descending')])),
                ('XXXR1.1__D',
                 ('raises', ('ValueError', 'invalid product id: XXXR1.1__D'), 'cause', ('ValueError', "invalid code 'XXX'"), 'context',
                  ('ValueError', "invalid code 'XXX'"), True)),
                ('AAAL1.5GUA',
                 ('raises', ('ValueError', 'invalid product id: AAAL1.5GUA'), 'cause', ('ValueError', "invalid code 'AAA'"), 'context',
                  ('ValueError', "invalid code 'AAA'"), True)),
                ('WWWR3.1RPD',
                 ('raises', ('ValueError', 'invalid product id: WWWR3.1RPD'), 'cause', ('ValueError', "invalid code 'WWW'"), 'context',
                  ('ValueError', "invalid code 'WWW'"), True)),
                ('SBDL1.0_MA',
                 ('raises', ('ValueError', 'invalid product id: SBDL1.0_MA'), 'cause', ('ValueError', "invalid code 'SBD'"), 'context',
                  ('ValueError', "invalid code 'SBD'"), True)),
                ('WWDR1.1__', ('raises', ('ValueError', 'invalid product id: WWDR1.1__'), 'cause', None, 'context', None, False)),
                ('WWDR1.1__DD', ('raises', ('ValueError', 'invalid product id: WWDR1.1__DD'), 'cause', None, 'context', None, False)),
                ('WWDR2.0__D', ('raises', ('ValueError', 'invalid product id: WWDR2.0__D'), 'cause', None, 'context', None, False)),
                ('WWDR1.2__D', ('raises', ('ValueError', 'invalid product id: WWDR1.2__D'), 'cause', None, 'context', None, False)),
                ('WWDX1.1__D', ('raises', ('ValueError', 'invalid product id: WWDX1.1__D'), 'cause', None, 'context', None, False)),
                ('WWDR1.1X_D', ('raises', ('ValueError', 'invalid product id: WWDR1.1X_D'), 'cause', None, 'context', None, False)),
                ('WWDR1.1_XD', ('raises', ('ValueError', 'invalid product id: WWDR1.1_XD'), 'cause', None, 'context', None, False)),
                ('WWDR1.1__X', ('raises', ('ValueError', 'invalid product id: WWDR1.1__X'), 'cause', None, 'context', None, False)),
                ('wwdr1.1__d', ('raises', ('ValueError', 'invalid product id: wwdr1.1__d'), 'cause', None, 'context', None, False)),
                ('WWDR1.1__D\n', ('raises', ('ValueError', 'invalid product id: WWDR1.1__D\n'), 'cause', None, 'context', None, False)),
                ('WWDR1x1__D', ('raises', ('ValueError', 'invalid product id: WWDR1x1__D'), 'cause', None, 'context', None, False)),
                ('WWDR11__D', ('raises', ('ValueError', 'invalid product id: WWDR11__D'), 'cause', None, 'context', None, False)),
                ('', ('raises', ('ValueError', 'invalid product id: '), 'cause', None, 'context', None, False)),
                (None, ('raises', ('TypeError', "expected string or bytes-like object, got 'NoneType'"), 'cause', None, 'context', None, False)),
                (b'WWDR1.1__D',
                 ('raises', ('TypeError', 'cannot use a string pattern on a bytes-like object'), 'cause', None, 'context', None, False)),
                (3.1, ('raises', ('TypeError', "expected string or bytes-like object, got 'float'"), 'cause', None, 'context', None, False))],
 'scan_info': [(None, ('returns', 'dict', [])), ('B0', ('returns', 'dict', [('processing_method', 'SPECAN method'), ('scan_number', '0')])),
               ('B1', ('returns', 'dict', [('processing_method', 'SPECAN method'), ('scan_number', '1')])),
               ('B2', ('returns', 'dict', [('processing_method', 'SPECAN method'), ('scan_number', '2')])),
               ('B3', ('returns', 'dict', [('processing_method', 'SPECAN method'), ('scan_number', '3')])),
               ('B4', ('returns', 'dict', [('processing_method', 'SPECAN method'), ('scan_number', '4')])),
               ('B5', ('returns', 'dict', [('processing_method', 'SPECAN method'), ('scan_number', '5')])),
               ('B6', ('returns', 'dict', [('processing_method', 'SPECAN method'), ('scan_number', '6')])),
               ('B7', ('returns', 'dict', [('processing_method', 'SPECAN method'), ('scan_number', '7')])),
               ('B8', ('returns', 'dict', [('processing_method', 'SPECAN method'), ('scan_number', '8')])),
               ('B9', ('returns', 'dict', [('processing_method', 'SPECAN method'), ('scan_number', '9')])),
               ('F0', ('returns', 'dict', [('processing_method', 'full aperture_method'), ('scan_number', '0')])),
               ('F1', ('returns', 'dict', [('processing_method', 'full aperture_method'), ('scan_number', '1')])),
               ('F2', ('returns', 'dict', [('processing_method', 'full aperture_method'), ('scan_number', '2')])),
               ('F3', ('returns', 'dict', [('processing_method', 'full aperture_method'), ('scan_number', '3')])),
               ('F4', ('returns', 'dict', [('processing_method', 'full aperture_method'), ('scan_number', '4')])),
               ('F5', ('returns', 'dict', [('processing_method', 'full aperture_method'), ('scan_number', '5')])),
               ('F6', ('returns', 'dict', [('processing_method', 'full aperture_method'), ('scan_number', '6')])),
               ('F7', ('returns', 'dict', [('processing_method', 'full aperture_method'), ('scan_number', '7')])),
               ('F8', ('returns', 'dict', [('processing_method', 'full aperture_method'), ('scan_number', '8')])),
               ('F9', ('returns', 'dict', [('processing_method', 'full aperture_method'), ('scan_number', '9')])),
               ('X1', ('raises', ('ValueError', 'invalid scan info: X1'), 'cause', None, 'context', None, False)),
               ('b4', ('raises', ('ValueError', 'invalid scan info: b4'), 'cause', None, 'context', None, False)),
               ('B', ('raises', ('ValueError', 'invalid scan info: B'), 'cause', None, 'context', None, False)),
               ('F', ('raises', ('ValueError', 'invalid scan info: F'), 'cause', None, 'context', None, False)),
               ('4', ('raises', ('ValueError', 'invalid scan info: 4'), 'cause', None, 'context', None, False)),
               ('4B', ('raises', ('ValueError', 'invalid scan info: 4B'), 'cause', None, 'context', None, False)),
               ('B10', ('raises', ('ValueError', 'invalid scan info: B10'), 'cause', None, 'context', None, False)),
               ('BB', ('raises', ('ValueError', 'invalid scan info: BB'), 'cause', None, 'context', None, False)),
               ('', ('raises', ('ValueError', 'invalid scan info: '), 'cause', None, 'context', None, False)),
               (' B4', ('raises', ('ValueError', 'invalid scan info:  B4'), 'cause', None, 'context', None, False)),
               ('B4 ', ('raises', ('ValueError', 'invalid scan info: B4 '), 'cause', None, 'context', None, False)),
               ('B4\n', ('raises', ('ValueError', 'invalid scan info: B4\n'), 'cause', None, 'context', None, False)),
               ('B-1', ('raises', ('ValueError', 'invalid scan info: B-1'), 'cause', None, 'context', None, False)),
               (b'B4', ('raises', ('TypeError', 'cannot use a string pattern on a bytes-like object'), 'cause', None, 'context', None, False)),
               (4, ('raises', ('TypeError', "expected string or bytes-like object, got 'int'"), 'cause', None, 'context', None, False)),
               (0, ('raises', ('TypeError', "expected string or bytes-like object, got 'int'"), 'cause', None, 'context', None, False)),
               ((), ('raises', ('TypeError', "expected string or bytes-like object, got 'tuple'"), 'cause', None, 'context', None, False))],
 'table_keys': ['observation_mode', 'observation_direction', 'processing_level', 'processing_option', 'map_projection', 'orbit_direction', 'date',
                'mission_name', 'orbit_accumulation', 'scene_frame', 'processing_method', 'scan_number'],
 'table': [('observation_mode', 'SBS', ('returns', 'str', 'spotlight mode')),
           ('observation_mode', 'WWD', ('returns', 'str', 'ScanSAR nominal 28MHz mode dual polarization')),
           ('observation_mode', 'VBD', ('returns', 'str', 'ScanSAR wide mode dual polarization')),
           ('observation_mode', 'XXX', ('raises', ('ValueError', "invalid code 'XXX'"), 'cause', None, 'context', None, False)),
           ('observation_mode', '', ('raises', ('ValueError', "invalid code ''"), 'cause', None, 'context', None, False)),
           ('observation_mode', 'sbs', ('raises', ('ValueError', "invalid code 'sbs'"), 'cause', None, 'context', None, False)),
           ('observation_direction', 'L', ('returns', 'str', 'left looking')), ('observation_direction', 'R', ('returns', 'str', 'right looking')),
           ('observation_direction', 'X', ('raises', ('ValueError', "invalid code 'X'"), 'cause', None, 'context', None, False)),
           ('observation_direction', '', ('raises', ('ValueError', "invalid code ''"), 'cause', None, 'context', None, False)),
           ('processing_level', '1.0', ('returns', 'str', 'level 1.0')), ('processing_level', '1.1', ('returns', 'str', 'level 1.1')),
           ('processing_level', '1.5', ('returns', 'str', 'level 1.5')), ('processing_level', '3.1', ('returns', 'str', 'level 3.1')),
           ('processing_level', '2.0', ('raises', ('ValueError', "invalid code '2.0'"), 'cause', None, 'context', None, False)),
           ('processing_level', '1.10', ('raises', ('ValueError', "invalid code '1.10'"), 'cause', None, 'context', None, False)),
           ('processing_level', 1.1, ('raises', ('ValueError', 'invalid code 1.1'), 'cause', None, 'context', None, False)),
           ('processing_option', 'G', ('returns', 'str', 'geo-code')), ('processing_option', 'R', ('returns', 'str', 'geo-reference')),
           ('processing_option', '_', ('returns', 'str', 'not specified')),
           ('processing_option', 'X', ('raises', ('ValueError', "invalid code 'X'"), 'cause', None, 'context', None, False)),
           ('map_projection', 'U', ('returns', 'str', 'UTM')), ('map_projection', 'P', ('returns', 'str', 'PS')),
           ('map_projection', 'M', ('returns', 'str', 'MER')), ('map_projection', 'L', ('returns', 'str', 'LCC')),
           ('map_projection', '_', ('returns', 'str', 'not specified')),
           ('map_projection', 'X', ('raises', ('ValueError', "invalid code 'X'"), 'cause', None, 'context', None, False)),
           ('map_projection', None, ('raises', ('ValueError', 'invalid code None'), 'cause', None, 'context', None, False)),
           ('orbit_direction', 'A', ('returns', 'str', 'ascending')), ('orbit_direction', 'D', ('returns', 'str', 'descending')),
           ('orbit_direction', 'X', ('raises', ('ValueError', "invalid code 'X'"), 'cause', None, 'context', None, False)),
           ('orbit_direction', 'AD', ('raises', ('ValueError', "invalid code 'AD'"), 'cause', None, 'context', None, False)),
           ('date', '180726', ('returns', 'datetime', datetime.datetime(2018, 7, 26, 0, 0))),
           ('date', '000229', ('returns', 'datetime', datetime.datetime(2000, 2, 29, 0, 0))),
           ('date', '180732', ('raises', ('ValueError', 'unconverted data remains: 2'), 'cause', None, 'context', None, False)),
           ('date', 'abcdef', ('raises', ('ValueError', "time data 'abcdef' does not match format '%y%m%d'"), 'cause', None, 'context', None, False)),
           ('date', '20180726', ('raises', ('ValueError', 'unconverted data remains: 0726'), 'cause', None, 'context', None, False)),
           ('date', '', ('raises', ('ValueError', "time data '' does not match format '%y%m%d'"), 'cause', None, 'context', None, False)),
           ('date', '1807', ('raises', ('ValueError', "time data '1807' does not match format '%y%m%d'"), 'cause', None, 'context', None, False)),
           ('date', None, ('raises', ('TypeError', 'strptime() argument 1 must be str, not None'), 'cause', None, 'context', None, False)),
           ('date', 180726, ('raises', ('TypeError', 'strptime() argument 1 must be str, not int'), 'cause', None, 'context', None, False)),
           ('mission_name', 'ALOS2', ('returns', 'str', 'ALOS2')), ('mission_name', '', ('returns', 'str', '')),
           ('mission_name', None, ('returns', 'NoneType', None)), ('mission_name', 1, ('returns', 'int', 1)),
           ('orbit_accumulation', '22533', ('returns', 'str', '22533')), ('orbit_accumulation', '', ('returns', 'str', '')),
           ('orbit_accumulation', None, ('returns', 'NoneType', None)), ('scene_frame', '3200', ('returns', 'str', '3200')),
           ('scene_frame', '', ('returns', 'str', '')), ('scene_frame', None, ('returns', 'NoneType', None)),
           ('processing_method', 'F', ('returns', 'str', 'full aperture_method')), ('processing_method', 'B', ('returns', 'str', 'SPECAN method')),
           ('processing_method', 'X', ('raises', ('ValueError', "invalid code 'X'"), 'cause', None, 'context', None, False)),
           ('processing_method', '', ('raises', ('ValueError', "invalid code ''"), 'cause', None, 'context', None, False)),
           ('scan_number', '0', ('returns', 'str', '0')), ('scan_number', '9', ('returns', 'str', '9')), ('scan_number', '', ('returns', 'str', '')),
           ('scan_number', None, ('returns', 'NoneType', None))],
 'lookup': [('returns', 'str', 'nearest-neighbor'), ('raises', ('ValueError', "invalid code 'XX'"), 'cause', None, 'context', None, False),
            ('returns', 'str', 'spacecraft control mission operation system'),
            ('raises', ('ValueError', "invalid code 'a'"), 'cause', None, 'context', None, False),
            ('raises', ('ValueError', "invalid code 'a'"), 'cause', None, 'context', None, False), ('returns', 'int', 0)]}
# fmt: on
# EXPECTED-END

if __name__ == "__main__":
    if "--record" in sys.argv:
        print("EXPECTED = " + pprint.pformat(observe(), width=150, compact=True, sort_dicts=False))
    else:
        test_equivalent()
        n = sum(len(v) for v in EXPECTED.values())
        print(f"equivalent: {n} recorded outcomes reproduced")
