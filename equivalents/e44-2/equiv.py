"""Equivalence check for refactoring 2: results recorded from the unchanged code.

Run: cd /tmp/wt6/e44 && PYTHONPATH=/tmp/wt6/e44 /venv/bin/python _eq/2/equiv.py
(also collectable by pytest: `pytest _eq/2/equiv.py`).
"""
import datetime
import sys

from ceos_alos2.hierarchy import Group, Variable

try:
    ExceptionGroup
except NameError:  # pragma: no cover
    from exceptiongroup import ExceptionGroup


def canon(obj):
    """Canonical, type- and order-preserving text form of a result."""
    if isinstance(obj, Group):
        return (
            f"Group(path={obj.path!r}, url={obj.url!r}, "
            f"data={canon(obj.data)}, attrs={canon(obj.attrs)})"
        )
    if isinstance(obj, Variable):  # pragma: no cover
        return f"Variable(dims={obj.dims!r}, data={obj.data!r}, attrs={canon(obj.attrs)})"
    if type(obj) is dict:
        return "{" + ", ".join(f"{canon(k)}: {canon(v)}" for k, v in obj.items()) + "}"
    if type(obj) is list:
        return "[" + ", ".join(canon(v) for v in obj) + "]"
    if type(obj) is tuple:
        return "(" + ", ".join(canon(v) for v in obj) + ",)"
    if isinstance(obj, (str, bytes, int, float, bool, type(None), datetime.datetime)):
        return f"{type(obj).__name__}:{obj!r}"
    return f"<{type(obj).__qualname__}>:{obj!r}"


def canon_exc(e):
    text = f"{type(e).__name__}{e.args!r}"
    if isinstance(e, ExceptionGroup):
        text += "[" + "; ".join(canon_exc(sub) for sub in e.exceptions) + "]"
    if e.__cause__ is not None:
        text += f" from {canon_exc(e.__cause__)}"
    return text


def outcome(func, *args, **kwargs):
    try:
        result = func(*args, **kwargs)
    except BaseException as e:  # noqa: B902 - StopIteration etc. are part of the record
        return "RAISES " + canon_exc(e)
    return "RETURNS " + canon(result)


def check(cases, expected, run):
    """Run every case; with --record print the table, otherwise compare."""
    actual = {name: run(*case) for name, case in cases.items()}
    if "--record" in sys.argv:
        print("EXPECTED = {")
        for name, value in actual.items():
            print(f"    {name!r}: (\n        {value!r}\n    ),")
        print("}")
        return 0

    assert list(actual) == list(expected), "case list and EXPECTED are out of sync"
    failures = [name for name in cases if actual[name] != expected[name]]
    for name in failures:
        print(f"MISMATCH {name}\n  expected: {expected[name]}\n  actual:   {actual[name]}")
    assert not failures, f"{len(failures)} of {len(cases)} cases differ"
    print(f"ok: {len(cases)} cases identical to the recorded behaviour")
    return 0


from ceos_alos2 import summary


class Text(str):
    """A str subclass: must be treated exactly like a str."""


CASES = {
    "empty": ({},),
    # the three cases of the test suite
    "suite_data_files": (
        {
            "CntOfL15ProductFileName": "5",
            "L15ProductFileName01": "a",
            "L15ProductFileName02": "b",
            "L15ProductFileName03": "c",
            "L15ProductFileName04": "d",
            "L15ProductFileName05": "e",
        },
    ),
    "suite_shapes": (
        {
            "NoOfPixels_1": " 9196",
            "NoOfPixels_2": " 8722",
            "NoOfLines_1": "60568",
            "NoOfLines_2": "75710",
        },
    ),
    "suite_other": ({"ProductDataSize": "798.2", "ProductFormat": "CEOS", "BitPixel": "16"},),
    # everything at once, in the order of a real summary file
    "complete": (
        {
            "ProductFormat": "CEOS",
            "CntOfL11ProductFileName": "6",
            "L11ProductFileName01": "VOL-ALOS2290760600-191011-WWDR1.1__D",
            "L11ProductFileName02": "LED-ALOS2290760600-191011-WWDR1.1__D",
            "L11ProductFileName03": "IMG-HH-ALOS2290760600-191011-WWDR1.1__D-F1",
            "L11ProductFileName04": "IMG-HV-ALOS2290760600-191011-WWDR1.1__D-F1",
            "L11ProductFileName05": "IMG-HH-ALOS2290760600-191011-WWDR1.1__D-F2",
            "L11ProductFileName06": "TRL-ALOS2290760600-191011-WWDR1.1__D",
            "BitPixel": "32",
            "NoOfPixels_HH_F1": " 9196",
            "NoOfLines_HH_F1": "60568",
            "NoOfPixels_HV": "8722",
            "NoOfLines_HV": "75710",
            "ProductDataSize": "4187.5",
        },
    ),
    # categories in another order: shapes first, then other, then files
    "reordered": (
        {
            "NoOfLines_1": "2",
            "BitPixel": "16",
            "L15ProductFileName01": "a",
            "NoOfPixels_1": "1",
            "L15ProductFileName02": "b",
            "Unknown": "kept as is",
            "L15ProductFileName03": "c",
        },
    ),
    "other_only_unknown_keys": ({"Foo": "bar", "Baz": ""},),
    "shapes_lines_before_pixels": ({"NoOfLines_A": "7", "NoOfPixels_A": "3"},),
    "shapes_interleaved_groups": (
        {"NoOfPixels_B": "1", "NoOfPixels_A": "2", "NoOfLines_A": "3", "NoOfLines_B": "4"},
    ),
    "shapes_extra_key_parts": (
        {"NoOfPixels_1_x": "1", "NoOfLines_1_y": "2", "NoOfPixels_1_z": "3"},
    ),
    "shapes_empty_group_name": ({"NoOfPixels_": "1", "NoOfLines_": "2"},),
    "shapes_whitespace_and_sign": ({"NoOfPixels_1": " +12 ", "NoOfLines_1": "\t-3\n"},),
    "shapes_underscore_digits": ({"NoOfPixels_1": "1_000", "NoOfLines_1": "0012"},),
    "shapes_str_subclass": ({Text("NoOfPixels_1"): Text("5"), Text("NoOfLines_1"): Text("6")},),
    # errors inside the shapes
    "shapes_missing_lines": ({"NoOfPixels_1": "1"},),
    "shapes_missing_pixels": ({"NoOfLines_1": "1"},),
    "shapes_missing_lines_bad_pixels": ({"NoOfPixels_1": "x"},),
    "shapes_second_group_incomplete": (
        {"NoOfPixels_1": "1", "NoOfLines_1": "2", "NoOfPixels_2": "3"},
    ),
    "shapes_bad_first_group_incomplete_second": (
        {"NoOfPixels_1": "x", "NoOfLines_1": "2", "NoOfPixels_2": "3"},
    ),
    "shapes_incomplete_first_bad_second": (
        {"NoOfPixels_1": "1", "NoOfPixels_2": "x", "NoOfLines_2": "y"},
    ),
    "shapes_bad_pixels": ({"NoOfPixels_1": "1.5", "NoOfLines_1": "2"},),
    "shapes_bad_lines": ({"NoOfPixels_1": "1", "NoOfLines_1": ""},),
    "shapes_both_bad": ({"NoOfPixels_1": "p", "NoOfLines_1": "l"},),
    "shapes_none_value": ({"NoOfPixels_1": None, "NoOfLines_1": "1"},),
    "shapes_no_separator": ({"NoOfPixels": "1", "NoOfLines": "2"},),
    "shapes_no_separator_second": ({"NoOfPixels_1": "1", "NoOfLines1": "2"},),
    "shapes_longer_prefix": ({"NoOfPixelsX_1": "1", "NoOfLinesX_1": "2"},),
    "shapes_longer_prefix_mixed": (
        {"NoOfPixels_1": "1", "NoOfLines_1": "2", "NoOfLinesOffset_1": "3"},
    ),
    # errors in the other categories, alone and competing with each other
    "files_too_few": ({"L15ProductFileName01": "a", "L15ProductFileName02": "b"},),
    "files_exactly_three": (
        {"L15ProductFileName01": "a", "L15ProductFileName02": "b", "L15ProductFileName03": "c"},
    ),
    "files_only_count": ({"CntOfL15ProductFileName": "0"},),
    "other_bad_bitpixel": ({"BitPixel": "16.0"},),
    "other_bad_size": ({"ProductDataSize": "big"},),
    "other_error_before_shape_error": ({"BitPixel": "x", "NoOfPixels_1": "y"},),
    "shape_error_before_other_error": ({"NoOfPixels_1": "y", "BitPixel": "x"},),
    "files_error_before_other_error": ({"L15ProductFileName01": "a", "BitPixel": "x"},),
    "other_error_before_files_error": ({"BitPixel": "x", "L15ProductFileName01": "a"},),
    "shape_error_before_files_error": ({"NoOfLines_1": "1", "L15ProductFileName01": "a"},),
    # odd inputs
    "non_string_key": ({1: "a"},),
    "tuple_key": ({("ProductFileName",): "a"},),
    "not_a_mapping": (None,),
    "list_of_pairs": ([("BitPixel", "16")],),
}


def run(section):
    first = outcome(summary.transform_product_info, section)
    # the input must not be modified, and a second call must give the same
    if isinstance(section, dict):
        before = canon(section)
        second = outcome(summary.transform_product_info, section)
        assert canon(section) == before
        assert first == second
    return first

# fmt: off
EXPECTED = {
    'empty': (
        "RETURNS Group(path='product_info', url=None, data={}, attrs={})"
    ),
    'suite_data_files': (
        "RETURNS Group(path='product_info', url=None, data={str:'data_files': Group(path='product_info/data_files', url=None, data={}, attrs={str:'volume_directory': str:'a', str:'sar_leader': str:'b', str:'sar_imagery': [str:'c', str:'d'], str:'sar_trailer': str:'e'})}, attrs={})"
    ),
    'suite_shapes': (
        "RETURNS Group(path='product_info', url=None, data={str:'shapes': Group(path='product_info/shapes', url=None, data={}, attrs={str:'1': (int:9196, int:60568,), str:'2': (int:8722, int:75710,)})}, attrs={})"
    ),
    'suite_other': (
        "RETURNS Group(path='product_info', url=None, data={}, attrs={str:'ProductDataSize': float:798.2, str:'ProductFormat': str:'CEOS', str:'BitPixel': int:16})"
    ),
    'complete': (
        "RETURNS Group(path='product_info', url=None, data={str:'data_files': Group(path='product_info/data_files', url=None, data={}, attrs={str:'volume_directory': str:'VOL-ALOS2290760600-191011-WWDR1.1__D', str:'sar_leader': str:'LED-ALOS2290760600-191011-WWDR1.1__D', str:'sar_imagery': [str:'IMG-HH-ALOS2290760600-191011-WWDR1.1__D-F1', str:'IMG-HV-ALOS2290760600-191011-WWDR1.1__D-F1', str:'IMG-HH-ALOS2290760600-191011-WWDR1.1__D-F2'], str:'sar_trailer': str:'TRL-ALOS2290760600-191011-WWDR1.1__D'}), str:'shapes': Group(path='product_info/shapes', url=None, data={}, attrs={str:'HH': (int:9196, int:60568,), str:'HV': (int:8722, int:75710,)})}, attrs={str:'ProductFormat': str:'CEOS', str:'BitPixel': int:32, str:'ProductDataSize': float:4187.5})"
    ),
    'reordered': (
        "RETURNS Group(path='product_info', url=None, data={str:'shapes': Group(path='product_info/shapes', url=None, data={}, attrs={str:'1': (int:1, int:2,)}), str:'data_files': Group(path='product_info/data_files', url=None, data={}, attrs={str:'volume_directory': str:'a', str:'sar_leader': str:'b', str:'sar_imagery': [], str:'sar_trailer': str:'c'})}, attrs={str:'BitPixel': int:16, str:'Unknown': str:'kept as is'})"
    ),
    'other_only_unknown_keys': (
        "RETURNS Group(path='product_info', url=None, data={}, attrs={str:'Foo': str:'bar', str:'Baz': str:''})"
    ),
    'shapes_lines_before_pixels': (
        "RETURNS Group(path='product_info', url=None, data={str:'shapes': Group(path='product_info/shapes', url=None, data={}, attrs={str:'A': (int:3, int:7,)})}, attrs={})"
    ),
    'shapes_interleaved_groups': (
        "RETURNS Group(path='product_info', url=None, data={str:'shapes': Group(path='product_info/shapes', url=None, data={}, attrs={str:'B': (int:1, int:4,), str:'A': (int:2, int:3,)})}, attrs={})"
    ),
    'shapes_extra_key_parts': (
        "RETURNS Group(path='product_info', url=None, data={str:'shapes': Group(path='product_info/shapes', url=None, data={}, attrs={str:'1': (int:3, int:2,)})}, attrs={})"
    ),
    'shapes_empty_group_name': (
        "RETURNS Group(path='product_info', url=None, data={str:'shapes': Group(path='product_info/shapes', url=None, data={}, attrs={str:'': (int:1, int:2,)})}, attrs={})"
    ),
    'shapes_whitespace_and_sign': (
        "RETURNS Group(path='product_info', url=None, data={str:'shapes': Group(path='product_info/shapes', url=None, data={}, attrs={str:'1': (int:12, int:-3,)})}, attrs={})"
    ),
    'shapes_underscore_digits': (
        "RETURNS Group(path='product_info', url=None, data={str:'shapes': Group(path='product_info/shapes', url=None, data={}, attrs={str:'1': (int:1000, int:12,)})}, attrs={})"
    ),
    'shapes_str_subclass': (
        "RETURNS Group(path='product_info', url=None, data={str:'shapes': Group(path='product_info/shapes', url=None, data={}, attrs={str:'1': (int:5, int:6,)})}, attrs={})"
    ),
    'shapes_missing_lines': (
        "RAISES KeyError('NoOfLines',)"
    ),
    'shapes_missing_pixels': (
        "RAISES KeyError('NoOfPixels',)"
    ),
    'shapes_missing_lines_bad_pixels': (
        "RAISES KeyError('NoOfLines',)"
    ),
    'shapes_second_group_incomplete': (
        "RAISES KeyError('NoOfLines',)"
    ),
    'shapes_bad_first_group_incomplete_second': (
        'RAISES ValueError("invalid literal for int() with base 10: \'x\'",)'
    ),
    'shapes_incomplete_first_bad_second': (
        "RAISES KeyError('NoOfLines',)"
    ),
    'shapes_bad_pixels': (
        'RAISES ValueError("invalid literal for int() with base 10: \'1.5\'",)'
    ),
    'shapes_bad_lines': (
        'RAISES ValueError("invalid literal for int() with base 10: \'\'",)'
    ),
    'shapes_both_bad': (
        'RAISES ValueError("invalid literal for int() with base 10: \'p\'",)'
    ),
    'shapes_none_value': (
        'RAISES TypeError("int() argument must be a string, a bytes-like object or a real number, not \'NoneType\'",)'
    ),
    'shapes_no_separator': (
        'RAISES StopIteration()'
    ),
    'shapes_no_separator_second': (
        'RAISES StopIteration()'
    ),
    'shapes_longer_prefix': (
        "RAISES KeyError('NoOfPixels',)"
    ),
    'shapes_longer_prefix_mixed': (
        "RETURNS Group(path='product_info', url=None, data={str:'shapes': Group(path='product_info/shapes', url=None, data={}, attrs={str:'1': (int:1, int:2,)})}, attrs={})"
    ),
    'files_too_few': (
        "RAISES ValueError('not enough values to unpack (expected at least 3, got 2)',)"
    ),
    'files_exactly_three': (
        "RETURNS Group(path='product_info', url=None, data={str:'data_files': Group(path='product_info/data_files', url=None, data={}, attrs={str:'volume_directory': str:'a', str:'sar_leader': str:'b', str:'sar_imagery': [], str:'sar_trailer': str:'c'})}, attrs={})"
    ),
    'files_only_count': (
        "RAISES ValueError('not enough values to unpack (expected at least 3, got 0)',)"
    ),
    'other_bad_bitpixel': (
        'RAISES ValueError("invalid literal for int() with base 10: \'16.0\'",)'
    ),
    'other_bad_size': (
        'RAISES ValueError("could not convert string to float: \'big\'",)'
    ),
    'other_error_before_shape_error': (
        'RAISES ValueError("invalid literal for int() with base 10: \'x\'",)'
    ),
    'shape_error_before_other_error': (
        "RAISES KeyError('NoOfLines',)"
    ),
    'files_error_before_other_error': (
        "RAISES ValueError('not enough values to unpack (expected at least 3, got 1)',)"
    ),
    'other_error_before_files_error': (
        'RAISES ValueError("invalid literal for int() with base 10: \'x\'",)'
    ),
    'shape_error_before_files_error': (
        "RAISES KeyError('NoOfPixels',)"
    ),
    'non_string_key': (
        'RAISES TypeError("argument of type \'int\' is not iterable",)'
    ),
    'tuple_key': (
        'RAISES AttributeError("\'tuple\' object has no attribute \'startswith\'",)'
    ),
    'not_a_mapping': (
        'RAISES AttributeError("\'NoneType\' object has no attribute \'items\'",)'
    ),
    'list_of_pairs': (
        'RAISES AttributeError("\'list\' object has no attribute \'items\'",)'
    ),
}
# fmt: on


def test_equivalence():
    check(CASES, EXPECTED, run)


if __name__ == "__main__":
    check(CASES, EXPECTED, run)
