"""Equivalence check for refactoring 4 (summary.transform_product_info).

Run as

    cd /tmp/wt9/e74 && PYTHONPATH=/tmp/wt9/e74 /venv/bin/python _eq/4/equiv.py

(or through pytest). ``EXPECTED`` was recorded from the unchanged code with
``equiv.py --record``; the script has to pass with and without ``patch.diff``.
"""

import pprint
import sys

from fsspec.mapping import FSMap

from ceos_alos2 import summary
from ceos_alos2.hierarchy import Group, Variable

try:
    ExceptionGroup
except NameError:  # pragma: no cover
    from exceptiongroup import ExceptionGroup


def describe_exc(e, depth=0):
    """a compact text form of an exception: type, arguments and how it is chained"""
    if e is None:
        return None

    parts = [f"{type(e).__module__}.{type(e).__qualname__}{e.args!r}"]
    if isinstance(e, OSError):
        parts.append(f"errno={e.errno!r} filename={e.filename!r}")
    if isinstance(e, ExceptionGroup):
        members = ", ".join(describe_exc(sub, depth + 1) for sub in e.exceptions)
        parts.append(f"message={e.message!r} exceptions=[{members}]")
    parts.append(f"suppress_context={e.__suppress_context__}")
    if depth < 4:
        parts.append(f"cause=({describe_exc(e.__cause__, depth + 1)})")
        parts.append(f"context=({describe_exc(e.__context__, depth + 1)})")
    # the name of this module depends on how it is run (script or pytest)
    return " ".join(parts).replace(f"{__name__}.", "local.")


def describe(value):
    """a compact, deterministic text form of results (keeps the types and the order of items)"""
    if isinstance(value, Group):
        fields = ", ".join(
            f"{name}={describe(getattr(value, name))}" for name in ("path", "url", "attrs", "data")
        )
        return f"Group({fields})"
    if isinstance(value, Variable):
        return f"Variable({describe(value.dims)}, {describe(value.data)}, {describe(value.attrs)})"
    if type(value) is dict:
        return "{" + ", ".join(f"{describe(k)}: {describe(v)}" for k, v in value.items()) + "}"
    if type(value) is list:
        return "[" + ", ".join(describe(v) for v in value) + "]"
    if type(value) is tuple:
        return "(" + "".join(f"{describe(v)}, " for v in value) + ")"
    if type(value) in (str, bytes, int, float, bool, type(None)):
        return repr(value)
    if isinstance(value, FSMap):
        return f"<{type(value).__name__} {value._root if hasattr(value, '_root') else value.root}>"
    text = repr(value)
    if " at 0x" in text:
        return f"<{type(value).__name__}>"
    return f"<{type(value).__name__} {text}>"


def call(f, *args, **kwargs):
    try:
        result = f(*args, **kwargs)
    except BaseException as e:  # noqa: B036
        return {"raised": describe_exc(e)}
    return {"returned": describe(result)}


files = {f"L11ProductFileName{index:02d}": f"file{index}" for index in range(1, 8)}
count = {"CntOfL11ProductFileName": "7"}
shapes = {
    "NoOfPixels_1": " 9196",
    "NoOfLines_1": "60568",
    "NoOfPixels_2": " 8722",
    "NoOfLines_2": "75710",
}
other = {"ProductFormat": "CEOS", "BitPixel": "16", "ProductDataSize": "798.2"}


def take(mapping, *names):
    return {name: mapping[name] for name in names}


def reverse(mapping):
    return dict(reversed(list(mapping.items())))


def interleave(*mappings):
    iterators = [iter(m.items()) for m in mappings]
    result = {}
    while iterators:
        for iterator in list(iterators):
            try:
                key, value = next(iterator)
            except StopIteration:
                iterators.remove(iterator)
            else:
                result[key] = value
    return result


first3 = take(files, "L11ProductFileName01", "L11ProductFileName02", "L11ProductFileName03")
first2 = take(files, "L11ProductFileName01", "L11ProductFileName02")

sections = {
    # what the summary files contain
    "empty": {},
    "files": count | files,
    "files-count-last": files | count,
    "files-no-count": files,
    "files-three": count | first3,
    "files-l15": {k.replace("L11", "L15"): v for k, v in (count | files).items()},
    "shapes": shapes,
    "shapes-single": take(shapes, "NoOfPixels_1", "NoOfLines_1"),
    "shapes-lines-first": reverse(shapes),
    "other": other,
    "other-unknown": other | {"Something": "else", "Number": "1"},
    "all": other | count | files | shapes,
    "all-reversed": reverse(other | count | files | shapes),
    "all-shapes-first": shapes | count | files | other,
    "all-interleaved": interleave(other, count | files, shapes),
    "files-and-shapes": count | first3 | shapes,
    "shapes-and-other": shapes | other,
    "other-after-files": first3 | take(other, "BitPixel"),
    # malformed sections
    "files-two": count | first2,
    "files-one": take(files, "L11ProductFileName01"),
    "files-only-count": count,
    "files-count-in-the-middle": first2 | count | take(files, "L11ProductFileName03"),
    "files-empty-names": {k: "" for k in first3},
    "files-non-string-values": dict(zip(first3, [1, None, ("a",)])),
    "files-lowercase-cnt": {"cntOfL11ProductFileName": "3"} | first3,
    "files-cnt-elsewhere": {"L11CntProductFileName": "3"} | first3,
    "files-and-pixels": {"NoOfPixels_ProductFileName": "a"} | first2,
    "files-suffix": {"ProductFileName": "a", "xProductFileNamey": "b", "ProductFileNames": "c"},
    "files-case": {"productfilename01": "a", "PRODUCTFILENAME": "b"},
    "shapes-no-lines": take(shapes, "NoOfPixels_1", "NoOfPixels_2"),
    "shapes-no-pixels": take(shapes, "NoOfLines_1"),
    "shapes-unbalanced": take(shapes, "NoOfPixels_1", "NoOfLines_1", "NoOfPixels_2"),
    "shapes-no-underscore": {"NoOfPixels": "1", "NoOfLines": "2"},
    "shapes-no-underscore-later": shapes | {"NoOfPixels": "1"},
    "shapes-extra-parts": {"NoOfPixels_1_a": "1", "NoOfLines_1_b": "2"},
    "shapes-extra-parts-collision": {"NoOfPixels_1_a": "1", "NoOfLines_1": "2", "NoOfPixels_1": "3"},
    "shapes-longer-names": {"NoOfPixelsX_1": "1", "NoOfLinesX_1": "2"},
    "shapes-longer-and-proper": {"NoOfPixelsX_1": "0", "NoOfPixels_1": "1", "NoOfLines_1": "2"},
    "shapes-empty-id": {"NoOfPixels_": "1", "NoOfLines_": "2"},
    "shapes-text-ids": {"NoOfPixels_HH": "1", "NoOfLines_HH": "2", "NoOfPixels_HV": "3", "NoOfLines_HV": "4"},
    "shapes-not-int": {"NoOfPixels_1": "1.5", "NoOfLines_1": "2"},
    "shapes-not-int-lines": {"NoOfPixels_1": "1", "NoOfLines_1": "abc"},
    "shapes-empty-value": {"NoOfPixels_1": "", "NoOfLines_1": "2"},
    "shapes-blank-padded": {"NoOfPixels_1": "  12  ", "NoOfLines_1": "\t7\n"},
    "shapes-underscore-digits": {"NoOfPixels_1": "1_000", "NoOfLines_1": "+2"},
    "shapes-int-values": {"NoOfPixels_1": 1, "NoOfLines_1": 2.9},
    "shapes-none-values": {"NoOfPixels_1": None, "NoOfLines_1": "2"},
    "shapes-lowercase": {"noofpixels_1": "1", "nooflines_1": "2"},
    "other-bad-int": {"BitPixel": "sixteen"},
    "other-float-int": {"BitPixel": "16.0"},
    "other-bad-float": {"ProductDataSize": "big"},
    "other-none": {"BitPixel": None},
    "other-numbers": {"BitPixel": 16.7, "ProductDataSize": 3, "ProductFormat": 1},
    "other-special-floats": {"ProductDataSize": "nan", "Other": "inf"},
    # which error wins
    "bad-files-then-bad-shapes": first2 | {"NoOfPixels_1": "x", "NoOfLines_1": "2"},
    "bad-shapes-then-bad-files": {"NoOfPixels_1": "x", "NoOfLines_1": "2"} | first2,
    "bad-other-then-bad-files": {"BitPixel": "x"} | first2,
    "bad-files-then-bad-other": first2 | {"BitPixel": "x"},
    "bad-shapes-then-bad-other": {"NoOfPixels": "1", "BitPixel": "x"},
    "bad-other-then-bad-shapes": {"BitPixel": "x", "NoOfPixels": "1"},
    "two-bad-others": {"ProductDataSize": "x", "BitPixel": "y"},
    "two-bad-shapes": {"NoOfPixels_1": "x", "NoOfLines_1": "1", "NoOfPixels_2": "1"},
    # unusual keys
    "int-key": {1: "a"},
    "none-key": {None: "a"},
    "bytes-key": {b"ProductFileName": "a"},
    "tuple-key": {("ProductFileName",): "a", ("x", "ProductFileName"): "b", ("y",): "c"},
    "tuple-keys-three": {("ProductFileName", 1): "a", ("ProductFileName", 2): "b", ("ProductFileName", 3): "c"},
    "category-names": {"data_files": "a", "shapes": "b", "other": "c"},
}


class Items:
    """not a dict, but has `items`"""

    def __init__(self, items):
        self._items = items

    def items(self):
        return iter(self._items)


def cases_transform_product_info():
    results = {name: call(summary.transform_product_info, section) for name, section in sections.items()}

    results["items-object"] = call(summary.transform_product_info, Items(list((count | first3 | other).items())))
    results["items-duplicates"] = call(
        summary.transform_product_info,
        Items([("BitPixel", "1"), ("BitPixel", "2"), ("NoOfPixels_1", "1"), ("NoOfLines_1", "2"), ("NoOfPixels_1", "3")]),
    )
    results["items-triples"] = call(summary.transform_product_info, Items([("BitPixel", "1", "x")]))
    results["items-strings"] = call(summary.transform_product_info, Items(["ab", "cd"]))
    results["list"] = call(summary.transform_product_info, [("BitPixel", "1")])
    results["none"] = call(summary.transform_product_info, None)
    results["string"] = call(summary.transform_product_info, "BitPixel")

    # the section is not modified and the results do not share state
    section = other | count | files | shapes
    before = describe(section)
    first = summary.transform_product_info(section)
    second = summary.transform_product_info(section)
    first.attrs["extra"] = 1
    first["data_files"].attrs["sar_imagery"].append("more")
    first["shapes"].attrs["3"] = (1, 2)
    results["independent"] = [describe(section) == before, describe(second), describe(first)]

    # types
    result = summary.transform_product_info(section)
    results["types"] = [
        type(result).__name__,
        type(result.data).__name__,
        type(result.attrs).__name__,
        type(result["shapes"].attrs).__name__,
        type(result["data_files"].attrs).__name__,
        type(result["data_files"].attrs["sar_imagery"]).__name__,
        type(result["shapes"].attrs["1"]).__name__,
    ]
    return results


def cases_categorize_filenames():
    mappings = {
        "five": dict(enumerate("abcde")),
        "three": dict(enumerate("abc")),
        "two": dict(enumerate("ab")),
        "one": {0: "a"},
        "empty": {},
        "many": dict(enumerate("abcdefghijkl")),
        "unsorted": {"z": 1, "a": 2, "m": 3, "b": 4},
    }
    results = {name: call(summary.categorize_filenames, mapping) for name, mapping in mappings.items()}
    results["list"] = call(summary.categorize_filenames, ["a", "b", "c"])
    return results


def cases_hooks():
    """the helpers used by `transform_product_info` are looked up when it runs"""
    events = []

    def categorize_filenames(mapping):
        events.append(("categorize_filenames", describe(mapping)))
        return {"categorized": list(mapping)}

    def failing(mapping):
        events.append(("categorize_filenames", describe(mapping)))
        raise KeyError("categorize")

    def apply_to_items(funcs, mapping, default=None):
        events.append(("apply_to_items", sorted(funcs), describe(mapping), default))
        if default is None:
            return original_apply(funcs, mapping)
        return original_apply(funcs, mapping, default=default)

    original = summary.categorize_filenames
    original_apply = summary.apply_to_items
    results = {}
    try:
        summary.categorize_filenames = categorize_filenames
        results["replaced"] = call(summary.transform_product_info, count | first2 | other)
        summary.categorize_filenames = failing
        results["failing"] = call(summary.transform_product_info, other | count | first2)
        summary.categorize_filenames = original
        summary.apply_to_items = apply_to_items
        results["apply_to_items"] = call(summary.transform_product_info, other | count | first3 | shapes)
        results["apply_to_items-no-other"] = call(summary.transform_product_info, shapes)
    finally:
        summary.categorize_filenames = original
        summary.apply_to_items = original_apply
    results["events"] = events
    return results


def cases_through_summary():
    results = {}
    for name in ["all", "all-interleaved", "empty", "files-two", "shapes-no-underscore", "other-bad-int"]:
        results[name] = call(summary.transform_summary, {"pdi": sections[name], "rad": {"a": "b"}})

    lines = [f'Pdi_{key}="{value}"' for key, value in interleave(other, count | files, shapes).items()]
    content = "\n".join(['Odi_SceneId="x"'] + lines)
    results["parsed"] = call(lambda: summary.transform_summary(summary.parse_summary(content)))
    return results


def run():
    return {
        "transform_product_info": cases_transform_product_info(),
        "categorize_filenames": cases_categorize_filenames(),
        "hooks": cases_hooks(),
        "through-summary": cases_through_summary(),
        "public-names": sorted(
            name
            for name in (
                "transform_product_info",
                "categorize_filenames",
                "dissoc",
                "keyfilter",
                "keymap",
                "valmap",
                "groupby",
                "compose_left",
                "curry",
                "get",
                "first",
                "second",
                "passthrough",
                "apply_to_items",
                "Group",
            )
            if hasattr(summary, name)
        ),
    }


# @@EXPECTED-BEGIN@@
EXPECTED = {
    'transform_product_info': {
        'empty': (
            {'returned': "Group(path='product_info', url=None, attrs={}, data={})"}
        ),
        'files': (
            {'returned': "Group(path='product_info', url=None, attrs={}, data={'data_files': "
                         "Group(path='product_info/data_files', url=None, attrs={'volume_directory': 'file1', "
                         "'sar_leader': 'file2', 'sar_imagery': ['file3', 'file4', 'file5', 'file6'], "
                         "'sar_trailer': 'file7'}, data={})})"}
        ),
        'files-count-last': (
            {'returned': "Group(path='product_info', url=None, attrs={}, data={'data_files': "
                         "Group(path='product_info/data_files', url=None, attrs={'volume_directory': 'file1', "
                         "'sar_leader': 'file2', 'sar_imagery': ['file3', 'file4', 'file5', 'file6'], "
                         "'sar_trailer': 'file7'}, data={})})"}
        ),
        'files-no-count': (
            {'returned': "Group(path='product_info', url=None, attrs={}, data={'data_files': "
                         "Group(path='product_info/data_files', url=None, attrs={'volume_directory': 'file1', "
                         "'sar_leader': 'file2', 'sar_imagery': ['file3', 'file4', 'file5', 'file6'], "
                         "'sar_trailer': 'file7'}, data={})})"}
        ),
        'files-three': (
            {'returned': "Group(path='product_info', url=None, attrs={}, data={'data_files': "
                         "Group(path='product_info/data_files', url=None, attrs={'volume_directory': 'file1', "
                         "'sar_leader': 'file2', 'sar_imagery': [], 'sar_trailer': 'file3'}, data={})})"}
        ),
        'files-l15': (
            {'returned': "Group(path='product_info', url=None, attrs={}, data={'data_files': "
                         "Group(path='product_info/data_files', url=None, attrs={'volume_directory': 'file1', "
                         "'sar_leader': 'file2', 'sar_imagery': ['file3', 'file4', 'file5', 'file6'], "
                         "'sar_trailer': 'file7'}, data={})})"}
        ),
        'shapes': (
            {'returned': "Group(path='product_info', url=None, attrs={}, data={'shapes': "
                         "Group(path='product_info/shapes', url=None, attrs={'1': (9196, 60568, ), '2': (8722, "
                         '75710, )}, data={})})'}
        ),
        'shapes-single': (
            {'returned': "Group(path='product_info', url=None, attrs={}, data={'shapes': "
                         "Group(path='product_info/shapes', url=None, attrs={'1': (9196, 60568, )}, data={})})"}
        ),
        'shapes-lines-first': (
            {'returned': "Group(path='product_info', url=None, attrs={}, data={'shapes': "
                         "Group(path='product_info/shapes', url=None, attrs={'2': (8722, 75710, ), '1': (9196, "
                         '60568, )}, data={})})'}
        ),
        'other': (
            {'returned': "Group(path='product_info', url=None, attrs={'ProductFormat': 'CEOS', 'BitPixel': 16, "
                         "'ProductDataSize': 798.2}, data={})"}
        ),
        'other-unknown': (
            {'returned': "Group(path='product_info', url=None, attrs={'ProductFormat': 'CEOS', 'BitPixel': 16, "
                         "'ProductDataSize': 798.2, 'Something': 'else', 'Number': '1'}, data={})"}
        ),
        'all': (
            {'returned': "Group(path='product_info', url=None, attrs={'ProductFormat': 'CEOS', 'BitPixel': 16, "
                         "'ProductDataSize': 798.2}, data={'data_files': Group(path='product_info/data_files', "
                         "url=None, attrs={'volume_directory': 'file1', 'sar_leader': 'file2', 'sar_imagery': "
                         "['file3', 'file4', 'file5', 'file6'], 'sar_trailer': 'file7'}, data={}), 'shapes': "
                         "Group(path='product_info/shapes', url=None, attrs={'1': (9196, 60568, ), '2': (8722, "
                         '75710, )}, data={})})'}
        ),
        'all-reversed': (
            {'returned': "Group(path='product_info', url=None, attrs={'ProductDataSize': 798.2, 'BitPixel': "
                         "16, 'ProductFormat': 'CEOS'}, data={'shapes': Group(path='product_info/shapes', "
                         "url=None, attrs={'2': (8722, 75710, ), '1': (9196, 60568, )}, data={}), "
                         "'data_files': Group(path='product_info/data_files', url=None, "
                         "attrs={'volume_directory': 'file7', 'sar_leader': 'file6', 'sar_imagery': ['file5', "
                         "'file4', 'file3', 'file2'], 'sar_trailer': 'file1'}, data={})})"}
        ),
        'all-shapes-first': (
            {'returned': "Group(path='product_info', url=None, attrs={'ProductFormat': 'CEOS', 'BitPixel': 16, "
                         "'ProductDataSize': 798.2}, data={'shapes': Group(path='product_info/shapes', "
                         "url=None, attrs={'1': (9196, 60568, ), '2': (8722, 75710, )}, data={}), "
                         "'data_files': Group(path='product_info/data_files', url=None, "
                         "attrs={'volume_directory': 'file1', 'sar_leader': 'file2', 'sar_imagery': ['file3', "
                         "'file4', 'file5', 'file6'], 'sar_trailer': 'file7'}, data={})})"}
        ),
        'all-interleaved': (
            {'returned': "Group(path='product_info', url=None, attrs={'ProductFormat': 'CEOS', 'BitPixel': 16, "
                         "'ProductDataSize': 798.2}, data={'data_files': Group(path='product_info/data_files', "
                         "url=None, attrs={'volume_directory': 'file1', 'sar_leader': 'file2', 'sar_imagery': "
                         "['file3', 'file4', 'file5', 'file6'], 'sar_trailer': 'file7'}, data={}), 'shapes': "
                         "Group(path='product_info/shapes', url=None, attrs={'1': (9196, 60568, ), '2': (8722, "
                         '75710, )}, data={})})'}
        ),
        'files-and-shapes': (
            {'returned': "Group(path='product_info', url=None, attrs={}, data={'data_files': "
                         "Group(path='product_info/data_files', url=None, attrs={'volume_directory': 'file1', "
                         "'sar_leader': 'file2', 'sar_imagery': [], 'sar_trailer': 'file3'}, data={}), "
                         "'shapes': Group(path='product_info/shapes', url=None, attrs={'1': (9196, 60568, ), "
                         "'2': (8722, 75710, )}, data={})})"}
        ),
        'shapes-and-other': (
            {'returned': "Group(path='product_info', url=None, attrs={'ProductFormat': 'CEOS', 'BitPixel': 16, "
                         "'ProductDataSize': 798.2}, data={'shapes': Group(path='product_info/shapes', "
                         "url=None, attrs={'1': (9196, 60568, ), '2': (8722, 75710, )}, data={})})"}
        ),
        'other-after-files': (
            {'returned': "Group(path='product_info', url=None, attrs={'BitPixel': 16}, data={'data_files': "
                         "Group(path='product_info/data_files', url=None, attrs={'volume_directory': 'file1', "
                         "'sar_leader': 'file2', 'sar_imagery': [], 'sar_trailer': 'file3'}, data={})})"}
        ),
        'files-two': (
            {'raised': "builtins.ValueError('not enough values to unpack (expected at least 3, got 2)',) "
                       'suppress_context=False cause=(None) context=(None)'}
        ),
        'files-one': (
            {'raised': "builtins.ValueError('not enough values to unpack (expected at least 3, got 1)',) "
                       'suppress_context=False cause=(None) context=(None)'}
        ),
        'files-only-count': (
            {'raised': "builtins.ValueError('not enough values to unpack (expected at least 3, got 0)',) "
                       'suppress_context=False cause=(None) context=(None)'}
        ),
        'files-count-in-the-middle': (
            {'returned': "Group(path='product_info', url=None, attrs={}, data={'data_files': "
                         "Group(path='product_info/data_files', url=None, attrs={'volume_directory': 'file1', "
                         "'sar_leader': 'file2', 'sar_imagery': [], 'sar_trailer': 'file3'}, data={})})"}
        ),
        'files-empty-names': (
            {'returned': "Group(path='product_info', url=None, attrs={}, data={'data_files': "
                         "Group(path='product_info/data_files', url=None, attrs={'volume_directory': '', "
                         "'sar_leader': '', 'sar_imagery': [], 'sar_trailer': ''}, data={})})"}
        ),
        'files-non-string-values': (
            {'returned': "Group(path='product_info', url=None, attrs={}, data={'data_files': "
                         "Group(path='product_info/data_files', url=None, attrs={'volume_directory': 1, "
                         "'sar_leader': None, 'sar_imagery': [], 'sar_trailer': ('a', )}, data={})})"}
        ),
        'files-lowercase-cnt': (
            {'returned': "Group(path='product_info', url=None, attrs={}, data={'data_files': "
                         "Group(path='product_info/data_files', url=None, attrs={'volume_directory': '3', "
                         "'sar_leader': 'file1', 'sar_imagery': ['file2'], 'sar_trailer': 'file3'}, data={})})"}
        ),
        'files-cnt-elsewhere': (
            {'returned': "Group(path='product_info', url=None, attrs={}, data={'data_files': "
                         "Group(path='product_info/data_files', url=None, attrs={'volume_directory': '3', "
                         "'sar_leader': 'file1', 'sar_imagery': ['file2'], 'sar_trailer': 'file3'}, data={})})"}
        ),
        'files-and-pixels': (
            {'returned': "Group(path='product_info', url=None, attrs={}, data={'data_files': "
                         "Group(path='product_info/data_files', url=None, attrs={'volume_directory': 'a', "
                         "'sar_leader': 'file1', 'sar_imagery': [], 'sar_trailer': 'file2'}, data={})})"}
        ),
        'files-suffix': (
            {'returned': "Group(path='product_info', url=None, attrs={}, data={'data_files': "
                         "Group(path='product_info/data_files', url=None, attrs={'volume_directory': 'a', "
                         "'sar_leader': 'b', 'sar_imagery': [], 'sar_trailer': 'c'}, data={})})"}
        ),
        'files-case': (
            {'returned': "Group(path='product_info', url=None, attrs={'productfilename01': 'a', "
                         "'PRODUCTFILENAME': 'b'}, data={})"}
        ),
        'shapes-no-lines': (
            {'raised': "builtins.KeyError('NoOfLines',) suppress_context=False cause=(None) "
                       'context=(builtins.TypeError("unhashable type: \'list\'",) suppress_context=False '
                       'cause=(None) context=(None))'}
        ),
        'shapes-no-pixels': (
            {'raised': "builtins.KeyError('NoOfPixels',) suppress_context=False cause=(None) "
                       'context=(builtins.TypeError("unhashable type: \'list\'",) suppress_context=False '
                       'cause=(None) context=(None))'}
        ),
        'shapes-unbalanced': (
            {'raised': "builtins.KeyError('NoOfLines',) suppress_context=False cause=(None) "
                       'context=(builtins.TypeError("unhashable type: \'list\'",) suppress_context=False '
                       'cause=(None) context=(None))'}
        ),
        'shapes-no-underscore': (
            {'raised': 'builtins.StopIteration() suppress_context=False cause=(None) context=(None)'}
        ),
        'shapes-no-underscore-later': (
            {'raised': 'builtins.StopIteration() suppress_context=False cause=(None) context=(None)'}
        ),
        'shapes-extra-parts': (
            {'returned': "Group(path='product_info', url=None, attrs={}, data={'shapes': "
                         "Group(path='product_info/shapes', url=None, attrs={'1': (1, 2, )}, data={})})"}
        ),
        'shapes-extra-parts-collision': (
            {'returned': "Group(path='product_info', url=None, attrs={}, data={'shapes': "
                         "Group(path='product_info/shapes', url=None, attrs={'1': (3, 2, )}, data={})})"}
        ),
        'shapes-longer-names': (
            {'raised': "builtins.KeyError('NoOfPixels',) suppress_context=False cause=(None) "
                       'context=(builtins.TypeError("unhashable type: \'list\'",) suppress_context=False '
                       'cause=(None) context=(None))'}
        ),
        'shapes-longer-and-proper': (
            {'returned': "Group(path='product_info', url=None, attrs={}, data={'shapes': "
                         "Group(path='product_info/shapes', url=None, attrs={'1': (1, 2, )}, data={})})"}
        ),
        'shapes-empty-id': (
            {'returned': "Group(path='product_info', url=None, attrs={}, data={'shapes': "
                         "Group(path='product_info/shapes', url=None, attrs={'': (1, 2, )}, data={})})"}
        ),
        'shapes-text-ids': (
            {'returned': "Group(path='product_info', url=None, attrs={}, data={'shapes': "
                         "Group(path='product_info/shapes', url=None, attrs={'HH': (1, 2, ), 'HV': (3, 4, )}, "
                         'data={})})'}
        ),
        'shapes-not-int': (
            {'raised': 'builtins.ValueError("invalid literal for int() with base 10: \'1.5\'",) '
                       'suppress_context=False cause=(None) context=(None)'}
        ),
        'shapes-not-int-lines': (
            {'raised': 'builtins.ValueError("invalid literal for int() with base 10: \'abc\'",) '
                       'suppress_context=False cause=(None) context=(None)'}
        ),
        'shapes-empty-value': (
            {'raised': 'builtins.ValueError("invalid literal for int() with base 10: \'\'",) '
                       'suppress_context=False cause=(None) context=(None)'}
        ),
        'shapes-blank-padded': (
            {'returned': "Group(path='product_info', url=None, attrs={}, data={'shapes': "
                         "Group(path='product_info/shapes', url=None, attrs={'1': (12, 7, )}, data={})})"}
        ),
        'shapes-underscore-digits': (
            {'returned': "Group(path='product_info', url=None, attrs={}, data={'shapes': "
                         "Group(path='product_info/shapes', url=None, attrs={'1': (1000, 2, )}, data={})})"}
        ),
        'shapes-int-values': (
            {'returned': "Group(path='product_info', url=None, attrs={}, data={'shapes': "
                         "Group(path='product_info/shapes', url=None, attrs={'1': (1, 2, )}, data={})})"}
        ),
        'shapes-none-values': (
            {'raised': 'builtins.TypeError("int() argument must be a string, a bytes-like object or a real '
                       'number, not \'NoneType\'",) suppress_context=False cause=(None) context=(None)'}
        ),
        'shapes-lowercase': (
            {'returned': "Group(path='product_info', url=None, attrs={'noofpixels_1': '1', 'nooflines_1': "
                         "'2'}, data={})"}
        ),
        'other-bad-int': (
            {'raised': 'builtins.ValueError("invalid literal for int() with base 10: \'sixteen\'",) '
                       'suppress_context=False cause=(None) context=(None)'}
        ),
        'other-float-int': (
            {'raised': 'builtins.ValueError("invalid literal for int() with base 10: \'16.0\'",) '
                       'suppress_context=False cause=(None) context=(None)'}
        ),
        'other-bad-float': (
            {'raised': 'builtins.ValueError("could not convert string to float: \'big\'",) '
                       'suppress_context=False cause=(None) context=(None)'}
        ),
        'other-none': (
            {'raised': 'builtins.TypeError("int() argument must be a string, a bytes-like object or a real '
                       'number, not \'NoneType\'",) suppress_context=False cause=(None) context=(None)'}
        ),
        'other-numbers': (
            {'returned': "Group(path='product_info', url=None, attrs={'BitPixel': 16, 'ProductDataSize': 3.0, "
                         "'ProductFormat': 1}, data={})"}
        ),
        'other-special-floats': (
            {'returned': "Group(path='product_info', url=None, attrs={'ProductDataSize': nan, 'Other': 'inf'}, "
                         'data={})'}
        ),
        'bad-files-then-bad-shapes': (
            {'raised': "builtins.ValueError('not enough values to unpack (expected at least 3, got 2)',) "
                       'suppress_context=False cause=(None) context=(None)'}
        ),
        'bad-shapes-then-bad-files': (
            {'raised': 'builtins.ValueError("invalid literal for int() with base 10: \'x\'",) '
                       'suppress_context=False cause=(None) context=(None)'}
        ),
        'bad-other-then-bad-files': (
            {'raised': 'builtins.ValueError("invalid literal for int() with base 10: \'x\'",) '
                       'suppress_context=False cause=(None) context=(None)'}
        ),
        'bad-files-then-bad-other': (
            {'raised': "builtins.ValueError('not enough values to unpack (expected at least 3, got 2)',) "
                       'suppress_context=False cause=(None) context=(None)'}
        ),
        'bad-shapes-then-bad-other': (
            {'raised': 'builtins.StopIteration() suppress_context=False cause=(None) context=(None)'}
        ),
        'bad-other-then-bad-shapes': (
            {'raised': 'builtins.ValueError("invalid literal for int() with base 10: \'x\'",) '
                       'suppress_context=False cause=(None) context=(None)'}
        ),
        'two-bad-others': (
            {'raised': 'builtins.ValueError("could not convert string to float: \'x\'",) '
                       'suppress_context=False cause=(None) context=(None)'}
        ),
        'two-bad-shapes': (
            {'raised': 'builtins.ValueError("invalid literal for int() with base 10: \'x\'",) '
                       'suppress_context=False cause=(None) context=(None)'}
        ),
        'int-key': (
            {'raised': 'builtins.TypeError("argument of type \'int\' is not iterable",) suppress_context=False '
                       'cause=(None) context=(None)'}
        ),
        'none-key': (
            {'raised': 'builtins.TypeError("argument of type \'NoneType\' is not iterable",) '
                       'suppress_context=False cause=(None) context=(None)'}
        ),
        'bytes-key': (
            {'raised': 'builtins.TypeError("a bytes-like object is required, not \'str\'",) '
                       'suppress_context=False cause=(None) context=(None)'}
        ),
        'tuple-key': (
            {'raised': 'builtins.AttributeError("\'tuple\' object has no attribute \'startswith\'",) '
                       'suppress_context=False cause=(None) context=(None)'}
        ),
        'tuple-keys-three': (
            {'raised': 'builtins.AttributeError("\'tuple\' object has no attribute \'startswith\'",) '
                       'suppress_context=False cause=(None) context=(None)'}
        ),
        'category-names': (
            {'returned': "Group(path='product_info', url=None, attrs={'data_files': 'a', 'shapes': 'b', "
                         "'other': 'c'}, data={})"}
        ),
        'items-object': (
            {'returned': "Group(path='product_info', url=None, attrs={'ProductFormat': 'CEOS', 'BitPixel': 16, "
                         "'ProductDataSize': 798.2}, data={'data_files': Group(path='product_info/data_files', "
                         "url=None, attrs={'volume_directory': 'file1', 'sar_leader': 'file2', 'sar_imagery': "
                         "[], 'sar_trailer': 'file3'}, data={})})"}
        ),
        'items-duplicates': (
            {'returned': "Group(path='product_info', url=None, attrs={'BitPixel': 2}, data={'shapes': "
                         "Group(path='product_info/shapes', url=None, attrs={'1': (3, 2, )}, data={})})"}
        ),
        'items-triples': (
            {'raised': "builtins.ValueError('too many values to unpack (expected 2)',) suppress_context=False "
                       'cause=(None) context=(None)'}
        ),
        'items-strings': (
            {'returned': "Group(path='product_info', url=None, attrs={'a': 'b', 'c': 'd'}, data={})"}
        ),
        'list': (
            {'raised': 'builtins.AttributeError("\'list\' object has no attribute \'items\'",) '
                       'suppress_context=False cause=(None) context=(None)'}
        ),
        'none': (
            {'raised': 'builtins.AttributeError("\'NoneType\' object has no attribute \'items\'",) '
                       'suppress_context=False cause=(None) context=(None)'}
        ),
        'string': (
            {'raised': 'builtins.AttributeError("\'str\' object has no attribute \'items\'",) '
                       'suppress_context=False cause=(None) context=(None)'}
        ),
        'independent': (
            [True,
             "Group(path='product_info', url=None, attrs={'ProductFormat': 'CEOS', 'BitPixel': 16, "
             "'ProductDataSize': 798.2}, data={'data_files': Group(path='product_info/data_files', url=None, "
             "attrs={'volume_directory': 'file1', 'sar_leader': 'file2', 'sar_imagery': ['file3', 'file4', "
             "'file5', 'file6'], 'sar_trailer': 'file7'}, data={}), 'shapes': "
             "Group(path='product_info/shapes', url=None, attrs={'1': (9196, 60568, ), '2': (8722, 75710, )}, "
             'data={})})',
             "Group(path='product_info', url=None, attrs={'ProductFormat': 'CEOS', 'BitPixel': 16, "
             "'ProductDataSize': 798.2, 'extra': 1}, data={'data_files': Group(path='product_info/data_files', "
             "url=None, attrs={'volume_directory': 'file1', 'sar_leader': 'file2', 'sar_imagery': ['file3', "
             "'file4', 'file5', 'file6', 'more'], 'sar_trailer': 'file7'}, data={}), 'shapes': "
             "Group(path='product_info/shapes', url=None, attrs={'1': (9196, 60568, ), '2': (8722, 75710, ), "
             "'3': (1, 2, )}, data={})})"]
        ),
        'types': (
            ['Group', 'dict', 'dict', 'dict', 'dict', 'list', 'tuple']
        ),
    },
    'categorize_filenames': {
        'five': (
            {'returned': "{'volume_directory': 'a', 'sar_leader': 'b', 'sar_imagery': ['c', 'd'], "
                         "'sar_trailer': 'e'}"}
        ),
        'three': (
            {'returned': "{'volume_directory': 'a', 'sar_leader': 'b', 'sar_imagery': [], 'sar_trailer': 'c'}"}
        ),
        'two': (
            {'raised': "builtins.ValueError('not enough values to unpack (expected at least 3, got 2)',) "
                       'suppress_context=False cause=(None) context=(None)'}
        ),
        'one': (
            {'raised': "builtins.ValueError('not enough values to unpack (expected at least 3, got 1)',) "
                       'suppress_context=False cause=(None) context=(None)'}
        ),
        'empty': (
            {'raised': "builtins.ValueError('not enough values to unpack (expected at least 3, got 0)',) "
                       'suppress_context=False cause=(None) context=(None)'}
        ),
        'many': (
            {'returned': "{'volume_directory': 'a', 'sar_leader': 'b', 'sar_imagery': ['c', 'd', 'e', 'f', "
                         "'g', 'h', 'i', 'j', 'k'], 'sar_trailer': 'l'}"}
        ),
        'unsorted': (
            {'returned': "{'volume_directory': 1, 'sar_leader': 2, 'sar_imagery': [3], 'sar_trailer': 4}"}
        ),
        'list': (
            {'raised': 'builtins.AttributeError("\'list\' object has no attribute \'values\'",) '
                       'suppress_context=False cause=(None) context=(None)'}
        ),
    },
    'hooks': {
        'replaced': (
            {'returned': "Group(path='product_info', url=None, attrs={'ProductFormat': 'CEOS', 'BitPixel': 16, "
                         "'ProductDataSize': 798.2}, data={'data_files': Group(path='product_info/data_files', "
                         "url=None, attrs={'categorized': ['L11ProductFileName01', 'L11ProductFileName02']}, "
                         'data={})})'}
        ),
        'failing': (
            {'raised': "builtins.KeyError('categorize',) suppress_context=False cause=(None) context=(None)"}
        ),
        'apply_to_items': (
            {'returned': "Group(path='product_info', url=None, attrs={'ProductFormat': 'CEOS', 'BitPixel': 16, "
                         "'ProductDataSize': 798.2}, data={'data_files': Group(path='product_info/data_files', "
                         "url=None, attrs={'volume_directory': 'file1', 'sar_leader': 'file2', 'sar_imagery': "
                         "[], 'sar_trailer': 'file3'}, data={}), 'shapes': Group(path='product_info/shapes', "
                         "url=None, attrs={'1': (9196, 60568, ), '2': (8722, 75710, )}, data={})})"}
        ),
        'apply_to_items-no-other': (
            {'returned': "Group(path='product_info', url=None, attrs={}, data={'shapes': "
                         "Group(path='product_info/shapes', url=None, attrs={'1': (9196, 60568, ), '2': (8722, "
                         '75710, )}, data={})})'}
        ),
        'events': (
            [('categorize_filenames', "{'L11ProductFileName01': 'file1', 'L11ProductFileName02': 'file2'}"),
             ('categorize_filenames', "{'L11ProductFileName01': 'file1', 'L11ProductFileName02': 'file2'}"),
             ('apply_to_items',
              ['data_files', 'other', 'shapes'],
              "{'other': {'ProductFormat': 'CEOS', 'BitPixel': '16', 'ProductDataSize': '798.2'}, "
              "'data_files': {'CntOfL11ProductFileName': '7', 'L11ProductFileName01': 'file1', "
              "'L11ProductFileName02': 'file2', 'L11ProductFileName03': 'file3'}, 'shapes': {'NoOfPixels_1': ' "
              "9196', 'NoOfLines_1': '60568', 'NoOfPixels_2': ' 8722', 'NoOfLines_2': '75710'}}",
              None),
             ('apply_to_items',
              ['BitPixel', 'ProductDataSize', 'ProductFormat'],
              "{'ProductFormat': 'CEOS', 'BitPixel': '16', 'ProductDataSize': '798.2'}",
              None),
             ('apply_to_items',
              ['data_files', 'other', 'shapes'],
              "{'shapes': {'NoOfPixels_1': ' 9196', 'NoOfLines_1': '60568', 'NoOfPixels_2': ' 8722', "
              "'NoOfLines_2': '75710'}}",
              None)]
        ),
    },
    'through-summary': {
        'all': (
            {'returned': "Group(path='summary', url=None, attrs={}, data={'product_information': "
                         "Group(path='summary/product_information', url=None, attrs={'ProductFormat': 'CEOS', "
                         "'BitPixel': 16, 'ProductDataSize': 798.2}, data={'data_files': "
                         "Group(path='summary/product_information/data_files', url=None, "
                         "attrs={'volume_directory': 'file1', 'sar_leader': 'file2', 'sar_imagery': ['file3', "
                         "'file4', 'file5', 'file6'], 'sar_trailer': 'file7'}, data={}), 'shapes': "
                         "Group(path='summary/product_information/shapes', url=None, attrs={'1': (9196, 60568, "
                         "), '2': (8722, 75710, )}, data={})}), 'result_information': "
                         "Group(path='summary/result_information', url=None, attrs={'a': 'b'}, data={})})"}
        ),
        'all-interleaved': (
            {'returned': "Group(path='summary', url=None, attrs={}, data={'product_information': "
                         "Group(path='summary/product_information', url=None, attrs={'ProductFormat': 'CEOS', "
                         "'BitPixel': 16, 'ProductDataSize': 798.2}, data={'data_files': "
                         "Group(path='summary/product_information/data_files', url=None, "
                         "attrs={'volume_directory': 'file1', 'sar_leader': 'file2', 'sar_imagery': ['file3', "
                         "'file4', 'file5', 'file6'], 'sar_trailer': 'file7'}, data={}), 'shapes': "
                         "Group(path='summary/product_information/shapes', url=None, attrs={'1': (9196, 60568, "
                         "), '2': (8722, 75710, )}, data={})}), 'result_information': "
                         "Group(path='summary/result_information', url=None, attrs={'a': 'b'}, data={})})"}
        ),
        'empty': (
            {'returned': "Group(path='summary', url=None, attrs={}, data={'product_information': "
                         "Group(path='summary/product_information', url=None, attrs={}, data={}), "
                         "'result_information': Group(path='summary/result_information', url=None, attrs={'a': "
                         "'b'}, data={})})"}
        ),
        'files-two': (
            {'raised': "builtins.ValueError('not enough values to unpack (expected at least 3, got 2)',) "
                       'suppress_context=False cause=(None) context=(None)'}
        ),
        'shapes-no-underscore': (
            {'raised': 'builtins.StopIteration() suppress_context=False cause=(None) context=(None)'}
        ),
        'other-bad-int': (
            {'raised': 'builtins.ValueError("invalid literal for int() with base 10: \'sixteen\'",) '
                       'suppress_context=False cause=(None) context=(None)'}
        ),
        'parsed': (
            {'returned': "Group(path='summary', url=None, attrs={}, data={'ordering_information': "
                         "Group(path='summary/ordering_information', url=None, attrs={'SceneId': 'x'}, "
                         "data={}), 'product_information': Group(path='summary/product_information', url=None, "
                         "attrs={'ProductFormat': 'CEOS', 'BitPixel': 16, 'ProductDataSize': 798.2}, "
                         "data={'data_files': Group(path='summary/product_information/data_files', url=None, "
                         "attrs={'volume_directory': 'file1', 'sar_leader': 'file2', 'sar_imagery': ['file3', "
                         "'file4', 'file5', 'file6'], 'sar_trailer': 'file7'}, data={}), 'shapes': "
                         "Group(path='summary/product_information/shapes', url=None, attrs={'1': (9196, 60568, "
                         "), '2': (8722, 75710, )}, data={})})})"}
        ),
    },
    'public-names': ['Group',
 'apply_to_items',
 'categorize_filenames',
 'compose_left',
 'curry',
 'dissoc',
 'first',
 'get',
 'groupby',
 'keyfilter',
 'keymap',
 'passthrough',
 'second',
 'transform_product_info',
 'valmap'],
}
# @@EXPECTED-END@@


def emit(results):
    """print the results as a (not too deeply indented) python literal"""
    print("{")
    for section, cases in results.items():
        if not isinstance(cases, dict):
            print(f"    {section!r}: {pprint.pformat(cases, width=100, sort_dicts=False)},")
            continue
        print(f"    {section!r}: {{")
        for name, value in cases.items():
            text = pprint.pformat(value, width=100, sort_dicts=False)
            print(f"        {name!r}: (")
            print("\n".join("            " + line for line in text.splitlines()))
            print("        ),")
        print("    },")
    print("}")


def differences(actual, expected, path="root"):
    if type(actual) is not type(expected):
        yield f"{path}: {actual!r} != {expected!r}"
    elif isinstance(actual, dict):
        for key in sorted(set(actual) | set(expected), key=repr):
            if key not in actual or key not in expected:
                yield f"{path}[{key!r}]: only on one side"
            else:
                yield from differences(actual[key], expected[key], f"{path}[{key!r}]")
    elif isinstance(actual, (list, tuple)) and len(actual) == len(expected):
        for index, (a, e) in enumerate(zip(actual, expected)):
            yield from differences(a, e, f"{path}[{index}]")
    elif actual != expected:
        yield f"{path}: {actual!r} != {expected!r}"


def test_equivalence():
    actual = run()
    found = list(differences(actual, EXPECTED))
    assert not found, "\n".join(found)
    assert actual == EXPECTED


if __name__ == "__main__":
    if "--record" in sys.argv:
        emit(run())
        sys.exit(0)

    print("checking", summary.__file__)
    found = list(differences(run(), EXPECTED))
    for line in found:
        print(line)
    n_cases = sum(len(v) for v in EXPECTED.values())
    print(f"{n_cases} cases:", "FAILED" if found else "ok")
    sys.exit(1 if found else 0)
