"""Equivalence check for refactoring 3 (``ceos_alos2.sar_image.cli``).

Touched: ``create_cache`` and ``main``.
Run as ``PYTHONPATH=<worktree> python _eq/3/equiv.py`` (or through pytest).
``EXPECTED`` was recorded from the unchanged code with ``--record``.

No real ALOS-2 image is available, so ``open_image`` and ``caching.encode`` (the
only things ``create_cache`` delegates to) are replaced by recording fakes; the
file system is a real temporary directory, and additionally a recording fake
path object is used to pin down the exact order of all path / I/O requests.
"""

import contextlib
import io
import os
import pathlib
import pprint
import subprocess
import sys
import tempfile
from unittest import mock

import fsspec

from ceos_alos2.sar_image import cli

TMP = "<TMP>"
real_get_mapper = fsspec.get_mapper


def normalize(text, root):
    if not isinstance(text, str):
        return repr(text)
    return text.replace(root.as_uri(), "<TMPURI>").replace(str(root), TMP)


def listing(root):
    result = []
    for path in sorted(root.rglob("*")):
        rel = path.relative_to(root).as_posix()
        result.append((rel, "dir" if path.is_dir() else path.read_bytes()))
    return result


class Recorder:
    def __init__(self, root, open_error=None, encode_error=None, encoded="encoded: {group}"):
        self.root = root
        self.events = []
        self.open_error = open_error
        self.encode_error = encode_error
        self.encoded = encoded

    def get_mapper(self, *args, **kwargs):
        self.events.append(
            ("get_mapper", [normalize(a, self.root) for a in args], sorted(kwargs.items()))
        )
        mapper = real_get_mapper(*args, **kwargs)
        self.events.append(("mapper", type(mapper).__name__, normalize(mapper.root, self.root)))
        return mapper

    def open_image(self, mapper, *args, **kwargs):
        self.events.append(
            (
                "open_image",
                type(mapper).__name__,
                normalize(getattr(mapper, "root", None), self.root),
                [repr(a) for a in args],
                sorted((k, repr(v)) for k, v in kwargs.items()),
            )
        )
        if self.open_error is not None:
            raise self.open_error
        return f"group({args[0]})" if args else "group"

    def encode(self, *args, **kwargs):
        self.events.append(("encode", [repr(a) for a in args], sorted(kwargs.items())))
        if self.encode_error is not None:
            raise self.encode_error
        if isinstance(self.encoded, str):
            return self.encoded.format(group=args[0])
        return self.encoded

    @contextlib.contextmanager
    def installed(self):
        with (
            mock.patch.object(cli.fsspec, "get_mapper", self.get_mapper),
            mock.patch.object(cli, "open_image", self.open_image),
            mock.patch.object(cli.caching, "encode", self.encode),
        ):
            yield self


def outcome(root, func, *args, **kwargs):
    try:
        result = func(*args, **kwargs)
    except BaseException as e:  # noqa: B036
        return (
            "raise",
            type(e).__name__,
            [normalize(a, root) for a in e.args],
            type(e.__cause__).__name__,
            type(e.__context__).__name__,
        )
    return ("ok", repr(result))


def make_tree(root):
    (root / "product").mkdir()
    (root / "product" / "IMG-HH-ALOS2000000000-000000-WBDR1.1__D-F1").write_bytes(b"image")
    (root / "product" / "IMG with space ü").write_bytes(b"image2")
    (root / "product" / "IMG-EXISTING").write_bytes(b"image3")
    (root / "product" / "IMG-EXISTING.index").write_text("old cache")
    (root / "product" / "subdir").mkdir()
    (root / "cache").mkdir()
    (root / "cache" / "IMG-EXISTING.index").write_text("old cache 2")
    (root / "a file").write_text("x")
    (root / "dir with space ü").mkdir()
    (root / "dir with space ü" / "IMG-X").write_bytes(b"image4")


IMG = "product/IMG-HH-ALOS2000000000-000000-WBDR1.1__D-F1"

# (name, image path, cache root, rpc, recorder kwargs)
SCENARIOS = [
    ("default-root", IMG, None, 4096, {}),
    ("explicit-root", IMG, "cache", 4096, {}),
    ("root-is-image-dir", IMG, "product", 1, {}),
    ("rpc-none", IMG, None, None, {}),
    ("rpc-str", IMG, "cache", "12", {}),
    ("missing-image", "product/IMG-missing", None, 4096, {}),
    ("missing-image-dir", "nowhere/IMG", None, 4096, {}),
    ("image-is-dir", "product/subdir", None, 4096, {}),
    ("image-is-dir-with-root", "product", "cache", 4096, {}),
    ("missing-root", IMG, "nocache", 4096, {}),
    ("root-is-file", IMG, "a file", 4096, {}),
    ("root-is-image", IMG, IMG, 4096, {}),
    ("missing-image-and-root", "product/IMG-missing", "nocache", 4096, {}),
    ("overwrite-default", "product/IMG-EXISTING", None, 4096, {}),
    ("overwrite-explicit", "product/IMG-EXISTING", "cache", 4096, {}),
    ("special-chars", "product/IMG with space ü", None, 4096, {}),
    ("special-chars-root", "product/IMG with space ü", "dir with space ü", 4096, {}),
    ("special-dir", "dir with space ü/IMG-X", None, 7, {}),
    ("open-oserror", IMG, None, 4096, {"open_error": OSError("cannot open")}),
    ("open-filenotfound", IMG, "cache", 4096, {"open_error": FileNotFoundError(2, "nope")}),
    ("open-valueerror", IMG, None, 4096, {"open_error": ValueError("bad records")}),
    ("encode-error", IMG, None, 4096, {"encode_error": TypeError("cannot encode")}),
    ("encode-error-root", IMG, "cache", 4096, {"encode_error": OSError("encode io")}),
    ("encode-bytes", IMG, None, 4096, {"encoded": b"bytes"}),
    ("encode-none", IMG, "cache", 4096, {"encoded": None}),
    ("encode-empty", IMG, "cache", 4096, {"encoded": ""}),
    ("encode-unicode", IMG, "cache", 4096, {"encoded": "ü\n{group}\n"}),
]


def observe_create_cache():
    results = []
    for name, image, cache_root, rpc, kwargs in SCENARIOS:
        for absolute in (True, False):
            with tempfile.TemporaryDirectory() as tmp:
                root = pathlib.Path(tmp).resolve()
                make_tree(root)
                before = listing(root)
                base = root if absolute else pathlib.Path()
                image_path = base / image
                root_path = None if cache_root is None else base / cache_root
                cwd = os.getcwd()
                os.chdir(root)
                try:
                    with Recorder(root, **kwargs).installed() as recorder:
                        result = outcome(
                            root, cli.create_cache, image_path, root_path, records_per_chunk=rpc
                        )
                        # also positionally
                        events = list(recorder.events)
                finally:
                    os.chdir(cwd)
                after = listing(root)
                changed = [item for item in after if item not in before]
                removed = [item for item in before if item not in after]
                results.append((name, absolute, result, events, changed, removed))
    return results


# --- exact order of requests, with a fake path object -------------------------
class FakePath:
    def __init__(self, log, label, *, is_file=True, is_dir=True, uri_error=None, write_error=None):
        self.log = log
        self.label = label
        self._is_file = is_file
        self._is_dir = is_dir
        self._uri_error = uri_error
        self._write_error = write_error

    def _child(self, label):
        return FakePath(
            self.log,
            label,
            is_file=self._is_file,
            is_dir=self._is_dir,
            uri_error=self._uri_error,
            write_error=self._write_error,
        )

    def __str__(self):
        self.log.append(("str", self.label))
        return f"<{self.label}>"

    def __fspath__(self):
        self.log.append(("fspath", self.label))
        return f"/fake/{self.label}"

    def is_file(self):
        self.log.append(("is_file", self.label))
        return self._is_file

    def is_dir(self):
        self.log.append(("is_dir", self.label))
        return self._is_dir

    def exists(self):
        self.log.append(("exists", self.label))
        return True

    @property
    def parent(self):
        self.log.append(("parent", self.label))
        return self._child(f"{self.label}/..")

    @property
    def name(self):
        self.log.append(("name", self.label))
        return f"name-of-{self.label}"

    def as_uri(self):
        self.log.append(("as_uri", self.label))
        if self._uri_error is not None:
            raise self._uri_error
        return f"memory://fake/{self.label}"

    def __truediv__(self, other):
        self.log.append(("truediv", self.label, other))
        return self._child(f"{self.label}/{other}")

    def __rtruediv__(self, other):
        self.log.append(("rtruediv", self.label, other))
        return self._child(f"{other}/{self.label}")

    def write_text(self, *args, **kwargs):
        self.log.append(("write_text", self.label, args, sorted(kwargs.items())))
        if self._write_error is not None:
            raise self._write_error
        return 42

    def __getattr__(self, name):
        self.log.append(("getattr", self.label, name))
        raise AttributeError(name)


FAKE_SCENARIOS = [
    ("all-good", {}, {}),
    ("no-root", {}, None),
    ("image-not-file", {"is_file": False}, {}),
    ("image-not-file-no-root", {"is_file": False}, None),
    ("root-not-dir", {}, {"is_dir": False}),
    ("both-bad", {"is_file": False}, {"is_dir": False}),
    ("uri-error", {"uri_error": ValueError("relative path can't be expressed as a file URI")}, {}),
    ("uri-error-no-root", {"uri_error": ValueError("relative")}, None),
    ("uri-error-bad-root", {"uri_error": ValueError("relative")}, {"is_dir": False}),
    ("write-error", {}, {"write_error": PermissionError(13, "Permission denied")}),
    ("write-error-no-root", {"write_error": IsADirectoryError(21, "Is a directory")}, None),
    ("falsy-answers", {"is_file": 0}, {"is_dir": ""}),
    ("truthy-answers", {"is_file": "yes"}, {"is_dir": [0]}),
]


def observe_request_order():
    results = []
    for name, image_kwargs, root_kwargs in FAKE_SCENARIOS:
        for recorder_kwargs in ({}, {"open_error": OSError("open")}, {"encode_error": KeyError("enc")}):
            log = []
            image = FakePath(log, "image", **image_kwargs)
            cache_root = None if root_kwargs is None else FakePath(log, "root", **root_kwargs)
            recorder = Recorder(pathlib.Path("/nonexistent-root"), **recorder_kwargs)
            recorder.events = log
            with recorder.installed():
                result = outcome(pathlib.Path("/nonexistent-root"), cli.create_cache, image, cache_root, 3)
            results.append((name, sorted(recorder_kwargs), result, [repr(item) for item in log]))

    # arbitrary objects
    for image, cache_root in [(None, None), ("text", None), (pathlib.PurePosixPath("/a/b"), None)]:
        with Recorder(pathlib.Path("/nonexistent-root")).installed() as recorder:
            result = outcome(pathlib.Path("/nonexistent-root"), cli.create_cache, image, cache_root, 3)
        results.append((repr(image), repr(cache_root), result, recorder.events))
    for cache_root in ("text", 0, False, "", pathlib.PurePosixPath("/a/b")):
        log = []
        with Recorder(pathlib.Path("/nonexistent-root")).installed() as recorder:
            recorder.events = log
            result = outcome(
                pathlib.Path("/nonexistent-root"), cli.create_cache, FakePath(log, "image"), cache_root, 3
            )
        results.append(("fake", repr(cache_root), result, [repr(item) for item in log]))

    # signature: all of these call styles keep working
    for args, kwargs in [
        ((), {"image_path": "i", "cache_root": None, "records_per_chunk": 1}),
        (("i", None), {}),
        (("i",), {"records_per_chunk": 1}),
        (("i", None, 1, 2), {}),
        (("i", None, 1), {"use_cache": True}),
    ]:
        log = []
        args = tuple(FakePath(log, a) if isinstance(a, str) else a for a in args)
        kwargs = {k: FakePath(log, v) if isinstance(v, str) else v for k, v in kwargs.items()}
        with Recorder(pathlib.Path("/nonexistent-root")).installed() as recorder:
            recorder.events = log
            result = outcome(pathlib.Path("/nonexistent-root"), cli.create_cache, *args, **kwargs)
        results.append(("signature", len(args), sorted(kwargs), result, [repr(item) for item in log]))
    return results


# --- main --------------------------------------------------------------------
def run_main(root, argv, create_cache=None):
    stdout, stderr = io.StringIO(), io.StringIO()
    calls = []

    def fake_create_cache(*args, **kwargs):
        calls.append(([normalize(str(a), root) if a is not None else None for a in args],
                      sorted((k, repr(v)) for k, v in kwargs.items()),
                      [type(a).__name__ for a in args]))
        if isinstance(create_cache, BaseException):
            raise create_cache

    patches = [mock.patch.object(sys, "argv", ["ceos-alos2-create-cache", *argv]),
               mock.patch.dict(os.environ, {"COLUMNS": "80", "NO_COLOR": "1"})]
    if create_cache is not None:
        patches.append(mock.patch.object(cli, "create_cache", fake_create_cache))

    with contextlib.ExitStack() as stack:
        for patch in patches:
            stack.enter_context(patch)
        stack.enter_context(contextlib.redirect_stdout(stdout))
        stack.enter_context(contextlib.redirect_stderr(stderr))
        result = outcome(root, cli.main)
    return (result, normalize(stdout.getvalue(), root), normalize(stderr.getvalue(), root), calls)


def observe_main():
    results = []
    with tempfile.TemporaryDirectory() as tmp:
        root = pathlib.Path(tmp).resolve()
        make_tree(root)
        img = str(root / IMG)
        cache = str(root / "cache")

        # argument parsing, create_cache replaced by a recorder
        argvs = [
            [], ["-h"], ["--help"], [img], [img, cache], [img, cache, "extra"], ["--rpc", "12", img],
            ["--rpc=7", img, cache], [img, "--rpc", "3"], [img, "--rpc"], ["--rpc", img],
            ["--rpc", "x", img], ["--rpc", "-1", img], ["--rpc", "1.5", img], ["--rp", "5", img],
            ["--unknown", img], ["relative/IMG"], ["relative/IMG", "."], ["", ""], ["--", "--rpc"],
            [img, cache, "--rpc", "0"], ["-r", "1", img], ["--rpc", "1", "--rpc", "2", img],
            ["--rpc", "0x10", img], ["--rpc", " 8 ", img], ["~/IMG", "~"],
        ]
        for argv in argvs:
            results.append((["<img>" if a == img else "<cache>" if a == cache else a for a in argv],
                            run_main(root, argv, create_cache=True)))

        # error handling in main
        errors = [
            OSError("plain message"), FileNotFoundError("not found message"), OSError(2, "errno style"),
            PermissionError(13, "Permission denied", "/some/file"), OSError(), OSError(None),
            OSError(("tuple",)), OSError("a", "b", "c", "d"), ValueError("not an OSError"),
            KeyboardInterrupt(), SystemExit(3), IsADirectoryError("dir"), TimeoutError("timeout"),
            ConnectionError("connection"), io.UnsupportedOperation("both OSError and ValueError"),
            EOFError("eof"), OSError("multi\nline"), OSError(""), BlockingIOError(11, "blocking", 5),
        ]
        for error in errors:
            results.append((repr(error), run_main(root, [img, cache], create_cache=error)))

        # the real create_cache (with fake open_image / encode) through main
        real = [
            [img], [img, cache], [img, str(root / "nocache")], [str(root / "product" / "missing")],
            [str(root / "product" / "missing"), str(root / "nocache")], ["--rpc", "5", img, cache],
            [img, "--rpc"], [str(root / "product")], [img, str(root / "a file")],
        ]
        for argv in real:
            before = listing(root)
            with Recorder(root).installed() as recorder:
                result = run_main(root, argv)
            changed = [item for item in listing(root) if item not in before]
            results.append(([normalize(a, root) for a in argv], result, recorder.events, changed))
        for kwargs in ({"open_error": OSError("open failed")}, {"open_error": KeyError("k")},
                       {"encode_error": OSError(5, "encode failed")}, {"encoded": None}):
            before = listing(root)
            with Recorder(root, **kwargs).installed() as recorder:
                result = run_main(root, [img, cache])
            changed = [item for item in listing(root) if item not in before]
            results.append((sorted(kwargs), result, recorder.events, changed))

        # python -m ceos_alos2.sar_image
        env = {**os.environ, "COLUMNS": "80", "NO_COLOR": "1"}
        for argv in (["-h"], [], [str(root / "product" / "missing")], ["--rpc", "x", img]):
            proc = subprocess.run(
                [sys.executable, "-m", "ceos_alos2.sar_image", *argv],
                capture_output=True, text=True, env=env, cwd=str(root),
            )
            results.append((
                "subprocess", [normalize(a, root) for a in argv], proc.returncode,
                normalize(proc.stdout, root), normalize(proc.stderr, root),
            ))
    return results


def observe_module():
    names = ["create_cache", "main", "argparse", "pathlib", "sys", "fsspec", "caching", "open_image"]
    import inspect

    return {
        "names": [(name, hasattr(cli, name)) for name in names],
        "create_cache_params": [
            (p.name, str(p.kind), p.default is inspect.Parameter.empty)
            for p in inspect.signature(cli.create_cache).parameters.values()
        ],
        "main_params": list(inspect.signature(cli.main).parameters),
    }


def observe_all():
    return {
        "create_cache": observe_create_cache(),
        "request_order": observe_request_order(),
        "main": observe_main(),
        "module": [observe_module()],
    }


# -- recorded from the unchanged code ------------------------------------
EXPECTED = {'create_cache': [('default-root', True, ('ok', 'None'),
                   [('get_mapper', ['<TMPURI>/product'], []), ('mapper', 'FSMap', '<TMP>/product'),
                    ('open_image', 'FSMap', '<TMP>/product', ["'IMG-HH-ALOS2000000000-000000-WBDR1.1__D-F1'"],
                     [('create_cache', 'False'), ('records_per_chunk', '4096'), ('use_cache', 'False')]),
                    ('encode', ["'group(IMG-HH-ALOS2000000000-000000-WBDR1.1__D-F1)'"], [])],
                   [('product/IMG-HH-ALOS2000000000-000000-WBDR1.1__D-F1.index', b'encoded: group(IMG-HH-ALOS2000000000-000000-WBDR1.1__D-F1)')],
                   []),
                  ('default-root', False, ('raise', 'ValueError', ["relative path can't be expressed as a file URI"], 'NoneType', 'NoneType'), [], [],
                   []),
                  ('explicit-root', True, ('ok', 'None'),
                   [('get_mapper', ['<TMPURI>/product'], []), ('mapper', 'FSMap', '<TMP>/product'),
                    ('open_image', 'FSMap', '<TMP>/product', ["'IMG-HH-ALOS2000000000-000000-WBDR1.1__D-F1'"],
                     [('create_cache', 'False'), ('records_per_chunk', '4096'), ('use_cache', 'False')]),
                    ('encode', ["'group(IMG-HH-ALOS2000000000-000000-WBDR1.1__D-F1)'"], [])],
                   [('cache/IMG-HH-ALOS2000000000-000000-WBDR1.1__D-F1.index', b'encoded: group(IMG-HH-ALOS2000000000-000000-WBDR1.1__D-F1)')], []),
                  ('explicit-root', False, ('raise', 'ValueError', ["relative path can't be expressed as a file URI"], 'NoneType', 'NoneType'), [],
                   [], []),
                  ('root-is-image-dir', True, ('ok', 'None'),
                   [('get_mapper', ['<TMPURI>/product'], []), ('mapper', 'FSMap', '<TMP>/product'),
                    ('open_image', 'FSMap', '<TMP>/product', ["'IMG-HH-ALOS2000000000-000000-WBDR1.1__D-F1'"],
                     [('create_cache', 'False'), ('records_per_chunk', '1'), ('use_cache', 'False')]),
                    ('encode', ["'group(IMG-HH-ALOS2000000000-000000-WBDR1.1__D-F1)'"], [])],
                   [('product/IMG-HH-ALOS2000000000-000000-WBDR1.1__D-F1.index', b'encoded: group(IMG-HH-ALOS2000000000-000000-WBDR1.1__D-F1)')],
                   []),
                  ('root-is-image-dir', False, ('raise', 'ValueError', ["relative path can't be expressed as a file URI"], 'NoneType', 'NoneType'),
                   [], [], []),
                  ('rpc-none', True, ('ok', 'None'),
                   [('get_mapper', ['<TMPURI>/product'], []), ('mapper', 'FSMap', '<TMP>/product'),
                    ('open_image', 'FSMap', '<TMP>/product', ["'IMG-HH-ALOS2000000000-000000-WBDR1.1__D-F1'"],
                     [('create_cache', 'False'), ('records_per_chunk', 'None'), ('use_cache', 'False')]),
                    ('encode', ["'group(IMG-HH-ALOS2000000000-000000-WBDR1.1__D-F1)'"], [])],
                   [('product/IMG-HH-ALOS2000000000-000000-WBDR1.1__D-F1.index', b'encoded: group(IMG-HH-ALOS2000000000-000000-WBDR1.1__D-F1)')],
                   []),
                  ('rpc-none', False, ('raise', 'ValueError', ["relative path can't be expressed as a file URI"], 'NoneType', 'NoneType'), [], [],
                   []),
                  ('rpc-str', True, ('ok', 'None'),
                   [('get_mapper', ['<TMPURI>/product'], []), ('mapper', 'FSMap', '<TMP>/product'),
                    ('open_image', 'FSMap', '<TMP>/product', ["'IMG-HH-ALOS2000000000-000000-WBDR1.1__D-F1'"],
                     [('create_cache', 'False'), ('records_per_chunk', "'12'"), ('use_cache', 'False')]),
                    ('encode', ["'group(IMG-HH-ALOS2000000000-000000-WBDR1.1__D-F1)'"], [])],
                   [('cache/IMG-HH-ALOS2000000000-000000-WBDR1.1__D-F1.index', b'encoded: group(IMG-HH-ALOS2000000000-000000-WBDR1.1__D-F1)')], []),
                  ('rpc-str', False, ('raise', 'ValueError', ["relative path can't be expressed as a file URI"], 'NoneType', 'NoneType'), [], [], []),
                  ('missing-image', True,
                   ('raise', 'FileNotFoundError', ['Cannot find image file at given path: <TMP>/product/IMG-missing'], 'NoneType', 'NoneType'), [],
                   [], []),
                  ('missing-image', False,
                   ('raise', 'FileNotFoundError', ['Cannot find image file at given path: product/IMG-missing'], 'NoneType', 'NoneType'), [], [],
                   []),
                  ('missing-image-dir', True,
                   ('raise', 'FileNotFoundError', ['Cannot find image file at given path: <TMP>/nowhere/IMG'], 'NoneType', 'NoneType'), [], [], []),
                  ('missing-image-dir', False,
                   ('raise', 'FileNotFoundError', ['Cannot find image file at given path: nowhere/IMG'], 'NoneType', 'NoneType'), [], [], []),
                  ('image-is-dir', True,
                   ('raise', 'FileNotFoundError', ['Cannot find image file at given path: <TMP>/product/subdir'], 'NoneType', 'NoneType'), [], [],
                   []),
                  ('image-is-dir', False,
                   ('raise', 'FileNotFoundError', ['Cannot find image file at given path: product/subdir'], 'NoneType', 'NoneType'), [], [], []),
                  ('image-is-dir-with-root', True,
                   ('raise', 'FileNotFoundError', ['Cannot find image file at given path: <TMP>/product'], 'NoneType', 'NoneType'), [], [], []),
                  ('image-is-dir-with-root', False,
                   ('raise', 'FileNotFoundError', ['Cannot find image file at given path: product'], 'NoneType', 'NoneType'), [], [], []),
                  ('missing-root', True, ('raise', 'OSError', ['Cannot find the target cache root: <TMP>/nocache'], 'NoneType', 'NoneType'), [], [],
                   []),
                  ('missing-root', False, ('raise', 'OSError', ['Cannot find the target cache root: nocache'], 'NoneType', 'NoneType'), [], [], []),
                  ('root-is-file', True, ('raise', 'OSError', ['Cannot find the target cache root: <TMP>/a file'], 'NoneType', 'NoneType'), [], [],
                   []),
                  ('root-is-file', False, ('raise', 'OSError', ['Cannot find the target cache root: a file'], 'NoneType', 'NoneType'), [], [], []),
                  ('root-is-image', True,
                   ('raise', 'OSError', ['Cannot find the target cache root: <TMP>/product/IMG-HH-ALOS2000000000-000000-WBDR1.1__D-F1'], 'NoneType',
                    'NoneType'),
                   [], [], []),
                  ('root-is-image', False,
                   ('raise', 'OSError', ['Cannot find the target cache root: product/IMG-HH-ALOS2000000000-000000-WBDR1.1__D-F1'], 'NoneType',
                    'NoneType'),
                   [], [], []),
                  ('missing-image-and-root', True,
                   ('raise', 'FileNotFoundError', ['Cannot find image file at given path: <TMP>/product/IMG-missing'], 'NoneType', 'NoneType'), [],
                   [], []),
                  ('missing-image-and-root', False,
                   ('raise', 'FileNotFoundError', ['Cannot find image file at given path: product/IMG-missing'], 'NoneType', 'NoneType'), [], [],
                   []),
                  ('overwrite-default', True, ('ok', 'None'),
                   [('get_mapper', ['<TMPURI>/product'], []), ('mapper', 'FSMap', '<TMP>/product'),
                    ('open_image', 'FSMap', '<TMP>/product', ["'IMG-EXISTING'"],
                     [('create_cache', 'False'), ('records_per_chunk', '4096'), ('use_cache', 'False')]),
                    ('encode', ["'group(IMG-EXISTING)'"], [])],
                   [('product/IMG-EXISTING.index', b'encoded: group(IMG-EXISTING)')], [('product/IMG-EXISTING.index', b'old cache')]),
                  ('overwrite-default', False, ('raise', 'ValueError', ["relative path can't be expressed as a file URI"], 'NoneType', 'NoneType'),
                   [], [], []),
                  ('overwrite-explicit', True, ('ok', 'None'),
                   [('get_mapper', ['<TMPURI>/product'], []), ('mapper', 'FSMap', '<TMP>/product'),
                    ('open_image', 'FSMap', '<TMP>/product', ["'IMG-EXISTING'"],
                     [('create_cache', 'False'), ('records_per_chunk', '4096'), ('use_cache', 'False')]),
                    ('encode', ["'group(IMG-EXISTING)'"], [])],
                   [('cache/IMG-EXISTING.index', b'encoded: group(IMG-EXISTING)')], [('cache/IMG-EXISTING.index', b'old cache 2')]),
                  ('overwrite-explicit', False, ('raise', 'ValueError', ["relative path can't be expressed as a file URI"], 'NoneType', 'NoneType'),
                   [], [], []),
                  ('special-chars', True, ('ok', 'None'),
                   [('get_mapper', ['<TMPURI>/product'], []), ('mapper', 'FSMap', '<TMP>/product'),
                    ('open_image', 'FSMap', '<TMP>/product', ["'IMG with space ü'"],
                     [('create_cache', 'False'), ('records_per_chunk', '4096'), ('use_cache', 'False')]),
                    ('encode', ["'group(IMG with space ü)'"], [])],
                   [('product/IMG with space ü.index', b'encoded: group(IMG with space \xc3\xbc)')], []),
                  ('special-chars', False, ('raise', 'ValueError', ["relative path can't be expressed as a file URI"], 'NoneType', 'NoneType'), [],
                   [], []),
                  ('special-chars-root', True, ('ok', 'None'),
                   [('get_mapper', ['<TMPURI>/product'], []), ('mapper', 'FSMap', '<TMP>/product'),
                    ('open_image', 'FSMap', '<TMP>/product', ["'IMG with space ü'"],
                     [('create_cache', 'False'), ('records_per_chunk', '4096'), ('use_cache', 'False')]),
                    ('encode', ["'group(IMG with space ü)'"], [])],
                   [('dir with space ü/IMG with space ü.index', b'encoded: group(IMG with space \xc3\xbc)')], []),
                  ('special-chars-root', False, ('raise', 'ValueError', ["relative path can't be expressed as a file URI"], 'NoneType', 'NoneType'),
                   [], [], []),
                  ('special-dir', True, ('ok', 'None'),
                   [('get_mapper', ['<TMPURI>/dir%20with%20space%20%C3%BC'], []), ('mapper', 'FSMap', '<TMP>/dir%20with%20space%20%C3%BC'),
                    ('open_image', 'FSMap', '<TMP>/dir%20with%20space%20%C3%BC', ["'IMG-X'"],
                     [('create_cache', 'False'), ('records_per_chunk', '7'), ('use_cache', 'False')]),
                    ('encode', ["'group(IMG-X)'"], [])],
                   [('dir with space ü/IMG-X.index', b'encoded: group(IMG-X)')], []),
                  ('special-dir', False, ('raise', 'ValueError', ["relative path can't be expressed as a file URI"], 'NoneType', 'NoneType'), [], [],
                   []),
                  ('open-oserror', True, ('raise', 'OSError', ['cannot open'], 'NoneType', 'NoneType'),
                   [('get_mapper', ['<TMPURI>/product'], []), ('mapper', 'FSMap', '<TMP>/product'),
                    ('open_image', 'FSMap', '<TMP>/product', ["'IMG-HH-ALOS2000000000-000000-WBDR1.1__D-F1'"],
                     [('create_cache', 'False'), ('records_per_chunk', '4096'), ('use_cache', 'False')])],
                   [], []),
                  ('open-oserror', False, ('raise', 'ValueError', ["relative path can't be expressed as a file URI"], 'NoneType', 'NoneType'), [], [],
                   []),
                  ('open-filenotfound', True, ('raise', 'FileNotFoundError', ['2', 'nope'], 'NoneType', 'NoneType'),
                   [('get_mapper', ['<TMPURI>/product'], []), ('mapper', 'FSMap', '<TMP>/product'),
                    ('open_image', 'FSMap', '<TMP>/product', ["'IMG-HH-ALOS2000000000-000000-WBDR1.1__D-F1'"],
                     [('create_cache', 'False'), ('records_per_chunk', '4096'), ('use_cache', 'False')])],
                   [], []),
                  ('open-filenotfound', False, ('raise', 'ValueError', ["relative path can't be expressed as a file URI"], 'NoneType', 'NoneType'),
                   [], [], []),
                  ('open-valueerror', True, ('raise', 'ValueError', ['bad records'], 'NoneType', 'NoneType'),
                   [('get_mapper', ['<TMPURI>/product'], []), ('mapper', 'FSMap', '<TMP>/product'),
                    ('open_image', 'FSMap', '<TMP>/product', ["'IMG-HH-ALOS2000000000-000000-WBDR1.1__D-F1'"],
                     [('create_cache', 'False'), ('records_per_chunk', '4096'), ('use_cache', 'False')])],
                   [], []),
                  ('open-valueerror', False, ('raise', 'ValueError', ["relative path can't be expressed as a file URI"], 'NoneType', 'NoneType'), [],
                   [], []),
                  ('encode-error', True, ('raise', 'TypeError', ['cannot encode'], 'NoneType', 'NoneType'),
                   [('get_mapper', ['<TMPURI>/product'], []), ('mapper', 'FSMap', '<TMP>/product'),
                    ('open_image', 'FSMap', '<TMP>/product', ["'IMG-HH-ALOS2000000000-000000-WBDR1.1__D-F1'"],
                     [('create_cache', 'False'), ('records_per_chunk', '4096'), ('use_cache', 'False')]),
                    ('encode', ["'group(IMG-HH-ALOS2000000000-000000-WBDR1.1__D-F1)'"], [])],
                   [], []),
                  ('encode-error', False, ('raise', 'ValueError', ["relative path can't be expressed as a file URI"], 'NoneType', 'NoneType'), [], [],
                   []),
                  ('encode-error-root', True, ('raise', 'OSError', ['encode io'], 'NoneType', 'NoneType'),
                   [('get_mapper', ['<TMPURI>/product'], []), ('mapper', 'FSMap', '<TMP>/product'),
                    ('open_image', 'FSMap', '<TMP>/product', ["'IMG-HH-ALOS2000000000-000000-WBDR1.1__D-F1'"],
                     [('create_cache', 'False'), ('records_per_chunk', '4096'), ('use_cache', 'False')]),
                    ('encode', ["'group(IMG-HH-ALOS2000000000-000000-WBDR1.1__D-F1)'"], [])],
                   [], []),
                  ('encode-error-root', False, ('raise', 'ValueError', ["relative path can't be expressed as a file URI"], 'NoneType', 'NoneType'),
                   [], [], []),
                  ('encode-bytes', True, ('raise', 'TypeError', ['data must be str, not bytes'], 'NoneType', 'NoneType'),
                   [('get_mapper', ['<TMPURI>/product'], []), ('mapper', 'FSMap', '<TMP>/product'),
                    ('open_image', 'FSMap', '<TMP>/product', ["'IMG-HH-ALOS2000000000-000000-WBDR1.1__D-F1'"],
                     [('create_cache', 'False'), ('records_per_chunk', '4096'), ('use_cache', 'False')]),
                    ('encode', ["'group(IMG-HH-ALOS2000000000-000000-WBDR1.1__D-F1)'"], [])],
                   [], []),
                  ('encode-bytes', False, ('raise', 'ValueError', ["relative path can't be expressed as a file URI"], 'NoneType', 'NoneType'), [], [],
                   []),
                  ('encode-none', True, ('raise', 'TypeError', ['data must be str, not NoneType'], 'NoneType', 'NoneType'),
                   [('get_mapper', ['<TMPURI>/product'], []), ('mapper', 'FSMap', '<TMP>/product'),
                    ('open_image', 'FSMap', '<TMP>/product', ["'IMG-HH-ALOS2000000000-000000-WBDR1.1__D-F1'"],
                     [('create_cache', 'False'), ('records_per_chunk', '4096'), ('use_cache', 'False')]),
                    ('encode', ["'group(IMG-HH-ALOS2000000000-000000-WBDR1.1__D-F1)'"], [])],
                   [], []),
                  ('encode-none', False, ('raise', 'ValueError', ["relative path can't be expressed as a file URI"], 'NoneType', 'NoneType'), [], [],
                   []),
                  ('encode-empty', True, ('ok', 'None'),
                   [('get_mapper', ['<TMPURI>/product'], []), ('mapper', 'FSMap', '<TMP>/product'),
                    ('open_image', 'FSMap', '<TMP>/product', ["'IMG-HH-ALOS2000000000-000000-WBDR1.1__D-F1'"],
                     [('create_cache', 'False'), ('records_per_chunk', '4096'), ('use_cache', 'False')]),
                    ('encode', ["'group(IMG-HH-ALOS2000000000-000000-WBDR1.1__D-F1)'"], [])],
                   [('cache/IMG-HH-ALOS2000000000-000000-WBDR1.1__D-F1.index', b'')], []),
                  ('encode-empty', False, ('raise', 'ValueError', ["relative path can't be expressed as a file URI"], 'NoneType', 'NoneType'), [], [],
                   []),
                  ('encode-unicode', True, ('ok', 'None'),
                   [('get_mapper', ['<TMPURI>/product'], []), ('mapper', 'FSMap', '<TMP>/product'),
                    ('open_image', 'FSMap', '<TMP>/product', ["'IMG-HH-ALOS2000000000-000000-WBDR1.1__D-F1'"],
                     [('create_cache', 'False'), ('records_per_chunk', '4096'), ('use_cache', 'False')]),
                    ('encode', ["'group(IMG-HH-ALOS2000000000-000000-WBDR1.1__D-F1)'"], [])],
                   [('cache/IMG-HH-ALOS2000000000-000000-WBDR1.1__D-F1.index', b'\xc3\xbc\ngroup(IMG-HH-ALOS2000000000-000000-WBDR1.1__D-F1)\n')],
                   []),
                  ('encode-unicode', False, ('raise', 'ValueError', ["relative path can't be expressed as a file URI"], 'NoneType', 'NoneType'), [],
                   [], [])],
 'main': [([],
           (('raise', 'SystemExit', ['2'], 'NoneType', 'NoneType'), '',
            'usage: ceos-alos2-create-cache [-h] [--rpc [RPC]] image_path [cache_root]\n'
            'ceos-alos2-create-cache: error: the following arguments are required: image_path\n',
            [])),
          (['-h'],
           (('raise', 'SystemExit', ['0'], 'NoneType', 'NoneType'),
            'usage: ceos-alos2-create-cache [-h] [--rpc [RPC]] image_path [cache_root]\n'
            '\n'
            'positional arguments:\n'
            '  image_path   image path to create a cache file for\n'
            '  cache_root   Root path to the new cache file. By default, it is created in\n'
            '               the same directory as the image file.\n'
            '\n'
            'options:\n'
            '  -h, --help   show this help message and exit\n'
            '  --rpc [RPC]  records-per-chunk size used to create the cache files\n',
            '', [])),
          (['--help'],
           (('raise', 'SystemExit', ['0'], 'NoneType', 'NoneType'),
            'usage: ceos-alos2-create-cache [-h] [--rpc [RPC]] image_path [cache_root]\n'
            '\n'
            'positional arguments:\n'
            '  image_path   image path to create a cache file for\n'
            '  cache_root   Root path to the new cache file. By default, it is created in\n'
            '               the same directory as the image file.\n'
            '\n'
            'options:\n'
            '  -h, --help   show this help message and exit\n'
            '  --rpc [RPC]  records-per-chunk size used to create the cache files\n',
            '', [])),
          (['<img>'],
           (('ok', 'None'), '', '',
            [(['<TMP>/product/IMG-HH-ALOS2000000000-000000-WBDR1.1__D-F1', None], [('records_per_chunk', '4096')], ['PosixPath', 'NoneType'])])),
          (['<img>', '<cache>'],
           (('ok', 'None'), '', '',
            [(['<TMP>/product/IMG-HH-ALOS2000000000-000000-WBDR1.1__D-F1', '<TMP>/cache'], [('records_per_chunk', '4096')],
              ['PosixPath', 'PosixPath'])])),
          (['<img>', '<cache>', 'extra'],
           (('raise', 'SystemExit', ['2'], 'NoneType', 'NoneType'), '',
            'usage: ceos-alos2-create-cache [-h] [--rpc [RPC]] image_path [cache_root]\n'
            'ceos-alos2-create-cache: error: unrecognized arguments: extra\n',
            [])),
          (['--rpc', '12', '<img>'],
           (('ok', 'None'), '', '',
            [(['<TMP>/product/IMG-HH-ALOS2000000000-000000-WBDR1.1__D-F1', None], [('records_per_chunk', '12')], ['PosixPath', 'NoneType'])])),
          (['--rpc=7', '<img>', '<cache>'],
           (('ok', 'None'), '', '',
            [(['<TMP>/product/IMG-HH-ALOS2000000000-000000-WBDR1.1__D-F1', '<TMP>/cache'], [('records_per_chunk', '7')],
              ['PosixPath', 'PosixPath'])])),
          (['<img>', '--rpc', '3'],
           (('ok', 'None'), '', '',
            [(['<TMP>/product/IMG-HH-ALOS2000000000-000000-WBDR1.1__D-F1', None], [('records_per_chunk', '3')], ['PosixPath', 'NoneType'])])),
          (['<img>', '--rpc'],
           (('ok', 'None'), '', '',
            [(['<TMP>/product/IMG-HH-ALOS2000000000-000000-WBDR1.1__D-F1', None], [('records_per_chunk', 'None')], ['PosixPath', 'NoneType'])])),
          (['--rpc', '<img>'],
           (('raise', 'SystemExit', ['2'], 'NoneType', 'ArgumentError'), '',
            'usage: ceos-alos2-create-cache [-h] [--rpc [RPC]] image_path [cache_root]\n'
            "ceos-alos2-create-cache: error: argument --rpc: invalid int value: '<TMP>/product/IMG-HH-ALOS2000000000-000000-WBDR1.1__D-F1'\n",
            [])),
          (['--rpc', 'x', '<img>'],
           (('raise', 'SystemExit', ['2'], 'NoneType', 'ArgumentError'), '',
            'usage: ceos-alos2-create-cache [-h] [--rpc [RPC]] image_path [cache_root]\n'
            "ceos-alos2-create-cache: error: argument --rpc: invalid int value: 'x'\n",
            [])),
          (['--rpc', '-1', '<img>'],
           (('ok', 'None'), '', '',
            [(['<TMP>/product/IMG-HH-ALOS2000000000-000000-WBDR1.1__D-F1', None], [('records_per_chunk', '-1')], ['PosixPath', 'NoneType'])])),
          (['--rpc', '1.5', '<img>'],
           (('raise', 'SystemExit', ['2'], 'NoneType', 'ArgumentError'), '',
            'usage: ceos-alos2-create-cache [-h] [--rpc [RPC]] image_path [cache_root]\n'
            "ceos-alos2-create-cache: error: argument --rpc: invalid int value: '1.5'\n",
            [])),
          (['--rp', '5', '<img>'],
           (('ok', 'None'), '', '',
            [(['<TMP>/product/IMG-HH-ALOS2000000000-000000-WBDR1.1__D-F1', None], [('records_per_chunk', '5')], ['PosixPath', 'NoneType'])])),
          (['--unknown', '<img>'],
           (('raise', 'SystemExit', ['2'], 'NoneType', 'NoneType'), '',
            'usage: ceos-alos2-create-cache [-h] [--rpc [RPC]] image_path [cache_root]\n'
            'ceos-alos2-create-cache: error: unrecognized arguments: --unknown\n',
            [])),
          (['relative/IMG'], (('ok', 'None'), '', '', [(['relative/IMG', None], [('records_per_chunk', '4096')], ['PosixPath', 'NoneType'])])),
          (['relative/IMG', '.'], (('ok', 'None'), '', '', [(['relative/IMG', '.'], [('records_per_chunk', '4096')], ['PosixPath', 'PosixPath'])])),
          (['', ''], (('ok', 'None'), '', '', [(['.', '.'], [('records_per_chunk', '4096')], ['PosixPath', 'PosixPath'])])),
          (['--', '--rpc'], (('ok', 'None'), '', '', [(['--rpc', None], [('records_per_chunk', '4096')], ['PosixPath', 'NoneType'])])),
          (['<img>', '<cache>', '--rpc', '0'],
           (('ok', 'None'), '', '',
            [(['<TMP>/product/IMG-HH-ALOS2000000000-000000-WBDR1.1__D-F1', '<TMP>/cache'], [('records_per_chunk', '0')],
              ['PosixPath', 'PosixPath'])])),
          (['-r', '1', '<img>'],
           (('raise', 'SystemExit', ['2'], 'NoneType', 'NoneType'), '',
            'usage: ceos-alos2-create-cache [-h] [--rpc [RPC]] image_path [cache_root]\nceos-alos2-create-cache: error: unrecognized arguments: -r\n',
            [])),
          (['--rpc', '1', '--rpc', '2', '<img>'],
           (('ok', 'None'), '', '',
            [(['<TMP>/product/IMG-HH-ALOS2000000000-000000-WBDR1.1__D-F1', None], [('records_per_chunk', '2')], ['PosixPath', 'NoneType'])])),
          (['--rpc', '0x10', '<img>'],
           (('raise', 'SystemExit', ['2'], 'NoneType', 'ArgumentError'), '',
            'usage: ceos-alos2-create-cache [-h] [--rpc [RPC]] image_path [cache_root]\n'
            "ceos-alos2-create-cache: error: argument --rpc: invalid int value: '0x10'\n",
            [])),
          (['--rpc', ' 8 ', '<img>'],
           (('ok', 'None'), '', '',
            [(['<TMP>/product/IMG-HH-ALOS2000000000-000000-WBDR1.1__D-F1', None], [('records_per_chunk', '8')], ['PosixPath', 'NoneType'])])),
          (['~/IMG', '~'], (('ok', 'None'), '', '', [(['~/IMG', '~'], [('records_per_chunk', '4096')], ['PosixPath', 'PosixPath'])])),
          ("OSError('plain message')",
           (('raise', 'SystemExit', ['1'], 'NoneType', 'OSError'), '', 'plain message\n',
            [(['<TMP>/product/IMG-HH-ALOS2000000000-000000-WBDR1.1__D-F1', '<TMP>/cache'], [('records_per_chunk', '4096')],
              ['PosixPath', 'PosixPath'])])),
          ("FileNotFoundError('not found message')",
           (('raise', 'SystemExit', ['1'], 'NoneType', 'FileNotFoundError'), '', 'not found message\n',
            [(['<TMP>/product/IMG-HH-ALOS2000000000-000000-WBDR1.1__D-F1', '<TMP>/cache'], [('records_per_chunk', '4096')],
              ['PosixPath', 'PosixPath'])])),
          ("FileNotFoundError(2, 'errno style')",
           (('raise', 'SystemExit', ['1'], 'NoneType', 'FileNotFoundError'), '', '2\n',
            [(['<TMP>/product/IMG-HH-ALOS2000000000-000000-WBDR1.1__D-F1', '<TMP>/cache'], [('records_per_chunk', '4096')],
              ['PosixPath', 'PosixPath'])])),
          ("PermissionError(13, 'Permission denied')",
           (('raise', 'SystemExit', ['1'], 'NoneType', 'PermissionError'), '', '13\n',
            [(['<TMP>/product/IMG-HH-ALOS2000000000-000000-WBDR1.1__D-F1', '<TMP>/cache'], [('records_per_chunk', '4096')],
              ['PosixPath', 'PosixPath'])])),
          ('OSError()',
           (('raise', 'IndexError', ['tuple index out of range'], 'NoneType', 'OSError'), '', '',
            [(['<TMP>/product/IMG-HH-ALOS2000000000-000000-WBDR1.1__D-F1', '<TMP>/cache'], [('records_per_chunk', '4096')],
              ['PosixPath', 'PosixPath'])])),
          ('OSError(None)',
           (('raise', 'SystemExit', ['1'], 'NoneType', 'OSError'), '', 'None\n',
            [(['<TMP>/product/IMG-HH-ALOS2000000000-000000-WBDR1.1__D-F1', '<TMP>/cache'], [('records_per_chunk', '4096')],
              ['PosixPath', 'PosixPath'])])),
          ("OSError(('tuple',))",
           (('raise', 'SystemExit', ['1'], 'NoneType', 'OSError'), '', "('tuple',)\n",
            [(['<TMP>/product/IMG-HH-ALOS2000000000-000000-WBDR1.1__D-F1', '<TMP>/cache'], [('records_per_chunk', '4096')],
              ['PosixPath', 'PosixPath'])])),
          ("OSError('a', 'b')",
           (('raise', 'SystemExit', ['1'], 'NoneType', 'OSError'), '', 'a\n',
            [(['<TMP>/product/IMG-HH-ALOS2000000000-000000-WBDR1.1__D-F1', '<TMP>/cache'], [('records_per_chunk', '4096')],
              ['PosixPath', 'PosixPath'])])),
          ("ValueError('not an OSError')",
           (('raise', 'ValueError', ['not an OSError'], 'NoneType', 'NoneType'), '', '',
            [(['<TMP>/product/IMG-HH-ALOS2000000000-000000-WBDR1.1__D-F1', '<TMP>/cache'], [('records_per_chunk', '4096')],
              ['PosixPath', 'PosixPath'])])),
          ('KeyboardInterrupt()',
           (('raise', 'KeyboardInterrupt', [], 'NoneType', 'NoneType'), '', '',
            [(['<TMP>/product/IMG-HH-ALOS2000000000-000000-WBDR1.1__D-F1', '<TMP>/cache'], [('records_per_chunk', '4096')],
              ['PosixPath', 'PosixPath'])])),
          ('SystemExit(3)',
           (('raise', 'SystemExit', ['3'], 'NoneType', 'NoneType'), '', '',
            [(['<TMP>/product/IMG-HH-ALOS2000000000-000000-WBDR1.1__D-F1', '<TMP>/cache'], [('records_per_chunk', '4096')],
              ['PosixPath', 'PosixPath'])])),
          ("IsADirectoryError('dir')",
           (('raise', 'SystemExit', ['1'], 'NoneType', 'IsADirectoryError'), '', 'dir\n',
            [(['<TMP>/product/IMG-HH-ALOS2000000000-000000-WBDR1.1__D-F1', '<TMP>/cache'], [('records_per_chunk', '4096')],
              ['PosixPath', 'PosixPath'])])),
          ("TimeoutError('timeout')",
           (('raise', 'SystemExit', ['1'], 'NoneType', 'TimeoutError'), '', 'timeout\n',
            [(['<TMP>/product/IMG-HH-ALOS2000000000-000000-WBDR1.1__D-F1', '<TMP>/cache'], [('records_per_chunk', '4096')],
              ['PosixPath', 'PosixPath'])])),
          ("ConnectionError('connection')",
           (('raise', 'SystemExit', ['1'], 'NoneType', 'ConnectionError'), '', 'connection\n',
            [(['<TMP>/product/IMG-HH-ALOS2000000000-000000-WBDR1.1__D-F1', '<TMP>/cache'], [('records_per_chunk', '4096')],
              ['PosixPath', 'PosixPath'])])),
          ("UnsupportedOperation('both OSError and ValueError')",
           (('raise', 'SystemExit', ['1'], 'NoneType', 'UnsupportedOperation'), '', 'both OSError and ValueError\n',
            [(['<TMP>/product/IMG-HH-ALOS2000000000-000000-WBDR1.1__D-F1', '<TMP>/cache'], [('records_per_chunk', '4096')],
              ['PosixPath', 'PosixPath'])])),
          ("EOFError('eof')",
           (('raise', 'EOFError', ['eof'], 'NoneType', 'NoneType'), '', '',
            [(['<TMP>/product/IMG-HH-ALOS2000000000-000000-WBDR1.1__D-F1', '<TMP>/cache'], [('records_per_chunk', '4096')],
              ['PosixPath', 'PosixPath'])])),
          ("OSError('multi\\nline')",
           (('raise', 'SystemExit', ['1'], 'NoneType', 'OSError'), '', 'multi\nline\n',
            [(['<TMP>/product/IMG-HH-ALOS2000000000-000000-WBDR1.1__D-F1', '<TMP>/cache'], [('records_per_chunk', '4096')],
              ['PosixPath', 'PosixPath'])])),
          ("OSError('')",
           (('raise', 'SystemExit', ['1'], 'NoneType', 'OSError'), '', '\n',
            [(['<TMP>/product/IMG-HH-ALOS2000000000-000000-WBDR1.1__D-F1', '<TMP>/cache'], [('records_per_chunk', '4096')],
              ['PosixPath', 'PosixPath'])])),
          ("BlockingIOError(11, 'blocking', 5)",
           (('raise', 'SystemExit', ['1'], 'NoneType', 'BlockingIOError'), '', '11\n',
            [(['<TMP>/product/IMG-HH-ALOS2000000000-000000-WBDR1.1__D-F1', '<TMP>/cache'], [('records_per_chunk', '4096')],
              ['PosixPath', 'PosixPath'])])),
          (['<TMP>/product/IMG-HH-ALOS2000000000-000000-WBDR1.1__D-F1'], (('ok', 'None'), '', '', []),
           [('get_mapper', ['<TMPURI>/product'], []), ('mapper', 'FSMap', '<TMP>/product'),
            ('open_image', 'FSMap', '<TMP>/product', ["'IMG-HH-ALOS2000000000-000000-WBDR1.1__D-F1'"],
             [('create_cache', 'False'), ('records_per_chunk', '4096'), ('use_cache', 'False')]),
            ('encode', ["'group(IMG-HH-ALOS2000000000-000000-WBDR1.1__D-F1)'"], [])],
           [('product/IMG-HH-ALOS2000000000-000000-WBDR1.1__D-F1.index', b'encoded: group(IMG-HH-ALOS2000000000-000000-WBDR1.1__D-F1)')]),
          (['<TMP>/product/IMG-HH-ALOS2000000000-000000-WBDR1.1__D-F1', '<TMP>/cache'], (('ok', 'None'), '', '', []),
           [('get_mapper', ['<TMPURI>/product'], []), ('mapper', 'FSMap', '<TMP>/product'),
            ('open_image', 'FSMap', '<TMP>/product', ["'IMG-HH-ALOS2000000000-000000-WBDR1.1__D-F1'"],
             [('create_cache', 'False'), ('records_per_chunk', '4096'), ('use_cache', 'False')]),
            ('encode', ["'group(IMG-HH-ALOS2000000000-000000-WBDR1.1__D-F1)'"], [])],
           [('cache/IMG-HH-ALOS2000000000-000000-WBDR1.1__D-F1.index', b'encoded: group(IMG-HH-ALOS2000000000-000000-WBDR1.1__D-F1)')]),
          (['<TMP>/product/IMG-HH-ALOS2000000000-000000-WBDR1.1__D-F1', '<TMP>/nocache'],
           (('raise', 'SystemExit', ['1'], 'NoneType', 'OSError'), '', 'Cannot find the target cache root: <TMP>/nocache\n', []), [], []),
          (['<TMP>/product/missing'],
           (('raise', 'SystemExit', ['1'], 'NoneType', 'FileNotFoundError'), '', 'Cannot find image file at given path: <TMP>/product/missing\n', []),
           [], []),
          (['<TMP>/product/missing', '<TMP>/nocache'],
           (('raise', 'SystemExit', ['1'], 'NoneType', 'FileNotFoundError'), '', 'Cannot find image file at given path: <TMP>/product/missing\n', []),
           [], []),
          (['--rpc', '5', '<TMP>/product/IMG-HH-ALOS2000000000-000000-WBDR1.1__D-F1', '<TMP>/cache'], (('ok', 'None'), '', '', []),
           [('get_mapper', ['<TMPURI>/product'], []), ('mapper', 'FSMap', '<TMP>/product'),
            ('open_image', 'FSMap', '<TMP>/product', ["'IMG-HH-ALOS2000000000-000000-WBDR1.1__D-F1'"],
             [('create_cache', 'False'), ('records_per_chunk', '5'), ('use_cache', 'False')]),
            ('encode', ["'group(IMG-HH-ALOS2000000000-000000-WBDR1.1__D-F1)'"], [])],
           []),
          (['<TMP>/product/IMG-HH-ALOS2000000000-000000-WBDR1.1__D-F1', '--rpc'], (('ok', 'None'), '', '', []),
           [('get_mapper', ['<TMPURI>/product'], []), ('mapper', 'FSMap', '<TMP>/product'),
            ('open_image', 'FSMap', '<TMP>/product', ["'IMG-HH-ALOS2000000000-000000-WBDR1.1__D-F1'"],
             [('create_cache', 'False'), ('records_per_chunk', 'None'), ('use_cache', 'False')]),
            ('encode', ["'group(IMG-HH-ALOS2000000000-000000-WBDR1.1__D-F1)'"], [])],
           []),
          (['<TMP>/product'],
           (('raise', 'SystemExit', ['1'], 'NoneType', 'FileNotFoundError'), '', 'Cannot find image file at given path: <TMP>/product\n', []), [],
           []),
          (['<TMP>/product/IMG-HH-ALOS2000000000-000000-WBDR1.1__D-F1', '<TMP>/a file'],
           (('raise', 'SystemExit', ['1'], 'NoneType', 'OSError'), '', 'Cannot find the target cache root: <TMP>/a file\n', []), [], []),
          (['open_error'], (('raise', 'SystemExit', ['1'], 'NoneType', 'OSError'), '', 'open failed\n', []),
           [('get_mapper', ['<TMPURI>/product'], []), ('mapper', 'FSMap', '<TMP>/product'),
            ('open_image', 'FSMap', '<TMP>/product', ["'IMG-HH-ALOS2000000000-000000-WBDR1.1__D-F1'"],
             [('create_cache', 'False'), ('records_per_chunk', '4096'), ('use_cache', 'False')])],
           []),
          (['open_error'], (('raise', 'KeyError', ['k'], 'NoneType', 'NoneType'), '', '', []),
           [('get_mapper', ['<TMPURI>/product'], []), ('mapper', 'FSMap', '<TMP>/product'),
            ('open_image', 'FSMap', '<TMP>/product', ["'IMG-HH-ALOS2000000000-000000-WBDR1.1__D-F1'"],
             [('create_cache', 'False'), ('records_per_chunk', '4096'), ('use_cache', 'False')])],
           []),
          (['encode_error'], (('raise', 'SystemExit', ['1'], 'NoneType', 'OSError'), '', '5\n', []),
           [('get_mapper', ['<TMPURI>/product'], []), ('mapper', 'FSMap', '<TMP>/product'),
            ('open_image', 'FSMap', '<TMP>/product', ["'IMG-HH-ALOS2000000000-000000-WBDR1.1__D-F1'"],
             [('create_cache', 'False'), ('records_per_chunk', '4096'), ('use_cache', 'False')]),
            ('encode', ["'group(IMG-HH-ALOS2000000000-000000-WBDR1.1__D-F1)'"], [])],
           []),
          (['encoded'], (('raise', 'TypeError', ['data must be str, not NoneType'], 'NoneType', 'NoneType'), '', '', []),
           [('get_mapper', ['<TMPURI>/product'], []), ('mapper', 'FSMap', '<TMP>/product'),
            ('open_image', 'FSMap', '<TMP>/product', ["'IMG-HH-ALOS2000000000-000000-WBDR1.1__D-F1'"],
             [('create_cache', 'False'), ('records_per_chunk', '4096'), ('use_cache', 'False')]),
            ('encode', ["'group(IMG-HH-ALOS2000000000-000000-WBDR1.1__D-F1)'"], [])],
           []),
          ('subprocess', ['-h'], 0,
           'usage: __main__.py [-h] [--rpc [RPC]] image_path [cache_root]\n'
           '\n'
           'positional arguments:\n'
           '  image_path   image path to create a cache file for\n'
           '  cache_root   Root path to the new cache file. By default, it is created in\n'
           '               the same directory as the image file.\n'
           '\n'
           'options:\n'
           '  -h, --help   show this help message and exit\n'
           '  --rpc [RPC]  records-per-chunk size used to create the cache files\n',
           ''),
          ('subprocess', [], 2, '',
           'usage: __main__.py [-h] [--rpc [RPC]] image_path [cache_root]\n__main__.py: error: the following arguments are required: image_path\n'),
          ('subprocess', ['<TMP>/product/missing'], 1, '', 'Cannot find image file at given path: <TMP>/product/missing\n'),
          ('subprocess', ['--rpc', 'x', '<TMP>/product/IMG-HH-ALOS2000000000-000000-WBDR1.1__D-F1'], 2, '',
           "usage: __main__.py [-h] [--rpc [RPC]] image_path [cache_root]\n__main__.py: error: argument --rpc: invalid int value: 'x'\n")],
 'module': [{'create_cache_params': [('image_path', 'POSITIONAL_OR_KEYWORD', True), ('cache_root', 'POSITIONAL_OR_KEYWORD', True),
                                     ('records_per_chunk', 'POSITIONAL_OR_KEYWORD', True)],
             'main_params': [],
             'names': [('create_cache', True), ('main', True), ('argparse', True), ('pathlib', True), ('sys', True), ('fsspec', True),
                       ('caching', True), ('open_image', True)]}],
 'request_order': [('all-good', [], ('ok', 'None'),
                    ["('is_file', 'image')", "('is_dir', 'root')", "('parent', 'image')", "('as_uri', 'image/..')",
                     "('get_mapper', ['memory://fake/image/..'], [])", "('mapper', 'FSMap', '/fake/image/..')", "('name', 'image')",
                     '(\'open_image\', \'FSMap\', \'/fake/image/..\', ["\'name-of-image\'"], [(\'create_cache\', \'False\'), (\'records_per_chunk\', '
                     "'3'), ('use_cache', 'False')])",
                     '(\'encode\', ["\'group(name-of-image)\'"], [])', "('truediv', 'root', 'name-of-image.index')",
                     "('write_text', 'root/name-of-image.index', ('encoded: group(name-of-image)',), [])"]),
                   ('all-good', ['open_error'], ('raise', 'OSError', ['open'], 'NoneType', 'NoneType'),
                    ["('is_file', 'image')", "('is_dir', 'root')", "('parent', 'image')", "('as_uri', 'image/..')",
                     "('get_mapper', ['memory://fake/image/..'], [])", "('mapper', 'FSMap', '/fake/image/..')", "('name', 'image')",
                     '(\'open_image\', \'FSMap\', \'/fake/image/..\', ["\'name-of-image\'"], [(\'create_cache\', \'False\'), (\'records_per_chunk\', '
                     "'3'), ('use_cache', 'False')])"]),
                   ('all-good', ['encode_error'], ('raise', 'KeyError', ['enc'], 'NoneType', 'NoneType'),
                    ["('is_file', 'image')", "('is_dir', 'root')", "('parent', 'image')", "('as_uri', 'image/..')",
                     "('get_mapper', ['memory://fake/image/..'], [])", "('mapper', 'FSMap', '/fake/image/..')", "('name', 'image')",
                     '(\'open_image\', \'FSMap\', \'/fake/image/..\', ["\'name-of-image\'"], [(\'create_cache\', \'False\'), (\'records_per_chunk\', '
                     "'3'), ('use_cache', 'False')])",
                     '(\'encode\', ["\'group(name-of-image)\'"], [])']),
                   ('no-root', [], ('ok', 'None'),
                    ["('is_file', 'image')", "('parent', 'image')", "('parent', 'image')", "('as_uri', 'image/..')",
                     "('get_mapper', ['memory://fake/image/..'], [])", "('mapper', 'FSMap', '/fake/image/..')", "('name', 'image')",
                     '(\'open_image\', \'FSMap\', \'/fake/image/..\', ["\'name-of-image\'"], [(\'create_cache\', \'False\'), (\'records_per_chunk\', '
                     "'3'), ('use_cache', 'False')])",
                     '(\'encode\', ["\'group(name-of-image)\'"], [])', "('truediv', 'image/..', 'name-of-image.index')",
                     "('write_text', 'image/../name-of-image.index', ('encoded: group(name-of-image)',), [])"]),
                   ('no-root', ['open_error'], ('raise', 'OSError', ['open'], 'NoneType', 'NoneType'),
                    ["('is_file', 'image')", "('parent', 'image')", "('parent', 'image')", "('as_uri', 'image/..')",
                     "('get_mapper', ['memory://fake/image/..'], [])", "('mapper', 'FSMap', '/fake/image/..')", "('name', 'image')",
                     '(\'open_image\', \'FSMap\', \'/fake/image/..\', ["\'name-of-image\'"], [(\'create_cache\', \'False\'), (\'records_per_chunk\', '
                     "'3'), ('use_cache', 'False')])"]),
                   ('no-root', ['encode_error'], ('raise', 'KeyError', ['enc'], 'NoneType', 'NoneType'),
                    ["('is_file', 'image')", "('parent', 'image')", "('parent', 'image')", "('as_uri', 'image/..')",
                     "('get_mapper', ['memory://fake/image/..'], [])", "('mapper', 'FSMap', '/fake/image/..')", "('name', 'image')",
                     '(\'open_image\', \'FSMap\', \'/fake/image/..\', ["\'name-of-image\'"], [(\'create_cache\', \'False\'), (\'records_per_chunk\', '
                     "'3'), ('use_cache', 'False')])",
                     '(\'encode\', ["\'group(name-of-image)\'"], [])']),
                   ('image-not-file', [], ('raise', 'FileNotFoundError', ['Cannot find image file at given path: <image>'], 'NoneType', 'NoneType'),
                    ["('is_file', 'image')", "('str', 'image')"]),
                   ('image-not-file', ['open_error'],
                    ('raise', 'FileNotFoundError', ['Cannot find image file at given path: <image>'], 'NoneType', 'NoneType'),
                    ["('is_file', 'image')", "('str', 'image')"]),
                   ('image-not-file', ['encode_error'],
                    ('raise', 'FileNotFoundError', ['Cannot find image file at given path: <image>'], 'NoneType', 'NoneType'),
                    ["('is_file', 'image')", "('str', 'image')"]),
                   ('image-not-file-no-root', [],
                    ('raise', 'FileNotFoundError', ['Cannot find image file at given path: <image>'], 'NoneType', 'NoneType'),
                    ["('is_file', 'image')", "('str', 'image')"]),
                   ('image-not-file-no-root', ['open_error'],
                    ('raise', 'FileNotFoundError', ['Cannot find image file at given path: <image>'], 'NoneType', 'NoneType'),
                    ["('is_file', 'image')", "('str', 'image')"]),
                   ('image-not-file-no-root', ['encode_error'],
                    ('raise', 'FileNotFoundError', ['Cannot find image file at given path: <image>'], 'NoneType', 'NoneType'),
                    ["('is_file', 'image')", "('str', 'image')"]),
                   ('root-not-dir', [], ('raise', 'OSError', ['Cannot find the target cache root: <root>'], 'NoneType', 'NoneType'),
                    ["('is_file', 'image')", "('is_dir', 'root')", "('str', 'root')"]),
                   ('root-not-dir', ['open_error'], ('raise', 'OSError', ['Cannot find the target cache root: <root>'], 'NoneType', 'NoneType'),
                    ["('is_file', 'image')", "('is_dir', 'root')", "('str', 'root')"]),
                   ('root-not-dir', ['encode_error'], ('raise', 'OSError', ['Cannot find the target cache root: <root>'], 'NoneType', 'NoneType'),
                    ["('is_file', 'image')", "('is_dir', 'root')", "('str', 'root')"]),
                   ('both-bad', [], ('raise', 'FileNotFoundError', ['Cannot find image file at given path: <image>'], 'NoneType', 'NoneType'),
                    ["('is_file', 'image')", "('str', 'image')"]),
                   ('both-bad', ['open_error'],
                    ('raise', 'FileNotFoundError', ['Cannot find image file at given path: <image>'], 'NoneType', 'NoneType'),
                    ["('is_file', 'image')", "('str', 'image')"]),
                   ('both-bad', ['encode_error'],
                    ('raise', 'FileNotFoundError', ['Cannot find image file at given path: <image>'], 'NoneType', 'NoneType'),
                    ["('is_file', 'image')", "('str', 'image')"]),
                   ('uri-error', [], ('raise', 'ValueError', ["relative path can't be expressed as a file URI"], 'NoneType', 'NoneType'),
                    ["('is_file', 'image')", "('is_dir', 'root')", "('parent', 'image')", "('as_uri', 'image/..')"]),
                   ('uri-error', ['open_error'], ('raise', 'ValueError', ["relative path can't be expressed as a file URI"], 'NoneType', 'NoneType'),
                    ["('is_file', 'image')", "('is_dir', 'root')", "('parent', 'image')", "('as_uri', 'image/..')"]),
                   ('uri-error', ['encode_error'],
                    ('raise', 'ValueError', ["relative path can't be expressed as a file URI"], 'NoneType', 'NoneType'),
                    ["('is_file', 'image')", "('is_dir', 'root')", "('parent', 'image')", "('as_uri', 'image/..')"]),
                   ('uri-error-no-root', [], ('raise', 'ValueError', ['relative'], 'NoneType', 'NoneType'),
                    ["('is_file', 'image')", "('parent', 'image')", "('parent', 'image')", "('as_uri', 'image/..')"]),
                   ('uri-error-no-root', ['open_error'], ('raise', 'ValueError', ['relative'], 'NoneType', 'NoneType'),
                    ["('is_file', 'image')", "('parent', 'image')", "('parent', 'image')", "('as_uri', 'image/..')"]),
                   ('uri-error-no-root', ['encode_error'], ('raise', 'ValueError', ['relative'], 'NoneType', 'NoneType'),
                    ["('is_file', 'image')", "('parent', 'image')", "('parent', 'image')", "('as_uri', 'image/..')"]),
                   ('uri-error-bad-root', [], ('raise', 'OSError', ['Cannot find the target cache root: <root>'], 'NoneType', 'NoneType'),
                    ["('is_file', 'image')", "('is_dir', 'root')", "('str', 'root')"]),
                   ('uri-error-bad-root', ['open_error'], ('raise', 'OSError', ['Cannot find the target cache root: <root>'], 'NoneType', 'NoneType'),
                    ["('is_file', 'image')", "('is_dir', 'root')", "('str', 'root')"]),
                   ('uri-error-bad-root', ['encode_error'],
                    ('raise', 'OSError', ['Cannot find the target cache root: <root>'], 'NoneType', 'NoneType'),
                    ["('is_file', 'image')", "('is_dir', 'root')", "('str', 'root')"]),
                   ('write-error', [], ('raise', 'PermissionError', ['13', 'Permission denied'], 'NoneType', 'NoneType'),
                    ["('is_file', 'image')", "('is_dir', 'root')", "('parent', 'image')", "('as_uri', 'image/..')",
                     "('get_mapper', ['memory://fake/image/..'], [])", "('mapper', 'FSMap', '/fake/image/..')", "('name', 'image')",
                     '(\'open_image\', \'FSMap\', \'/fake/image/..\', ["\'name-of-image\'"], [(\'create_cache\', \'False\'), (\'records_per_chunk\', '
                     "'3'), ('use_cache', 'False')])",
                     '(\'encode\', ["\'group(name-of-image)\'"], [])', "('truediv', 'root', 'name-of-image.index')",
                     "('write_text', 'root/name-of-image.index', ('encoded: group(name-of-image)',), [])"]),
                   ('write-error', ['open_error'], ('raise', 'OSError', ['open'], 'NoneType', 'NoneType'),
                    ["('is_file', 'image')", "('is_dir', 'root')", "('parent', 'image')", "('as_uri', 'image/..')",
                     "('get_mapper', ['memory://fake/image/..'], [])", "('mapper', 'FSMap', '/fake/image/..')", "('name', 'image')",
                     '(\'open_image\', \'FSMap\', \'/fake/image/..\', ["\'name-of-image\'"], [(\'create_cache\', \'False\'), (\'records_per_chunk\', '
                     "'3'), ('use_cache', 'False')])"]),
                   ('write-error', ['encode_error'], ('raise', 'KeyError', ['enc'], 'NoneType', 'NoneType'),
                    ["('is_file', 'image')", "('is_dir', 'root')", "('parent', 'image')", "('as_uri', 'image/..')",
                     "('get_mapper', ['memory://fake/image/..'], [])", "('mapper', 'FSMap', '/fake/image/..')", "('name', 'image')",
                     '(\'open_image\', \'FSMap\', \'/fake/image/..\', ["\'name-of-image\'"], [(\'create_cache\', \'False\'), (\'records_per_chunk\', '
                     "'3'), ('use_cache', 'False')])",
                     '(\'encode\', ["\'group(name-of-image)\'"], [])']),
                   ('write-error-no-root', [], ('raise', 'IsADirectoryError', ['21', 'Is a directory'], 'NoneType', 'NoneType'),
                    ["('is_file', 'image')", "('parent', 'image')", "('parent', 'image')", "('as_uri', 'image/..')",
                     "('get_mapper', ['memory://fake/image/..'], [])", "('mapper', 'FSMap', '/fake/image/..')", "('name', 'image')",
                     '(\'open_image\', \'FSMap\', \'/fake/image/..\', ["\'name-of-image\'"], [(\'create_cache\', \'False\'), (\'records_per_chunk\', '
                     "'3'), ('use_cache', 'False')])",
                     '(\'encode\', ["\'group(name-of-image)\'"], [])', "('truediv', 'image/..', 'name-of-image.index')",
                     "('write_text', 'image/../name-of-image.index', ('encoded: group(name-of-image)',), [])"]),
                   ('write-error-no-root', ['open_error'], ('raise', 'OSError', ['open'], 'NoneType', 'NoneType'),
                    ["('is_file', 'image')", "('parent', 'image')", "('parent', 'image')", "('as_uri', 'image/..')",
                     "('get_mapper', ['memory://fake/image/..'], [])", "('mapper', 'FSMap', '/fake/image/..')", "('name', 'image')",
                     '(\'open_image\', \'FSMap\', \'/fake/image/..\', ["\'name-of-image\'"], [(\'create_cache\', \'False\'), (\'records_per_chunk\', '
                     "'3'), ('use_cache', 'False')])"]),
                   ('write-error-no-root', ['encode_error'], ('raise', 'KeyError', ['enc'], 'NoneType', 'NoneType'),
                    ["('is_file', 'image')", "('parent', 'image')", "('parent', 'image')", "('as_uri', 'image/..')",
                     "('get_mapper', ['memory://fake/image/..'], [])", "('mapper', 'FSMap', '/fake/image/..')", "('name', 'image')",
                     '(\'open_image\', \'FSMap\', \'/fake/image/..\', ["\'name-of-image\'"], [(\'create_cache\', \'False\'), (\'records_per_chunk\', '
                     "'3'), ('use_cache', 'False')])",
                     '(\'encode\', ["\'group(name-of-image)\'"], [])']),
                   ('falsy-answers', [], ('raise', 'FileNotFoundError', ['Cannot find image file at given path: <image>'], 'NoneType', 'NoneType'),
                    ["('is_file', 'image')", "('str', 'image')"]),
                   ('falsy-answers', ['open_error'],
                    ('raise', 'FileNotFoundError', ['Cannot find image file at given path: <image>'], 'NoneType', 'NoneType'),
                    ["('is_file', 'image')", "('str', 'image')"]),
                   ('falsy-answers', ['encode_error'],
                    ('raise', 'FileNotFoundError', ['Cannot find image file at given path: <image>'], 'NoneType', 'NoneType'),
                    ["('is_file', 'image')", "('str', 'image')"]),
                   ('truthy-answers', [], ('ok', 'None'),
                    ["('is_file', 'image')", "('is_dir', 'root')", "('parent', 'image')", "('as_uri', 'image/..')",
                     "('get_mapper', ['memory://fake/image/..'], [])", "('mapper', 'FSMap', '/fake/image/..')", "('name', 'image')",
                     '(\'open_image\', \'FSMap\', \'/fake/image/..\', ["\'name-of-image\'"], [(\'create_cache\', \'False\'), (\'records_per_chunk\', '
                     "'3'), ('use_cache', 'False')])",
                     '(\'encode\', ["\'group(name-of-image)\'"], [])', "('truediv', 'root', 'name-of-image.index')",
                     "('write_text', 'root/name-of-image.index', ('encoded: group(name-of-image)',), [])"]),
                   ('truthy-answers', ['open_error'], ('raise', 'OSError', ['open'], 'NoneType', 'NoneType'),
                    ["('is_file', 'image')", "('is_dir', 'root')", "('parent', 'image')", "('as_uri', 'image/..')",
                     "('get_mapper', ['memory://fake/image/..'], [])", "('mapper', 'FSMap', '/fake/image/..')", "('name', 'image')",
                     '(\'open_image\', \'FSMap\', \'/fake/image/..\', ["\'name-of-image\'"], [(\'create_cache\', \'False\'), (\'records_per_chunk\', '
                     "'3'), ('use_cache', 'False')])"]),
                   ('truthy-answers', ['encode_error'], ('raise', 'KeyError', ['enc'], 'NoneType', 'NoneType'),
                    ["('is_file', 'image')", "('is_dir', 'root')", "('parent', 'image')", "('as_uri', 'image/..')",
                     "('get_mapper', ['memory://fake/image/..'], [])", "('mapper', 'FSMap', '/fake/image/..')", "('name', 'image')",
                     '(\'open_image\', \'FSMap\', \'/fake/image/..\', ["\'name-of-image\'"], [(\'create_cache\', \'False\'), (\'records_per_chunk\', '
                     "'3'), ('use_cache', 'False')])",
                     '(\'encode\', ["\'group(name-of-image)\'"], [])']),
                   ('None', 'None', ('raise', 'AttributeError', ["'NoneType' object has no attribute 'is_file'"], 'NoneType', 'NoneType'), []),
                   ("'text'", 'None', ('raise', 'AttributeError', ["'str' object has no attribute 'is_file'"], 'NoneType', 'NoneType'), []),
                   ("PurePosixPath('/a/b')", 'None',
                    ('raise', 'AttributeError', ["'PurePosixPath' object has no attribute 'is_file'"], 'NoneType', 'NoneType'), []),
                   ('fake', "'text'", ('raise', 'AttributeError', ["'str' object has no attribute 'is_dir'"], 'NoneType', 'NoneType'),
                    ["('is_file', 'image')"]),
                   ('fake', '0', ('raise', 'AttributeError', ["'int' object has no attribute 'is_dir'"], 'NoneType', 'NoneType'),
                    ["('is_file', 'image')"]),
                   ('fake', 'False', ('raise', 'AttributeError', ["'bool' object has no attribute 'is_dir'"], 'NoneType', 'NoneType'),
                    ["('is_file', 'image')"]),
                   ('fake', "''", ('raise', 'AttributeError', ["'str' object has no attribute 'is_dir'"], 'NoneType', 'NoneType'),
                    ["('is_file', 'image')"]),
                   ('fake', "PurePosixPath('/a/b')",
                    ('raise', 'AttributeError', ["'PurePosixPath' object has no attribute 'is_dir'"], 'NoneType', 'NoneType'),
                    ["('is_file', 'image')"]),
                   ('signature', 0, ['cache_root', 'image_path', 'records_per_chunk'], ('ok', 'None'),
                    ["('is_file', 'i')", "('parent', 'i')", "('parent', 'i')", "('as_uri', 'i/..')", "('get_mapper', ['memory://fake/i/..'], [])",
                     "('mapper', 'FSMap', '/fake/i/..')", "('name', 'i')",
                     '(\'open_image\', \'FSMap\', \'/fake/i/..\', ["\'name-of-i\'"], [(\'create_cache\', \'False\'), (\'records_per_chunk\', \'1\'), '
                     "('use_cache', 'False')])",
                     '(\'encode\', ["\'group(name-of-i)\'"], [])', "('truediv', 'i/..', 'name-of-i.index')",
                     "('write_text', 'i/../name-of-i.index', ('encoded: group(name-of-i)',), [])"]),
                   ('signature', 2, [],
                    ('raise', 'TypeError', ["create_cache() missing 1 required positional argument: 'records_per_chunk'"], 'NoneType', 'NoneType'),
                    []),
                   ('signature', 1, ['records_per_chunk'],
                    ('raise', 'TypeError', ["create_cache() missing 1 required positional argument: 'cache_root'"], 'NoneType', 'NoneType'), []),
                   ('signature', 4, [],
                    ('raise', 'TypeError', ['create_cache() takes 3 positional arguments but 4 were given'], 'NoneType', 'NoneType'), []),
                   ('signature', 3, ['use_cache'],
                    ('raise', 'TypeError', ["create_cache() got an unexpected keyword argument 'use_cache'"], 'NoneType', 'NoneType'), [])]}
# ------------------------------------------------------------------------


def _check(section):
    observed = observe_all_cached()[section]
    expected = EXPECTED[section]
    assert len(observed) == len(expected)
    for actual, wanted in zip(observed, expected):
        assert actual == wanted, f"\n{pprint.pformat(actual)}\n!=\n{pprint.pformat(wanted)}"
    return len(observed)


_cache = {}


def observe_all_cached():
    if not _cache:
        _cache.update(observe_all())
    return _cache


def test_create_cache():
    _check("create_cache")


def test_request_order():
    _check("request_order")


def test_main():
    _check("main")


def test_module():
    _check("module")


if __name__ == "__main__":
    if "--record" in sys.argv:
        print("EXPECTED = " + pprint.pformat(observe_all(), width=150, compact=True))
        sys.exit(0)
    total = sum(_check(section) for section in EXPECTED)
    print(f"OK ({total} observations)")
