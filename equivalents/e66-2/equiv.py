"""Equivalence check for refactoring 2 (datetime adapters in ceos_alos2/datatypes.py).

Run as ``python _eq/2/equiv.py`` (or through pytest).  ``--record`` prints the
observations instead of comparing them (used once, on the unchanged code).
"""

import datetime
import pprint
import struct
import sys

from construct import Int32ub, Int64ub, Struct, this

from ceos_alos2 import datatypes
from ceos_alos2.sar_image.processed_data import processed_data_record
from ceos_alos2.sar_image.signal_data import signal_data_record


def outcome(func, *args, **kwargs):
    try:
        value = func(*args, **kwargs)
    except Exception as e:  # noqa: BLE001
        return ("raise", type(e).__name__, str(e))
    return ("ok", type(value).__name__, repr(value))


class Recording(dict):
    """mapping which remembers the order of the lookups"""

    def __init__(self, *args, **kwargs):
        super().__init__(*args, **kwargs)
        self.lookups = []

    def __getitem__(self, key):
        self.lookups.append(key)
        return super().__getitem__(key)


ydms_base = Struct("year" / Int32ub, "day_of_year" / Int32ub, "milliseconds" / Int32ub)

YDMS_PARSE = [
    (1990, 270, 52032102),
    (2059, 1, 0),
    (2019, 1, 1),
    (2019, 365, 86399999),
    (2019, 366, 0),
    (2020, 366, 0),
    (2020, 60, 0),
    (2019, 60, 0),
    (2019, 0, 0),
    (2019, 1, 86400000),
    (2019, 1, 4294967295),
    (2019, 4294967295, 0),
    (2019, 1000000000, 0),
    (2019, 999999999, 0),
    (1, 1, 0),
    (1, 0, 0),
    (1, 0, 86400000),
    (1, 0, 86399999),
    (0, 1, 0),
    (0, 4294967295, 0),
    (0, 0, 4294967295),
    (9999, 365, 86399999),
    (9999, 365, 86400000),
    (9999, 366, 0),
    (10000, 1, 0),
    (10000, 4294967295, 4294967295),
    (4294967295, 1, 0),
    (2014, 215, 43200500),
]

YDMS_DECODE = [
    {"year": 2019, "day_of_year": 32, "milliseconds": 1500},
    {"year": 2019, "day_of_year": 32, "milliseconds": 1500, "extra": 1},
    {"year": 2019, "day_of_year": -5, "milliseconds": -1},
    {"year": 2019, "day_of_year": 1.5, "milliseconds": 0.25},
    {"year": 2019, "day_of_year": 1, "milliseconds": 0.0004},
    {"year": 2019, "day_of_year": 1, "milliseconds": 0.0005},
    {"year": 2019, "day_of_year": 1, "milliseconds": 0.0015},
    {"year": 2019.0, "day_of_year": 1, "milliseconds": 0},
    {"year": True, "day_of_year": True, "milliseconds": True},
    {"year": "2019", "day_of_year": 1, "milliseconds": 0},
    {"year": 2019, "day_of_year": "1", "milliseconds": 0},
    {"year": 2019, "day_of_year": 1, "milliseconds": "0"},
    {"year": None, "day_of_year": None, "milliseconds": None},
    {"year": 2019, "day_of_year": None, "milliseconds": None},
    {"year": 2019, "day_of_year": 1, "milliseconds": None},
    {"year": 0, "day_of_year": None, "milliseconds": None},
    {"year": 0, "day_of_year": 10**12, "milliseconds": 0},
    {"year": 2019, "day_of_year": 10**12, "milliseconds": None},
    {"year": 2019, "day_of_year": 1, "milliseconds": float("nan")},
    {"year": 2019, "day_of_year": float("inf"), "milliseconds": 0},
    {"day_of_year": 1, "milliseconds": 0},
    {"year": 2019, "milliseconds": 0},
    {"year": 2019, "day_of_year": 1},
    {"year": 0, "milliseconds": 0},
    {"year": 0},
    {"year": 2019, "day_of_year": "x"},
    {},
]


class Aware(datetime.tzinfo):
    def utcoffset(self, dt):
        return datetime.timedelta(hours=9)

    def dst(self, dt):
        return None

    def tzname(self, dt):
        return "JST"


class Stamp(datetime.datetime):
    pass


class Dated:
    def __init__(self, value):
        self.value = value
        self.calls = 0

    def date(self):
        self.calls += 1
        return self.value


class CallableStamp(datetime.datetime):
    """both a datetime and a callable: it has to be called"""

    def __call__(self, context):
        return datetime.datetime(2001, 2, 3, 4, 5, 6)


MICROSECONDS = [
    0,
    1,
    40669000000,
    86399999999,
    86400000000,
    2**32,
    2**63 - 1,
    2**64 - 1,
    250000000000000000,
    -1,
    1.5,
    0.5,
    2.5,
    True,
    None,
    "5",
]


def references():
    return {
        "naive": datetime.datetime(2019, 1, 1, 21, 37, 52, 107000),
        "midnight": datetime.datetime(2019, 1, 1),
        "last": datetime.datetime(2019, 12, 31, 23, 59, 59, 999999),
        "aware": datetime.datetime(2019, 1, 1, 21, 37, 52, tzinfo=Aware()),
        "utc": datetime.datetime(2019, 6, 1, 1, 2, 3, tzinfo=datetime.timezone.utc),
        "fold": datetime.datetime(2019, 1, 1, 1, 30, fold=1),
        "min": datetime.datetime.min,
        "max": datetime.datetime.max,
        "subclass": Stamp(2019, 3, 4, 5, 6, 7),
        "date": datetime.date(2019, 1, 1),
        "none": None,
        "string": "2019-01-01",
        "dated-date": Dated(datetime.date(2020, 2, 29)),
        "dated-datetime": Dated(datetime.datetime(2020, 2, 29, 12)),
        "dated-none": Dated(None),
        "dated-string": Dated("2020-02-29"),
        "callable-stamp": CallableStamp(2019, 1, 1),
    }


def observe():
    obs = {}

    # --- DatetimeYdms ---------------------------------------------------
    parser = datatypes.DatetimeYdms(ydms_base)
    obs["ydms:sizeof"] = outcome(parser.sizeof)
    obs["ydms:subcon"] = parser.subcon is ydms_base
    for values in YDMS_PARSE:
        data = struct.pack(">III", *values)
        obs[f"ydms:parse:{values}"] = outcome(parser.parse, data)
    obs["ydms:parse:short"] = outcome(parser.parse, b"\x00" * 11)
    obs["ydms:parse:long"] = outcome(parser.parse, struct.pack(">IIII", 2019, 2, 3, 4))
    obs["ydms:build"] = outcome(parser.build, datetime.datetime(2019, 1, 1))
    obs["ydms:encode"] = outcome(parser._encode, datetime.datetime(2019, 1, 1), None, "p")

    for index, mapping in enumerate(YDMS_DECODE):
        recording = Recording(mapping)
        obs[f"ydms:decode:{index}:{mapping!r}"] = (
            outcome(parser._decode, recording, None, "path"),
            recording.lookups,
        )
    obs["ydms:decode:container"] = outcome(
        parser._decode, ydms_base.parse(struct.pack(">III", 2024, 60, 7)), None, "path"
    )
    obs["ydms:decode:none"] = outcome(parser._decode, None, None, "path")
    obs["ydms:decode:tuple"] = outcome(parser._decode, (2019, 1, 0), None, "path")

    other = datatypes.DatetimeYdms(
        Struct("milliseconds" / Int32ub, "year" / Int32ub, "day_of_year" / Int32ub)
    )
    obs["ydms:reordered"] = outcome(other.parse, struct.pack(">III", 1500, 2019, 32))
    incomplete = datatypes.DatetimeYdms(Struct("year" / Int32ub, "day" / Int32ub))
    obs["ydms:incomplete"] = outcome(incomplete.parse, struct.pack(">II", 2019, 32))

    # --- DatetimeYdus ---------------------------------------------------
    for name, reference in references().items():
        parser = datatypes.DatetimeYdus(Int64ub, reference)
        obs[f"ydus:{name}:attribute"] = parser.reference_date is reference
        obs[f"ydus:{name}:vars"] = sorted(vars(parser))
        for value in MICROSECONDS:
            obs[f"ydus:{name}:decode:{value!r}"] = outcome(parser._decode, value, {}, "path")
        for value in (0, 40669000000, 2**64 - 1):
            obs[f"ydus:{name}:parse:{value}"] = outcome(parser.parse, struct.pack(">Q", value))
        if isinstance(reference, Dated):
            obs[f"ydus:{name}:calls"] = reference.calls
    obs["ydus:tzinfo-dropped"] = (
        datatypes.DatetimeYdus(Int64ub, references()["aware"])._decode(0, {}, "p").tzinfo is None
    )
    obs["ydus:fold-dropped"] = (
        datatypes.DatetimeYdus(Int64ub, references()["fold"])._decode(0, {}, "p").fold
    )
    obs["ydus:exact-type"] = (
        type(datatypes.DatetimeYdus(Int64ub, references()["subclass"])._decode(0, {}, "p"))
        is datetime.datetime
    )

    # callables get the context, exactly once per decoded value
    calls = []

    def from_context(context):
        calls.append(context)
        return context["reference"]

    parser = datatypes.DatetimeYdus(Int64ub, from_context)
    for name, reference in references().items():
        context = {"reference": reference}
        obs[f"ydus:callable:{name}"] = outcome(parser._decode, 1234567, context, "path")
    obs["ydus:callable:calls"] = len(calls)
    obs["ydus:callable:missing"] = outcome(parser._decode, 0, {}, "path")
    obs["ydus:callable:none-context"] = outcome(parser._decode, 0, None, "path")

    def failing(context):
        raise RuntimeError("no reference")

    obs["ydus:callable:failing"] = outcome(
        datatypes.DatetimeYdus(Int64ub, failing)._decode, None, {}, "path"
    )
    obs["ydus:callable:lambda-noargs"] = outcome(
        datatypes.DatetimeYdus(Int64ub, lambda: None)._decode, 0, {}, "path"
    )
    obs["ydus:callable:class"] = outcome(
        datatypes.DatetimeYdus(Int64ub, Dated)._decode, 0, datetime.date(2000, 1, 2), "path"
    )
    obs["ydus:build"] = outcome(parser.build, datetime.datetime(2019, 1, 1))
    obs["ydus:encode"] = outcome(parser._encode, datetime.datetime(2019, 1, 1), None, "p")
    obs["ydus:new:noreference"] = outcome(datatypes.DatetimeYdus, Int64ub)[:2]
    obs["ydus:new:bad-base"] = outcome(datatypes.DatetimeYdus, None, None)[:2]
    obs["ydus:new:keywords"] = outcome(
        lambda: datatypes.DatetimeYdus(reference_date=None, base=Int64ub).reference_date
    )

    # the two together, like in the signal data records
    record = Struct(
        "date" / datatypes.DatetimeYdms(ydms_base),
        "exact" / datatypes.DatetimeYdus(Int64ub, this.date),
        "shifted" / datatypes.DatetimeYdus(Int32ub, lambda ctx: ctx.exact),
    )
    for values in [
        (2019, 32, 40669123, 40669123456, 5),
        (2020, 366, 86399999, 86399999999, 4294967295),
        (2019, 1, 86400000, 0, 0),
        (1, 0, 0, 0, 0),
        (0, 1, 0, 0, 0),
        (9999, 365, 0, 2**63, 0),
    ]:
        data = struct.pack(">IIIQI", *values)
        obs[f"record:{values}"] = outcome(
            lambda: {k: v for k, v in record.parse(data).items() if k != "_io"}
        )

    # the records of the area using the adapters
    def offset_of(layout, name):
        offset = 0
        for subcon in layout.subcons:
            if subcon.name == name:
                return offset
            offset += subcon.sizeof()
        raise KeyError(name)

    def image_record(layout, record_type, year, day, ms, us, fill):
        header_size = offset_of(layout, "data")
        size = header_size + 8
        preamble = struct.pack(">IBBBBI", 2, 50, record_type, 18, 20, size)
        record = bytearray(preamble + bytes([fill]) * (header_size - 12))
        start = offset_of(layout, "sensor_acquisition_date")
        record[start : start + 12] = struct.pack(">III", year, day, ms)
        if us is not None:
            start = offset_of(layout, "sensor_acquisition_date_microseconds")
            record[start : start + 8] = struct.pack(">Q", us)
        return bytes(record) + b"\xab" * 8

    for year, day, ms, us, fill in [
        (2019, 32, 40669123, 40669123456, 0),
        (2014, 215, 43200500, 43200500123, 1),
        (2020, 366, 0, 2**40, 0),
        (0, 1, 0, 0, 0),
        (2019, 0, 0, 0, 255),
        (9999, 365, 86399999, 86399999999, 0),
        (9999, 365, 86399999, 86400000000, 0),
    ]:
        data = image_record(signal_data_record, 10, year, day, ms, us, fill)
        obs[f"signal:{year}:{day}:{ms}:{us}:{fill}"] = outcome(
            lambda: str(signal_data_record.parse(data))
        )
        obs[f"signal:{year}:{day}:{ms}:{us}:{fill}:x3"] = outcome(
            lambda: [
                (r.sensor_acquisition_date, r.sensor_acquisition_date_microseconds, r.data.start)
                for r in signal_data_record[3].parse(data * 3)
            ]
        )
        data = image_record(processed_data_record, 11, year, day, ms, None, fill)
        obs[f"processed:{year}:{day}:{ms}:{fill}"] = outcome(
            lambda: str(processed_data_record.parse(data))
        )

    return obs


# recorded with the unchanged code (--record)
EXPECTED = {'ydms:sizeof': ('ok', 'int', '12'),
 'ydms:subcon': True,
 'ydms:parse:(1990, 270, 52032102)': ('ok',
                                      'datetime',
                                      'datetime.datetime(1990, 9, 27, 14, 27, 12, 102000)'),
 'ydms:parse:(2059, 1, 0)': ('ok', 'datetime', 'datetime.datetime(2059, 1, 1, 0, 0)'),
 'ydms:parse:(2019, 1, 1)': ('ok', 'datetime', 'datetime.datetime(2019, 1, 1, 0, 0, 0, 1000)'),
 'ydms:parse:(2019, 365, 86399999)': ('ok',
                                      'datetime',
                                      'datetime.datetime(2019, 12, 31, 23, 59, 59, 999000)'),
 'ydms:parse:(2019, 366, 0)': ('ok', 'datetime', 'datetime.datetime(2020, 1, 1, 0, 0)'),
 'ydms:parse:(2020, 366, 0)': ('ok', 'datetime', 'datetime.datetime(2020, 12, 31, 0, 0)'),
 'ydms:parse:(2020, 60, 0)': ('ok', 'datetime', 'datetime.datetime(2020, 2, 29, 0, 0)'),
 'ydms:parse:(2019, 60, 0)': ('ok', 'datetime', 'datetime.datetime(2019, 3, 1, 0, 0)'),
 'ydms:parse:(2019, 0, 0)': ('ok', 'datetime', 'datetime.datetime(2018, 12, 31, 0, 0)'),
 'ydms:parse:(2019, 1, 86400000)': ('ok', 'datetime', 'datetime.datetime(2019, 1, 2, 0, 0)'),
 'ydms:parse:(2019, 1, 4294967295)': ('ok',
                                      'datetime',
                                      'datetime.datetime(2019, 2, 19, 17, 2, 47, 295000)'),
 'ydms:parse:(2019, 4294967295, 0)': ('raise',
                                      'OverflowError',
                                      'Python int too large to convert to C int'),
 'ydms:parse:(2019, 1000000000, 0)': ('raise', 'OverflowError', 'date value out of range'),
 'ydms:parse:(2019, 999999999, 0)': ('raise', 'OverflowError', 'date value out of range'),
 'ydms:parse:(1, 1, 0)': ('ok', 'datetime', 'datetime.datetime(1, 1, 1, 0, 0)'),
 'ydms:parse:(1, 0, 0)': ('raise', 'OverflowError', 'date value out of range'),
 'ydms:parse:(1, 0, 86400000)': ('ok', 'datetime', 'datetime.datetime(1, 1, 1, 0, 0)'),
 'ydms:parse:(1, 0, 86399999)': ('raise', 'OverflowError', 'date value out of range'),
 'ydms:parse:(0, 1, 0)': ('raise', 'ValueError', 'year 0 is out of range'),
 'ydms:parse:(0, 4294967295, 0)': ('raise', 'ValueError', 'year 0 is out of range'),
 'ydms:parse:(0, 0, 4294967295)': ('raise', 'ValueError', 'year 0 is out of range'),
 'ydms:parse:(9999, 365, 86399999)': ('ok',
                                      'datetime',
                                      'datetime.datetime(9999, 12, 31, 23, 59, 59, 999000)'),
 'ydms:parse:(9999, 365, 86400000)': ('raise', 'OverflowError', 'date value out of range'),
 'ydms:parse:(9999, 366, 0)': ('raise', 'OverflowError', 'date value out of range'),
 'ydms:parse:(10000, 1, 0)': ('raise', 'ValueError', 'year 10000 is out of range'),
 'ydms:parse:(10000, 4294967295, 4294967295)': ('raise',
                                                'ValueError',
                                                'year 10000 is out of range'),
 'ydms:parse:(4294967295, 1, 0)': ('raise',
                                   'OverflowError',
                                   'signed integer is greater than maximum'),
 'ydms:parse:(2014, 215, 43200500)': ('ok',
                                      'datetime',
                                      'datetime.datetime(2014, 8, 3, 12, 0, 0, 500000)'),
 'ydms:parse:short': ('raise',
                      'StreamError',
                      'Error in path (parsing) -> milliseconds\n'
                      'stream read less than specified amount, expected 4, found 3'),
 'ydms:parse:long': ('ok', 'datetime', 'datetime.datetime(2019, 1, 2, 0, 0, 0, 3000)'),
 'ydms:build': ('raise', 'NotImplementedError', ''),
 'ydms:encode': ('raise', 'NotImplementedError', ''),
 "ydms:decode:0:{'year': 2019, 'day_of_year': 32, 'milliseconds': 1500}": (('ok',
                                                                            'datetime',
                                                                            'datetime.datetime(2019, '
                                                                            '2, 1, 0, 0, 1, '
                                                                            '500000)'),
                                                                           ['year',
                                                                            'day_of_year',
                                                                            'milliseconds']),
 "ydms:decode:1:{'year': 2019, 'day_of_year': 32, 'milliseconds': 1500, 'extra': 1}": (('ok',
                                                                                        'datetime',
                                                                                        'datetime.datetime(2019, '
                                                                                        '2, 1, 0, '
                                                                                        '0, 1, '
                                                                                        '500000)'),
                                                                                       ['year',
                                                                                        'day_of_year',
                                                                                        'milliseconds']),
 "ydms:decode:2:{'year': 2019, 'day_of_year': -5, 'milliseconds': -1}": (('ok',
                                                                          'datetime',
                                                                          'datetime.datetime(2018, '
                                                                          '12, 25, 23, 59, 59, '
                                                                          '999000)'),
                                                                         ['year',
                                                                          'day_of_year',
                                                                          'milliseconds']),
 "ydms:decode:3:{'year': 2019, 'day_of_year': 1.5, 'milliseconds': 0.25}": (('ok',
                                                                             'datetime',
                                                                             'datetime.datetime(2019, '
                                                                             '1, 1, 12, 0, 0, '
                                                                             '250)'),
                                                                            ['year',
                                                                             'day_of_year',
                                                                             'milliseconds']),
 "ydms:decode:4:{'year': 2019, 'day_of_year': 1, 'milliseconds': 0.0004}": (('ok',
                                                                             'datetime',
                                                                             'datetime.datetime(2019, '
                                                                             '1, 1, 0, 0)'),
                                                                            ['year',
                                                                             'day_of_year',
                                                                             'milliseconds']),
 "ydms:decode:5:{'year': 2019, 'day_of_year': 1, 'milliseconds': 0.0005}": (('ok',
                                                                             'datetime',
                                                                             'datetime.datetime(2019, '
                                                                             '1, 1, 0, 0)'),
                                                                            ['year',
                                                                             'day_of_year',
                                                                             'milliseconds']),
 "ydms:decode:6:{'year': 2019, 'day_of_year': 1, 'milliseconds': 0.0015}": (('ok',
                                                                             'datetime',
                                                                             'datetime.datetime(2019, '
                                                                             '1, 1, 0, 0, 0, 2)'),
                                                                            ['year',
                                                                             'day_of_year',
                                                                             'milliseconds']),
 "ydms:decode:7:{'year': 2019.0, 'day_of_year': 1, 'milliseconds': 0}": (('raise',
                                                                          'TypeError',
                                                                          "'float' object cannot "
                                                                          'be interpreted as an '
                                                                          'integer'),
                                                                         ['year']),
 "ydms:decode:8:{'year': True, 'day_of_year': True, 'milliseconds': True}": (('ok',
                                                                              'datetime',
                                                                              'datetime.datetime(1, '
                                                                              '1, 1, 0, 0, 0, '
                                                                              '1000)'),
                                                                             ['year',
                                                                              'day_of_year',
                                                                              'milliseconds']),
 "ydms:decode:9:{'year': '2019', 'day_of_year': 1, 'milliseconds': 0}": (('raise',
                                                                          'TypeError',
                                                                          "'str' object cannot be "
                                                                          'interpreted as an '
                                                                          'integer'),
                                                                         ['year']),
 "ydms:decode:10:{'year': 2019, 'day_of_year': '1', 'milliseconds': 0}": (('raise',
                                                                           'TypeError',
                                                                           'unsupported operand '
                                                                           "type(s) for -: 'str' "
                                                                           "and 'int'"),
                                                                          ['year', 'day_of_year']),
 "ydms:decode:11:{'year': 2019, 'day_of_year': 1, 'milliseconds': '0'}": (('raise',
                                                                           'TypeError',
                                                                           'unsupported type for '
                                                                           'timedelta milliseconds '
                                                                           'component: str'),
                                                                          ['year',
                                                                           'day_of_year',
                                                                           'milliseconds']),
 "ydms:decode:12:{'year': None, 'day_of_year': None, 'milliseconds': None}": (('raise',
                                                                               'TypeError',
                                                                               "'NoneType' object "
                                                                               'cannot be '
                                                                               'interpreted as an '
                                                                               'integer'),
                                                                              ['year']),
 "ydms:decode:13:{'year': 2019, 'day_of_year': None, 'milliseconds': None}": (('raise',
                                                                               'TypeError',
                                                                               'unsupported '
                                                                               'operand type(s) '
                                                                               "for -: 'NoneType' "
                                                                               "and 'int'"),
                                                                              ['year',
                                                                               'day_of_year']),
 "ydms:decode:14:{'year': 2019, 'day_of_year': 1, 'milliseconds': None}": (('raise',
                                                                            'TypeError',
                                                                            'unsupported type for '
                                                                            'timedelta '
                                                                            'milliseconds '
                                                                            'component: NoneType'),
                                                                           ['year',
                                                                            'day_of_year',
                                                                            'milliseconds']),
 "ydms:decode:15:{'year': 0, 'day_of_year': None, 'milliseconds': None}": (('raise',
                                                                            'ValueError',
                                                                            'year 0 is out of '
                                                                            'range'),
                                                                           ['year']),
 "ydms:decode:16:{'year': 0, 'day_of_year': 1000000000000, 'milliseconds': 0}": (('raise',
                                                                                  'ValueError',
                                                                                  'year 0 is out '
                                                                                  'of range'),
                                                                                 ['year']),
 "ydms:decode:17:{'year': 2019, 'day_of_year': 1000000000000, 'milliseconds': None}": (('raise',
                                                                                        'TypeError',
                                                                                        'unsupported '
                                                                                        'type for '
                                                                                        'timedelta '
                                                                                        'milliseconds '
                                                                                        'component: '
                                                                                        'NoneType'),
                                                                                       ['year',
                                                                                        'day_of_year',
                                                                                        'milliseconds']),
 "ydms:decode:18:{'year': 2019, 'day_of_year': 1, 'milliseconds': nan}": (('raise',
                                                                           'ValueError',
                                                                           'cannot convert float '
                                                                           'NaN to integer'),
                                                                          ['year',
                                                                           'day_of_year',
                                                                           'milliseconds']),
 "ydms:decode:19:{'year': 2019, 'day_of_year': inf, 'milliseconds': 0}": (('raise',
                                                                           'OverflowError',
                                                                           'cannot convert float '
                                                                           'infinity to integer'),
                                                                          ['year',
                                                                           'day_of_year',
                                                                           'milliseconds']),
 "ydms:decode:20:{'day_of_year': 1, 'milliseconds': 0}": (('raise', 'KeyError', "'year'"),
                                                          ['year']),
 "ydms:decode:21:{'year': 2019, 'milliseconds': 0}": (('raise', 'KeyError', "'day_of_year'"),
                                                      ['year', 'day_of_year']),
 "ydms:decode:22:{'year': 2019, 'day_of_year': 1}": (('raise', 'KeyError', "'milliseconds'"),
                                                     ['year', 'day_of_year', 'milliseconds']),
 "ydms:decode:23:{'year': 0, 'milliseconds': 0}": (('raise',
                                                    'ValueError',
                                                    'year 0 is out of range'),
                                                   ['year']),
 "ydms:decode:24:{'year': 0}": (('raise', 'ValueError', 'year 0 is out of range'), ['year']),
 "ydms:decode:25:{'year': 2019, 'day_of_year': 'x'}": (('raise',
                                                        'TypeError',
                                                        "unsupported operand type(s) for -: 'str' "
                                                        "and 'int'"),
                                                       ['year', 'day_of_year']),
 'ydms:decode:26:{}': (('raise', 'KeyError', "'year'"), ['year']),
 'ydms:decode:container': ('ok', 'datetime', 'datetime.datetime(2024, 2, 29, 0, 0, 0, 7000)'),
 'ydms:decode:none': ('raise', 'TypeError', "'NoneType' object is not subscriptable"),
 'ydms:decode:tuple': ('raise', 'TypeError', 'tuple indices must be integers or slices, not str'),
 'ydms:reordered': ('ok', 'datetime', 'datetime.datetime(2019, 2, 1, 0, 0, 1, 500000)'),
 'ydms:incomplete': ('raise', 'KeyError', "'day_of_year'"),
 'ydus:naive:attribute': True,
 'ydus:naive:vars': ['docs', 'flagbuildnone', 'name', 'parsed', 'reference_date', 'subcon'],
 'ydus:naive:decode:0': ('ok', 'datetime', 'datetime.datetime(2019, 1, 1, 0, 0)'),
 'ydus:naive:decode:1': ('ok', 'datetime', 'datetime.datetime(2019, 1, 1, 0, 0, 0, 1)'),
 'ydus:naive:decode:40669000000': ('ok', 'datetime', 'datetime.datetime(2019, 1, 1, 11, 17, 49)'),
 'ydus:naive:decode:86399999999': ('ok',
                                   'datetime',
                                   'datetime.datetime(2019, 1, 1, 23, 59, 59, 999999)'),
 'ydus:naive:decode:86400000000': ('ok', 'datetime', 'datetime.datetime(2019, 1, 2, 0, 0)'),
 'ydus:naive:decode:4294967296': ('ok',
                                  'datetime',
                                  'datetime.datetime(2019, 1, 1, 1, 11, 34, 967296)'),
 'ydus:naive:decode:9223372036854775807': ('raise', 'OverflowError', 'date value out of range'),
 'ydus:naive:decode:18446744073709551615': ('raise', 'OverflowError', 'date value out of range'),
 'ydus:naive:decode:250000000000000000': ('ok',
                                          'datetime',
                                          'datetime.datetime(9941, 3, 9, 12, 26, 40)'),
 'ydus:naive:decode:-1': ('ok', 'datetime', 'datetime.datetime(2018, 12, 31, 23, 59, 59, 999999)'),
 'ydus:naive:decode:1.5': ('ok', 'datetime', 'datetime.datetime(2019, 1, 1, 0, 0, 0, 2)'),
 'ydus:naive:decode:0.5': ('ok', 'datetime', 'datetime.datetime(2019, 1, 1, 0, 0)'),
 'ydus:naive:decode:2.5': ('ok', 'datetime', 'datetime.datetime(2019, 1, 1, 0, 0, 0, 2)'),
 'ydus:naive:decode:True': ('ok', 'datetime', 'datetime.datetime(2019, 1, 1, 0, 0, 0, 1)'),
 'ydus:naive:decode:None': ('raise',
                            'TypeError',
                            'unsupported type for timedelta microseconds component: NoneType'),
 "ydus:naive:decode:'5'": ('raise',
                           'TypeError',
                           'unsupported type for timedelta microseconds component: str'),
 'ydus:naive:parse:0': ('ok', 'datetime', 'datetime.datetime(2019, 1, 1, 0, 0)'),
 'ydus:naive:parse:40669000000': ('ok', 'datetime', 'datetime.datetime(2019, 1, 1, 11, 17, 49)'),
 'ydus:naive:parse:18446744073709551615': ('raise', 'OverflowError', 'date value out of range'),
 'ydus:midnight:attribute': True,
 'ydus:midnight:vars': ['docs', 'flagbuildnone', 'name', 'parsed', 'reference_date', 'subcon'],
 'ydus:midnight:decode:0': ('ok', 'datetime', 'datetime.datetime(2019, 1, 1, 0, 0)'),
 'ydus:midnight:decode:1': ('ok', 'datetime', 'datetime.datetime(2019, 1, 1, 0, 0, 0, 1)'),
 'ydus:midnight:decode:40669000000': ('ok',
                                      'datetime',
                                      'datetime.datetime(2019, 1, 1, 11, 17, 49)'),
 'ydus:midnight:decode:86399999999': ('ok',
                                      'datetime',
                                      'datetime.datetime(2019, 1, 1, 23, 59, 59, 999999)'),
 'ydus:midnight:decode:86400000000': ('ok', 'datetime', 'datetime.datetime(2019, 1, 2, 0, 0)'),
 'ydus:midnight:decode:4294967296': ('ok',
                                     'datetime',
                                     'datetime.datetime(2019, 1, 1, 1, 11, 34, 967296)'),
 'ydus:midnight:decode:9223372036854775807': ('raise', 'OverflowError', 'date value out of range'),
 'ydus:midnight:decode:18446744073709551615': ('raise', 'OverflowError', 'date value out of range'),
 'ydus:midnight:decode:250000000000000000': ('ok',
                                             'datetime',
                                             'datetime.datetime(9941, 3, 9, 12, 26, 40)'),
 'ydus:midnight:decode:-1': ('ok',
                             'datetime',
                             'datetime.datetime(2018, 12, 31, 23, 59, 59, 999999)'),
 'ydus:midnight:decode:1.5': ('ok', 'datetime', 'datetime.datetime(2019, 1, 1, 0, 0, 0, 2)'),
 'ydus:midnight:decode:0.5': ('ok', 'datetime', 'datetime.datetime(2019, 1, 1, 0, 0)'),
 'ydus:midnight:decode:2.5': ('ok', 'datetime', 'datetime.datetime(2019, 1, 1, 0, 0, 0, 2)'),
 'ydus:midnight:decode:True': ('ok', 'datetime', 'datetime.datetime(2019, 1, 1, 0, 0, 0, 1)'),
 'ydus:midnight:decode:None': ('raise',
                               'TypeError',
                               'unsupported type for timedelta microseconds component: NoneType'),
 "ydus:midnight:decode:'5'": ('raise',
                              'TypeError',
                              'unsupported type for timedelta microseconds component: str'),
 'ydus:midnight:parse:0': ('ok', 'datetime', 'datetime.datetime(2019, 1, 1, 0, 0)'),
 'ydus:midnight:parse:40669000000': ('ok', 'datetime', 'datetime.datetime(2019, 1, 1, 11, 17, 49)'),
 'ydus:midnight:parse:18446744073709551615': ('raise', 'OverflowError', 'date value out of range'),
 'ydus:last:attribute': True,
 'ydus:last:vars': ['docs', 'flagbuildnone', 'name', 'parsed', 'reference_date', 'subcon'],
 'ydus:last:decode:0': ('ok', 'datetime', 'datetime.datetime(2019, 12, 31, 0, 0)'),
 'ydus:last:decode:1': ('ok', 'datetime', 'datetime.datetime(2019, 12, 31, 0, 0, 0, 1)'),
 'ydus:last:decode:40669000000': ('ok', 'datetime', 'datetime.datetime(2019, 12, 31, 11, 17, 49)'),
 'ydus:last:decode:86399999999': ('ok',
                                  'datetime',
                                  'datetime.datetime(2019, 12, 31, 23, 59, 59, 999999)'),
 'ydus:last:decode:86400000000': ('ok', 'datetime', 'datetime.datetime(2020, 1, 1, 0, 0)'),
 'ydus:last:decode:4294967296': ('ok',
                                 'datetime',
                                 'datetime.datetime(2019, 12, 31, 1, 11, 34, 967296)'),
 'ydus:last:decode:9223372036854775807': ('raise', 'OverflowError', 'date value out of range'),
 'ydus:last:decode:18446744073709551615': ('raise', 'OverflowError', 'date value out of range'),
 'ydus:last:decode:250000000000000000': ('ok',
                                         'datetime',
                                         'datetime.datetime(9942, 3, 8, 12, 26, 40)'),
 'ydus:last:decode:-1': ('ok', 'datetime', 'datetime.datetime(2019, 12, 30, 23, 59, 59, 999999)'),
 'ydus:last:decode:1.5': ('ok', 'datetime', 'datetime.datetime(2019, 12, 31, 0, 0, 0, 2)'),
 'ydus:last:decode:0.5': ('ok', 'datetime', 'datetime.datetime(2019, 12, 31, 0, 0)'),
 'ydus:last:decode:2.5': ('ok', 'datetime', 'datetime.datetime(2019, 12, 31, 0, 0, 0, 2)'),
 'ydus:last:decode:True': ('ok', 'datetime', 'datetime.datetime(2019, 12, 31, 0, 0, 0, 1)'),
 'ydus:last:decode:None': ('raise',
                           'TypeError',
                           'unsupported type for timedelta microseconds component: NoneType'),
 "ydus:last:decode:'5'": ('raise',
                          'TypeError',
                          'unsupported type for timedelta microseconds component: str'),
 'ydus:last:parse:0': ('ok', 'datetime', 'datetime.datetime(2019, 12, 31, 0, 0)'),
 'ydus:last:parse:40669000000': ('ok', 'datetime', 'datetime.datetime(2019, 12, 31, 11, 17, 49)'),
 'ydus:last:parse:18446744073709551615': ('raise', 'OverflowError', 'date value out of range'),
 'ydus:aware:attribute': True,
 'ydus:aware:vars': ['docs', 'flagbuildnone', 'name', 'parsed', 'reference_date', 'subcon'],
 'ydus:aware:decode:0': ('ok', 'datetime', 'datetime.datetime(2019, 1, 1, 0, 0)'),
 'ydus:aware:decode:1': ('ok', 'datetime', 'datetime.datetime(2019, 1, 1, 0, 0, 0, 1)'),
 'ydus:aware:decode:40669000000': ('ok', 'datetime', 'datetime.datetime(2019, 1, 1, 11, 17, 49)'),
 'ydus:aware:decode:86399999999': ('ok',
                                   'datetime',
                                   'datetime.datetime(2019, 1, 1, 23, 59, 59, 999999)'),
 'ydus:aware:decode:86400000000': ('ok', 'datetime', 'datetime.datetime(2019, 1, 2, 0, 0)'),
 'ydus:aware:decode:4294967296': ('ok',
                                  'datetime',
                                  'datetime.datetime(2019, 1, 1, 1, 11, 34, 967296)'),
 'ydus:aware:decode:9223372036854775807': ('raise', 'OverflowError', 'date value out of range'),
 'ydus:aware:decode:18446744073709551615': ('raise', 'OverflowError', 'date value out of range'),
 'ydus:aware:decode:250000000000000000': ('ok',
                                          'datetime',
                                          'datetime.datetime(9941, 3, 9, 12, 26, 40)'),
 'ydus:aware:decode:-1': ('ok', 'datetime', 'datetime.datetime(2018, 12, 31, 23, 59, 59, 999999)'),
 'ydus:aware:decode:1.5': ('ok', 'datetime', 'datetime.datetime(2019, 1, 1, 0, 0, 0, 2)'),
 'ydus:aware:decode:0.5': ('ok', 'datetime', 'datetime.datetime(2019, 1, 1, 0, 0)'),
 'ydus:aware:decode:2.5': ('ok', 'datetime', 'datetime.datetime(2019, 1, 1, 0, 0, 0, 2)'),
 'ydus:aware:decode:True': ('ok', 'datetime', 'datetime.datetime(2019, 1, 1, 0, 0, 0, 1)'),
 'ydus:aware:decode:None': ('raise',
                            'TypeError',
                            'unsupported type for timedelta microseconds component: NoneType'),
 "ydus:aware:decode:'5'": ('raise',
                           'TypeError',
                           'unsupported type for timedelta microseconds component: str'),
 'ydus:aware:parse:0': ('ok', 'datetime', 'datetime.datetime(2019, 1, 1, 0, 0)'),
 'ydus:aware:parse:40669000000': ('ok', 'datetime', 'datetime.datetime(2019, 1, 1, 11, 17, 49)'),
 'ydus:aware:parse:18446744073709551615': ('raise', 'OverflowError', 'date value out of range'),
 'ydus:utc:attribute': True,
 'ydus:utc:vars': ['docs', 'flagbuildnone', 'name', 'parsed', 'reference_date', 'subcon'],
 'ydus:utc:decode:0': ('ok', 'datetime', 'datetime.datetime(2019, 6, 1, 0, 0)'),
 'ydus:utc:decode:1': ('ok', 'datetime', 'datetime.datetime(2019, 6, 1, 0, 0, 0, 1)'),
 'ydus:utc:decode:40669000000': ('ok', 'datetime', 'datetime.datetime(2019, 6, 1, 11, 17, 49)'),
 'ydus:utc:decode:86399999999': ('ok',
                                 'datetime',
                                 'datetime.datetime(2019, 6, 1, 23, 59, 59, 999999)'),
 'ydus:utc:decode:86400000000': ('ok', 'datetime', 'datetime.datetime(2019, 6, 2, 0, 0)'),
 'ydus:utc:decode:4294967296': ('ok',
                                'datetime',
                                'datetime.datetime(2019, 6, 1, 1, 11, 34, 967296)'),
 'ydus:utc:decode:9223372036854775807': ('raise', 'OverflowError', 'date value out of range'),
 'ydus:utc:decode:18446744073709551615': ('raise', 'OverflowError', 'date value out of range'),
 'ydus:utc:decode:250000000000000000': ('ok',
                                        'datetime',
                                        'datetime.datetime(9941, 8, 7, 12, 26, 40)'),
 'ydus:utc:decode:-1': ('ok', 'datetime', 'datetime.datetime(2019, 5, 31, 23, 59, 59, 999999)'),
 'ydus:utc:decode:1.5': ('ok', 'datetime', 'datetime.datetime(2019, 6, 1, 0, 0, 0, 2)'),
 'ydus:utc:decode:0.5': ('ok', 'datetime', 'datetime.datetime(2019, 6, 1, 0, 0)'),
 'ydus:utc:decode:2.5': ('ok', 'datetime', 'datetime.datetime(2019, 6, 1, 0, 0, 0, 2)'),
 'ydus:utc:decode:True': ('ok', 'datetime', 'datetime.datetime(2019, 6, 1, 0, 0, 0, 1)'),
 'ydus:utc:decode:None': ('raise',
                          'TypeError',
                          'unsupported type for timedelta microseconds component: NoneType'),
 "ydus:utc:decode:'5'": ('raise',
                         'TypeError',
                         'unsupported type for timedelta microseconds component: str'),
 'ydus:utc:parse:0': ('ok', 'datetime', 'datetime.datetime(2019, 6, 1, 0, 0)'),
 'ydus:utc:parse:40669000000': ('ok', 'datetime', 'datetime.datetime(2019, 6, 1, 11, 17, 49)'),
 'ydus:utc:parse:18446744073709551615': ('raise', 'OverflowError', 'date value out of range'),
 'ydus:fold:attribute': True,
 'ydus:fold:vars': ['docs', 'flagbuildnone', 'name', 'parsed', 'reference_date', 'subcon'],
 'ydus:fold:decode:0': ('ok', 'datetime', 'datetime.datetime(2019, 1, 1, 0, 0)'),
 'ydus:fold:decode:1': ('ok', 'datetime', 'datetime.datetime(2019, 1, 1, 0, 0, 0, 1)'),
 'ydus:fold:decode:40669000000': ('ok', 'datetime', 'datetime.datetime(2019, 1, 1, 11, 17, 49)'),
 'ydus:fold:decode:86399999999': ('ok',
                                  'datetime',
                                  'datetime.datetime(2019, 1, 1, 23, 59, 59, 999999)'),
 'ydus:fold:decode:86400000000': ('ok', 'datetime', 'datetime.datetime(2019, 1, 2, 0, 0)'),
 'ydus:fold:decode:4294967296': ('ok',
                                 'datetime',
                                 'datetime.datetime(2019, 1, 1, 1, 11, 34, 967296)'),
 'ydus:fold:decode:9223372036854775807': ('raise', 'OverflowError', 'date value out of range'),
 'ydus:fold:decode:18446744073709551615': ('raise', 'OverflowError', 'date value out of range'),
 'ydus:fold:decode:250000000000000000': ('ok',
                                         'datetime',
                                         'datetime.datetime(9941, 3, 9, 12, 26, 40)'),
 'ydus:fold:decode:-1': ('ok', 'datetime', 'datetime.datetime(2018, 12, 31, 23, 59, 59, 999999)'),
 'ydus:fold:decode:1.5': ('ok', 'datetime', 'datetime.datetime(2019, 1, 1, 0, 0, 0, 2)'),
 'ydus:fold:decode:0.5': ('ok', 'datetime', 'datetime.datetime(2019, 1, 1, 0, 0)'),
 'ydus:fold:decode:2.5': ('ok', 'datetime', 'datetime.datetime(2019, 1, 1, 0, 0, 0, 2)'),
 'ydus:fold:decode:True': ('ok', 'datetime', 'datetime.datetime(2019, 1, 1, 0, 0, 0, 1)'),
 'ydus:fold:decode:None': ('raise',
                           'TypeError',
                           'unsupported type for timedelta microseconds component: NoneType'),
 "ydus:fold:decode:'5'": ('raise',
                          'TypeError',
                          'unsupported type for timedelta microseconds component: str'),
 'ydus:fold:parse:0': ('ok', 'datetime', 'datetime.datetime(2019, 1, 1, 0, 0)'),
 'ydus:fold:parse:40669000000': ('ok', 'datetime', 'datetime.datetime(2019, 1, 1, 11, 17, 49)'),
 'ydus:fold:parse:18446744073709551615': ('raise', 'OverflowError', 'date value out of range'),
 'ydus:min:attribute': True,
 'ydus:min:vars': ['docs', 'flagbuildnone', 'name', 'parsed', 'reference_date', 'subcon'],
 'ydus:min:decode:0': ('ok', 'datetime', 'datetime.datetime(1, 1, 1, 0, 0)'),
 'ydus:min:decode:1': ('ok', 'datetime', 'datetime.datetime(1, 1, 1, 0, 0, 0, 1)'),
 'ydus:min:decode:40669000000': ('ok', 'datetime', 'datetime.datetime(1, 1, 1, 11, 17, 49)'),
 'ydus:min:decode:86399999999': ('ok',
                                 'datetime',
                                 'datetime.datetime(1, 1, 1, 23, 59, 59, 999999)'),
 'ydus:min:decode:86400000000': ('ok', 'datetime', 'datetime.datetime(1, 1, 2, 0, 0)'),
 'ydus:min:decode:4294967296': ('ok', 'datetime', 'datetime.datetime(1, 1, 1, 1, 11, 34, 967296)'),
 'ydus:min:decode:9223372036854775807': ('raise', 'OverflowError', 'date value out of range'),
 'ydus:min:decode:18446744073709551615': ('raise', 'OverflowError', 'date value out of range'),
 'ydus:min:decode:250000000000000000': ('ok',
                                        'datetime',
                                        'datetime.datetime(7923, 3, 10, 12, 26, 40)'),
 'ydus:min:decode:-1': ('raise', 'OverflowError', 'date value out of range'),
 'ydus:min:decode:1.5': ('ok', 'datetime', 'datetime.datetime(1, 1, 1, 0, 0, 0, 2)'),
 'ydus:min:decode:0.5': ('ok', 'datetime', 'datetime.datetime(1, 1, 1, 0, 0)'),
 'ydus:min:decode:2.5': ('ok', 'datetime', 'datetime.datetime(1, 1, 1, 0, 0, 0, 2)'),
 'ydus:min:decode:True': ('ok', 'datetime', 'datetime.datetime(1, 1, 1, 0, 0, 0, 1)'),
 'ydus:min:decode:None': ('raise',
                          'TypeError',
                          'unsupported type for timedelta microseconds component: NoneType'),
 "ydus:min:decode:'5'": ('raise',
                         'TypeError',
                         'unsupported type for timedelta microseconds component: str'),
 'ydus:min:parse:0': ('ok', 'datetime', 'datetime.datetime(1, 1, 1, 0, 0)'),
 'ydus:min:parse:40669000000': ('ok', 'datetime', 'datetime.datetime(1, 1, 1, 11, 17, 49)'),
 'ydus:min:parse:18446744073709551615': ('raise', 'OverflowError', 'date value out of range'),
 'ydus:max:attribute': True,
 'ydus:max:vars': ['docs', 'flagbuildnone', 'name', 'parsed', 'reference_date', 'subcon'],
 'ydus:max:decode:0': ('ok', 'datetime', 'datetime.datetime(9999, 12, 31, 0, 0)'),
 'ydus:max:decode:1': ('ok', 'datetime', 'datetime.datetime(9999, 12, 31, 0, 0, 0, 1)'),
 'ydus:max:decode:40669000000': ('ok', 'datetime', 'datetime.datetime(9999, 12, 31, 11, 17, 49)'),
 'ydus:max:decode:86399999999': ('ok',
                                 'datetime',
                                 'datetime.datetime(9999, 12, 31, 23, 59, 59, 999999)'),
 'ydus:max:decode:86400000000': ('raise', 'OverflowError', 'date value out of range'),
 'ydus:max:decode:4294967296': ('ok',
                                'datetime',
                                'datetime.datetime(9999, 12, 31, 1, 11, 34, 967296)'),
 'ydus:max:decode:9223372036854775807': ('raise', 'OverflowError', 'date value out of range'),
 'ydus:max:decode:18446744073709551615': ('raise', 'OverflowError', 'date value out of range'),
 'ydus:max:decode:250000000000000000': ('raise', 'OverflowError', 'date value out of range'),
 'ydus:max:decode:-1': ('ok', 'datetime', 'datetime.datetime(9999, 12, 30, 23, 59, 59, 999999)'),
 'ydus:max:decode:1.5': ('ok', 'datetime', 'datetime.datetime(9999, 12, 31, 0, 0, 0, 2)'),
 'ydus:max:decode:0.5': ('ok', 'datetime', 'datetime.datetime(9999, 12, 31, 0, 0)'),
 'ydus:max:decode:2.5': ('ok', 'datetime', 'datetime.datetime(9999, 12, 31, 0, 0, 0, 2)'),
 'ydus:max:decode:True': ('ok', 'datetime', 'datetime.datetime(9999, 12, 31, 0, 0, 0, 1)'),
 'ydus:max:decode:None': ('raise',
                          'TypeError',
                          'unsupported type for timedelta microseconds component: NoneType'),
 "ydus:max:decode:'5'": ('raise',
                         'TypeError',
                         'unsupported type for timedelta microseconds component: str'),
 'ydus:max:parse:0': ('ok', 'datetime', 'datetime.datetime(9999, 12, 31, 0, 0)'),
 'ydus:max:parse:40669000000': ('ok', 'datetime', 'datetime.datetime(9999, 12, 31, 11, 17, 49)'),
 'ydus:max:parse:18446744073709551615': ('raise', 'OverflowError', 'date value out of range'),
 'ydus:subclass:attribute': True,
 'ydus:subclass:vars': ['docs', 'flagbuildnone', 'name', 'parsed', 'reference_date', 'subcon'],
 'ydus:subclass:decode:0': ('ok', 'datetime', 'datetime.datetime(2019, 3, 4, 0, 0)'),
 'ydus:subclass:decode:1': ('ok', 'datetime', 'datetime.datetime(2019, 3, 4, 0, 0, 0, 1)'),
 'ydus:subclass:decode:40669000000': ('ok',
                                      'datetime',
                                      'datetime.datetime(2019, 3, 4, 11, 17, 49)'),
 'ydus:subclass:decode:86399999999': ('ok',
                                      'datetime',
                                      'datetime.datetime(2019, 3, 4, 23, 59, 59, 999999)'),
 'ydus:subclass:decode:86400000000': ('ok', 'datetime', 'datetime.datetime(2019, 3, 5, 0, 0)'),
 'ydus:subclass:decode:4294967296': ('ok',
                                     'datetime',
                                     'datetime.datetime(2019, 3, 4, 1, 11, 34, 967296)'),
 'ydus:subclass:decode:9223372036854775807': ('raise', 'OverflowError', 'date value out of range'),
 'ydus:subclass:decode:18446744073709551615': ('raise', 'OverflowError', 'date value out of range'),
 'ydus:subclass:decode:250000000000000000': ('ok',
                                             'datetime',
                                             'datetime.datetime(9941, 5, 10, 12, 26, 40)'),
 'ydus:subclass:decode:-1': ('ok', 'datetime', 'datetime.datetime(2019, 3, 3, 23, 59, 59, 999999)'),
 'ydus:subclass:decode:1.5': ('ok', 'datetime', 'datetime.datetime(2019, 3, 4, 0, 0, 0, 2)'),
 'ydus:subclass:decode:0.5': ('ok', 'datetime', 'datetime.datetime(2019, 3, 4, 0, 0)'),
 'ydus:subclass:decode:2.5': ('ok', 'datetime', 'datetime.datetime(2019, 3, 4, 0, 0, 0, 2)'),
 'ydus:subclass:decode:True': ('ok', 'datetime', 'datetime.datetime(2019, 3, 4, 0, 0, 0, 1)'),
 'ydus:subclass:decode:None': ('raise',
                               'TypeError',
                               'unsupported type for timedelta microseconds component: NoneType'),
 "ydus:subclass:decode:'5'": ('raise',
                              'TypeError',
                              'unsupported type for timedelta microseconds component: str'),
 'ydus:subclass:parse:0': ('ok', 'datetime', 'datetime.datetime(2019, 3, 4, 0, 0)'),
 'ydus:subclass:parse:40669000000': ('ok', 'datetime', 'datetime.datetime(2019, 3, 4, 11, 17, 49)'),
 'ydus:subclass:parse:18446744073709551615': ('raise', 'OverflowError', 'date value out of range'),
 'ydus:date:attribute': True,
 'ydus:date:vars': ['docs', 'flagbuildnone', 'name', 'parsed', 'reference_date', 'subcon'],
 'ydus:date:decode:0': ('raise',
                        'AttributeError',
                        "'datetime.date' object has no attribute 'date'"),
 'ydus:date:decode:1': ('raise',
                        'AttributeError',
                        "'datetime.date' object has no attribute 'date'"),
 'ydus:date:decode:40669000000': ('raise',
                                  'AttributeError',
                                  "'datetime.date' object has no attribute 'date'"),
 'ydus:date:decode:86399999999': ('raise',
                                  'AttributeError',
                                  "'datetime.date' object has no attribute 'date'"),
 'ydus:date:decode:86400000000': ('raise',
                                  'AttributeError',
                                  "'datetime.date' object has no attribute 'date'"),
 'ydus:date:decode:4294967296': ('raise',
                                 'AttributeError',
                                 "'datetime.date' object has no attribute 'date'"),
 'ydus:date:decode:9223372036854775807': ('raise',
                                          'AttributeError',
                                          "'datetime.date' object has no attribute 'date'"),
 'ydus:date:decode:18446744073709551615': ('raise',
                                           'AttributeError',
                                           "'datetime.date' object has no attribute 'date'"),
 'ydus:date:decode:250000000000000000': ('raise',
                                         'AttributeError',
                                         "'datetime.date' object has no attribute 'date'"),
 'ydus:date:decode:-1': ('raise',
                         'AttributeError',
                         "'datetime.date' object has no attribute 'date'"),
 'ydus:date:decode:1.5': ('raise',
                          'AttributeError',
                          "'datetime.date' object has no attribute 'date'"),
 'ydus:date:decode:0.5': ('raise',
                          'AttributeError',
                          "'datetime.date' object has no attribute 'date'"),
 'ydus:date:decode:2.5': ('raise',
                          'AttributeError',
                          "'datetime.date' object has no attribute 'date'"),
 'ydus:date:decode:True': ('raise',
                           'AttributeError',
                           "'datetime.date' object has no attribute 'date'"),
 'ydus:date:decode:None': ('raise',
                           'AttributeError',
                           "'datetime.date' object has no attribute 'date'"),
 "ydus:date:decode:'5'": ('raise',
                          'AttributeError',
                          "'datetime.date' object has no attribute 'date'"),
 'ydus:date:parse:0': ('raise', 'AttributeError', "'datetime.date' object has no attribute 'date'"),
 'ydus:date:parse:40669000000': ('raise',
                                 'AttributeError',
                                 "'datetime.date' object has no attribute 'date'"),
 'ydus:date:parse:18446744073709551615': ('raise',
                                          'AttributeError',
                                          "'datetime.date' object has no attribute 'date'"),
 'ydus:none:attribute': True,
 'ydus:none:vars': ['docs', 'flagbuildnone', 'name', 'parsed', 'reference_date', 'subcon'],
 'ydus:none:decode:0': ('raise', 'AttributeError', "'NoneType' object has no attribute 'date'"),
 'ydus:none:decode:1': ('raise', 'AttributeError', "'NoneType' object has no attribute 'date'"),
 'ydus:none:decode:40669000000': ('raise',
                                  'AttributeError',
                                  "'NoneType' object has no attribute 'date'"),
 'ydus:none:decode:86399999999': ('raise',
                                  'AttributeError',
                                  "'NoneType' object has no attribute 'date'"),
 'ydus:none:decode:86400000000': ('raise',
                                  'AttributeError',
                                  "'NoneType' object has no attribute 'date'"),
 'ydus:none:decode:4294967296': ('raise',
                                 'AttributeError',
                                 "'NoneType' object has no attribute 'date'"),
 'ydus:none:decode:9223372036854775807': ('raise',
                                          'AttributeError',
                                          "'NoneType' object has no attribute 'date'"),
 'ydus:none:decode:18446744073709551615': ('raise',
                                           'AttributeError',
                                           "'NoneType' object has no attribute 'date'"),
 'ydus:none:decode:250000000000000000': ('raise',
                                         'AttributeError',
                                         "'NoneType' object has no attribute 'date'"),
 'ydus:none:decode:-1': ('raise', 'AttributeError', "'NoneType' object has no attribute 'date'"),
 'ydus:none:decode:1.5': ('raise', 'AttributeError', "'NoneType' object has no attribute 'date'"),
 'ydus:none:decode:0.5': ('raise', 'AttributeError', "'NoneType' object has no attribute 'date'"),
 'ydus:none:decode:2.5': ('raise', 'AttributeError', "'NoneType' object has no attribute 'date'"),
 'ydus:none:decode:True': ('raise', 'AttributeError', "'NoneType' object has no attribute 'date'"),
 'ydus:none:decode:None': ('raise', 'AttributeError', "'NoneType' object has no attribute 'date'"),
 "ydus:none:decode:'5'": ('raise', 'AttributeError', "'NoneType' object has no attribute 'date'"),
 'ydus:none:parse:0': ('raise', 'AttributeError', "'NoneType' object has no attribute 'date'"),
 'ydus:none:parse:40669000000': ('raise',
                                 'AttributeError',
                                 "'NoneType' object has no attribute 'date'"),
 'ydus:none:parse:18446744073709551615': ('raise',
                                          'AttributeError',
                                          "'NoneType' object has no attribute 'date'"),
 'ydus:string:attribute': True,
 'ydus:string:vars': ['docs', 'flagbuildnone', 'name', 'parsed', 'reference_date', 'subcon'],
 'ydus:string:decode:0': ('raise', 'AttributeError', "'str' object has no attribute 'date'"),
 'ydus:string:decode:1': ('raise', 'AttributeError', "'str' object has no attribute 'date'"),
 'ydus:string:decode:40669000000': ('raise',
                                    'AttributeError',
                                    "'str' object has no attribute 'date'"),
 'ydus:string:decode:86399999999': ('raise',
                                    'AttributeError',
                                    "'str' object has no attribute 'date'"),
 'ydus:string:decode:86400000000': ('raise',
                                    'AttributeError',
                                    "'str' object has no attribute 'date'"),
 'ydus:string:decode:4294967296': ('raise',
                                   'AttributeError',
                                   "'str' object has no attribute 'date'"),
 'ydus:string:decode:9223372036854775807': ('raise',
                                            'AttributeError',
                                            "'str' object has no attribute 'date'"),
 'ydus:string:decode:18446744073709551615': ('raise',
                                             'AttributeError',
                                             "'str' object has no attribute 'date'"),
 'ydus:string:decode:250000000000000000': ('raise',
                                           'AttributeError',
                                           "'str' object has no attribute 'date'"),
 'ydus:string:decode:-1': ('raise', 'AttributeError', "'str' object has no attribute 'date'"),
 'ydus:string:decode:1.5': ('raise', 'AttributeError', "'str' object has no attribute 'date'"),
 'ydus:string:decode:0.5': ('raise', 'AttributeError', "'str' object has no attribute 'date'"),
 'ydus:string:decode:2.5': ('raise', 'AttributeError', "'str' object has no attribute 'date'"),
 'ydus:string:decode:True': ('raise', 'AttributeError', "'str' object has no attribute 'date'"),
 'ydus:string:decode:None': ('raise', 'AttributeError', "'str' object has no attribute 'date'"),
 "ydus:string:decode:'5'": ('raise', 'AttributeError', "'str' object has no attribute 'date'"),
 'ydus:string:parse:0': ('raise', 'AttributeError', "'str' object has no attribute 'date'"),
 'ydus:string:parse:40669000000': ('raise',
                                   'AttributeError',
                                   "'str' object has no attribute 'date'"),
 'ydus:string:parse:18446744073709551615': ('raise',
                                            'AttributeError',
                                            "'str' object has no attribute 'date'"),
 'ydus:dated-date:attribute': True,
 'ydus:dated-date:vars': ['docs', 'flagbuildnone', 'name', 'parsed', 'reference_date', 'subcon'],
 'ydus:dated-date:decode:0': ('ok', 'datetime', 'datetime.datetime(2020, 2, 29, 0, 0)'),
 'ydus:dated-date:decode:1': ('ok', 'datetime', 'datetime.datetime(2020, 2, 29, 0, 0, 0, 1)'),
 'ydus:dated-date:decode:40669000000': ('ok',
                                        'datetime',
                                        'datetime.datetime(2020, 2, 29, 11, 17, 49)'),
 'ydus:dated-date:decode:86399999999': ('ok',
                                        'datetime',
                                        'datetime.datetime(2020, 2, 29, 23, 59, 59, 999999)'),
 'ydus:dated-date:decode:86400000000': ('ok', 'datetime', 'datetime.datetime(2020, 3, 1, 0, 0)'),
 'ydus:dated-date:decode:4294967296': ('ok',
                                       'datetime',
                                       'datetime.datetime(2020, 2, 29, 1, 11, 34, 967296)'),
 'ydus:dated-date:decode:9223372036854775807': ('raise',
                                                'OverflowError',
                                                'date value out of range'),
 'ydus:dated-date:decode:18446744073709551615': ('raise',
                                                 'OverflowError',
                                                 'date value out of range'),
 'ydus:dated-date:decode:250000000000000000': ('ok',
                                               'datetime',
                                               'datetime.datetime(9942, 5, 7, 12, 26, 40)'),
 'ydus:dated-date:decode:-1': ('ok',
                               'datetime',
                               'datetime.datetime(2020, 2, 28, 23, 59, 59, 999999)'),
 'ydus:dated-date:decode:1.5': ('ok', 'datetime', 'datetime.datetime(2020, 2, 29, 0, 0, 0, 2)'),
 'ydus:dated-date:decode:0.5': ('ok', 'datetime', 'datetime.datetime(2020, 2, 29, 0, 0)'),
 'ydus:dated-date:decode:2.5': ('ok', 'datetime', 'datetime.datetime(2020, 2, 29, 0, 0, 0, 2)'),
 'ydus:dated-date:decode:True': ('ok', 'datetime', 'datetime.datetime(2020, 2, 29, 0, 0, 0, 1)'),
 'ydus:dated-date:decode:None': ('raise',
                                 'TypeError',
                                 'unsupported type for timedelta microseconds component: NoneType'),
 "ydus:dated-date:decode:'5'": ('raise',
                                'TypeError',
                                'unsupported type for timedelta microseconds component: str'),
 'ydus:dated-date:parse:0': ('ok', 'datetime', 'datetime.datetime(2020, 2, 29, 0, 0)'),
 'ydus:dated-date:parse:40669000000': ('ok',
                                       'datetime',
                                       'datetime.datetime(2020, 2, 29, 11, 17, 49)'),
 'ydus:dated-date:parse:18446744073709551615': ('raise',
                                                'OverflowError',
                                                'date value out of range'),
 'ydus:dated-date:calls': 19,
 'ydus:dated-datetime:attribute': True,
 'ydus:dated-datetime:vars': ['docs',
                              'flagbuildnone',
                              'name',
                              'parsed',
                              'reference_date',
                              'subcon'],
 'ydus:dated-datetime:decode:0': ('ok', 'datetime', 'datetime.datetime(2020, 2, 29, 0, 0)'),
 'ydus:dated-datetime:decode:1': ('ok', 'datetime', 'datetime.datetime(2020, 2, 29, 0, 0, 0, 1)'),
 'ydus:dated-datetime:decode:40669000000': ('ok',
                                            'datetime',
                                            'datetime.datetime(2020, 2, 29, 11, 17, 49)'),
 'ydus:dated-datetime:decode:86399999999': ('ok',
                                            'datetime',
                                            'datetime.datetime(2020, 2, 29, 23, 59, 59, 999999)'),
 'ydus:dated-datetime:decode:86400000000': ('ok',
                                            'datetime',
                                            'datetime.datetime(2020, 3, 1, 0, 0)'),
 'ydus:dated-datetime:decode:4294967296': ('ok',
                                           'datetime',
                                           'datetime.datetime(2020, 2, 29, 1, 11, 34, 967296)'),
 'ydus:dated-datetime:decode:9223372036854775807': ('raise',
                                                    'OverflowError',
                                                    'date value out of range'),
 'ydus:dated-datetime:decode:18446744073709551615': ('raise',
                                                     'OverflowError',
                                                     'date value out of range'),
 'ydus:dated-datetime:decode:250000000000000000': ('ok',
                                                   'datetime',
                                                   'datetime.datetime(9942, 5, 7, 12, 26, 40)'),
 'ydus:dated-datetime:decode:-1': ('ok',
                                   'datetime',
                                   'datetime.datetime(2020, 2, 28, 23, 59, 59, 999999)'),
 'ydus:dated-datetime:decode:1.5': ('ok', 'datetime', 'datetime.datetime(2020, 2, 29, 0, 0, 0, 2)'),
 'ydus:dated-datetime:decode:0.5': ('ok', 'datetime', 'datetime.datetime(2020, 2, 29, 0, 0)'),
 'ydus:dated-datetime:decode:2.5': ('ok', 'datetime', 'datetime.datetime(2020, 2, 29, 0, 0, 0, 2)'),
 'ydus:dated-datetime:decode:True': ('ok',
                                     'datetime',
                                     'datetime.datetime(2020, 2, 29, 0, 0, 0, 1)'),
 'ydus:dated-datetime:decode:None': ('raise',
                                     'TypeError',
                                     'unsupported type for timedelta microseconds component: '
                                     'NoneType'),
 "ydus:dated-datetime:decode:'5'": ('raise',
                                    'TypeError',
                                    'unsupported type for timedelta microseconds component: str'),
 'ydus:dated-datetime:parse:0': ('ok', 'datetime', 'datetime.datetime(2020, 2, 29, 0, 0)'),
 'ydus:dated-datetime:parse:40669000000': ('ok',
                                           'datetime',
                                           'datetime.datetime(2020, 2, 29, 11, 17, 49)'),
 'ydus:dated-datetime:parse:18446744073709551615': ('raise',
                                                    'OverflowError',
                                                    'date value out of range'),
 'ydus:dated-datetime:calls': 19,
 'ydus:dated-none:attribute': True,
 'ydus:dated-none:vars': ['docs', 'flagbuildnone', 'name', 'parsed', 'reference_date', 'subcon'],
 'ydus:dated-none:decode:0': ('raise',
                              'TypeError',
                              'combine() argument 1 must be datetime.date, not None'),
 'ydus:dated-none:decode:1': ('raise',
                              'TypeError',
                              'combine() argument 1 must be datetime.date, not None'),
 'ydus:dated-none:decode:40669000000': ('raise',
                                        'TypeError',
                                        'combine() argument 1 must be datetime.date, not None'),
 'ydus:dated-none:decode:86399999999': ('raise',
                                        'TypeError',
                                        'combine() argument 1 must be datetime.date, not None'),
 'ydus:dated-none:decode:86400000000': ('raise',
                                        'TypeError',
                                        'combine() argument 1 must be datetime.date, not None'),
 'ydus:dated-none:decode:4294967296': ('raise',
                                       'TypeError',
                                       'combine() argument 1 must be datetime.date, not None'),
 'ydus:dated-none:decode:9223372036854775807': ('raise',
                                                'TypeError',
                                                'combine() argument 1 must be datetime.date, not '
                                                'None'),
 'ydus:dated-none:decode:18446744073709551615': ('raise',
                                                 'TypeError',
                                                 'combine() argument 1 must be datetime.date, not '
                                                 'None'),
 'ydus:dated-none:decode:250000000000000000': ('raise',
                                               'TypeError',
                                               'combine() argument 1 must be datetime.date, not '
                                               'None'),
 'ydus:dated-none:decode:-1': ('raise',
                               'TypeError',
                               'combine() argument 1 must be datetime.date, not None'),
 'ydus:dated-none:decode:1.5': ('raise',
                                'TypeError',
                                'combine() argument 1 must be datetime.date, not None'),
 'ydus:dated-none:decode:0.5': ('raise',
                                'TypeError',
                                'combine() argument 1 must be datetime.date, not None'),
 'ydus:dated-none:decode:2.5': ('raise',
                                'TypeError',
                                'combine() argument 1 must be datetime.date, not None'),
 'ydus:dated-none:decode:True': ('raise',
                                 'TypeError',
                                 'combine() argument 1 must be datetime.date, not None'),
 'ydus:dated-none:decode:None': ('raise',
                                 'TypeError',
                                 'combine() argument 1 must be datetime.date, not None'),
 "ydus:dated-none:decode:'5'": ('raise',
                                'TypeError',
                                'combine() argument 1 must be datetime.date, not None'),
 'ydus:dated-none:parse:0': ('raise',
                             'TypeError',
                             'combine() argument 1 must be datetime.date, not None'),
 'ydus:dated-none:parse:40669000000': ('raise',
                                       'TypeError',
                                       'combine() argument 1 must be datetime.date, not None'),
 'ydus:dated-none:parse:18446744073709551615': ('raise',
                                                'TypeError',
                                                'combine() argument 1 must be datetime.date, not '
                                                'None'),
 'ydus:dated-none:calls': 19,
 'ydus:dated-string:attribute': True,
 'ydus:dated-string:vars': ['docs', 'flagbuildnone', 'name', 'parsed', 'reference_date', 'subcon'],
 'ydus:dated-string:decode:0': ('raise',
                                'TypeError',
                                'combine() argument 1 must be datetime.date, not str'),
 'ydus:dated-string:decode:1': ('raise',
                                'TypeError',
                                'combine() argument 1 must be datetime.date, not str'),
 'ydus:dated-string:decode:40669000000': ('raise',
                                          'TypeError',
                                          'combine() argument 1 must be datetime.date, not str'),
 'ydus:dated-string:decode:86399999999': ('raise',
                                          'TypeError',
                                          'combine() argument 1 must be datetime.date, not str'),
 'ydus:dated-string:decode:86400000000': ('raise',
                                          'TypeError',
                                          'combine() argument 1 must be datetime.date, not str'),
 'ydus:dated-string:decode:4294967296': ('raise',
                                         'TypeError',
                                         'combine() argument 1 must be datetime.date, not str'),
 'ydus:dated-string:decode:9223372036854775807': ('raise',
                                                  'TypeError',
                                                  'combine() argument 1 must be datetime.date, not '
                                                  'str'),
 'ydus:dated-string:decode:18446744073709551615': ('raise',
                                                   'TypeError',
                                                   'combine() argument 1 must be datetime.date, '
                                                   'not str'),
 'ydus:dated-string:decode:250000000000000000': ('raise',
                                                 'TypeError',
                                                 'combine() argument 1 must be datetime.date, not '
                                                 'str'),
 'ydus:dated-string:decode:-1': ('raise',
                                 'TypeError',
                                 'combine() argument 1 must be datetime.date, not str'),
 'ydus:dated-string:decode:1.5': ('raise',
                                  'TypeError',
                                  'combine() argument 1 must be datetime.date, not str'),
 'ydus:dated-string:decode:0.5': ('raise',
                                  'TypeError',
                                  'combine() argument 1 must be datetime.date, not str'),
 'ydus:dated-string:decode:2.5': ('raise',
                                  'TypeError',
                                  'combine() argument 1 must be datetime.date, not str'),
 'ydus:dated-string:decode:True': ('raise',
                                   'TypeError',
                                   'combine() argument 1 must be datetime.date, not str'),
 'ydus:dated-string:decode:None': ('raise',
                                   'TypeError',
                                   'combine() argument 1 must be datetime.date, not str'),
 "ydus:dated-string:decode:'5'": ('raise',
                                  'TypeError',
                                  'combine() argument 1 must be datetime.date, not str'),
 'ydus:dated-string:parse:0': ('raise',
                               'TypeError',
                               'combine() argument 1 must be datetime.date, not str'),
 'ydus:dated-string:parse:40669000000': ('raise',
                                         'TypeError',
                                         'combine() argument 1 must be datetime.date, not str'),
 'ydus:dated-string:parse:18446744073709551615': ('raise',
                                                  'TypeError',
                                                  'combine() argument 1 must be datetime.date, not '
                                                  'str'),
 'ydus:dated-string:calls': 19,
 'ydus:callable-stamp:attribute': True,
 'ydus:callable-stamp:vars': ['docs',
                              'flagbuildnone',
                              'name',
                              'parsed',
                              'reference_date',
                              'subcon'],
 'ydus:callable-stamp:decode:0': ('ok', 'datetime', 'datetime.datetime(2001, 2, 3, 0, 0)'),
 'ydus:callable-stamp:decode:1': ('ok', 'datetime', 'datetime.datetime(2001, 2, 3, 0, 0, 0, 1)'),
 'ydus:callable-stamp:decode:40669000000': ('ok',
                                            'datetime',
                                            'datetime.datetime(2001, 2, 3, 11, 17, 49)'),
 'ydus:callable-stamp:decode:86399999999': ('ok',
                                            'datetime',
                                            'datetime.datetime(2001, 2, 3, 23, 59, 59, 999999)'),
 'ydus:callable-stamp:decode:86400000000': ('ok',
                                            'datetime',
                                            'datetime.datetime(2001, 2, 4, 0, 0)'),
 'ydus:callable-stamp:decode:4294967296': ('ok',
                                           'datetime',
                                           'datetime.datetime(2001, 2, 3, 1, 11, 34, 967296)'),
 'ydus:callable-stamp:decode:9223372036854775807': ('raise',
                                                    'OverflowError',
                                                    'date value out of range'),
 'ydus:callable-stamp:decode:18446744073709551615': ('raise',
                                                     'OverflowError',
                                                     'date value out of range'),
 'ydus:callable-stamp:decode:250000000000000000': ('ok',
                                                   'datetime',
                                                   'datetime.datetime(9923, 4, 12, 12, 26, 40)'),
 'ydus:callable-stamp:decode:-1': ('ok',
                                   'datetime',
                                   'datetime.datetime(2001, 2, 2, 23, 59, 59, 999999)'),
 'ydus:callable-stamp:decode:1.5': ('ok', 'datetime', 'datetime.datetime(2001, 2, 3, 0, 0, 0, 2)'),
 'ydus:callable-stamp:decode:0.5': ('ok', 'datetime', 'datetime.datetime(2001, 2, 3, 0, 0)'),
 'ydus:callable-stamp:decode:2.5': ('ok', 'datetime', 'datetime.datetime(2001, 2, 3, 0, 0, 0, 2)'),
 'ydus:callable-stamp:decode:True': ('ok', 'datetime', 'datetime.datetime(2001, 2, 3, 0, 0, 0, 1)'),
 'ydus:callable-stamp:decode:None': ('raise',
                                     'TypeError',
                                     'unsupported type for timedelta microseconds component: '
                                     'NoneType'),
 "ydus:callable-stamp:decode:'5'": ('raise',
                                    'TypeError',
                                    'unsupported type for timedelta microseconds component: str'),
 'ydus:callable-stamp:parse:0': ('ok', 'datetime', 'datetime.datetime(2001, 2, 3, 0, 0)'),
 'ydus:callable-stamp:parse:40669000000': ('ok',
                                           'datetime',
                                           'datetime.datetime(2001, 2, 3, 11, 17, 49)'),
 'ydus:callable-stamp:parse:18446744073709551615': ('raise',
                                                    'OverflowError',
                                                    'date value out of range'),
 'ydus:tzinfo-dropped': True,
 'ydus:fold-dropped': 0,
 'ydus:exact-type': True,
 'ydus:callable:naive': ('ok', 'datetime', 'datetime.datetime(2019, 1, 1, 0, 0, 1, 234567)'),
 'ydus:callable:midnight': ('ok', 'datetime', 'datetime.datetime(2019, 1, 1, 0, 0, 1, 234567)'),
 'ydus:callable:last': ('ok', 'datetime', 'datetime.datetime(2019, 12, 31, 0, 0, 1, 234567)'),
 'ydus:callable:aware': ('ok', 'datetime', 'datetime.datetime(2019, 1, 1, 0, 0, 1, 234567)'),
 'ydus:callable:utc': ('ok', 'datetime', 'datetime.datetime(2019, 6, 1, 0, 0, 1, 234567)'),
 'ydus:callable:fold': ('ok', 'datetime', 'datetime.datetime(2019, 1, 1, 0, 0, 1, 234567)'),
 'ydus:callable:min': ('ok', 'datetime', 'datetime.datetime(1, 1, 1, 0, 0, 1, 234567)'),
 'ydus:callable:max': ('ok', 'datetime', 'datetime.datetime(9999, 12, 31, 0, 0, 1, 234567)'),
 'ydus:callable:subclass': ('ok', 'datetime', 'datetime.datetime(2019, 3, 4, 0, 0, 1, 234567)'),
 'ydus:callable:date': ('raise',
                        'AttributeError',
                        "'datetime.date' object has no attribute 'date'"),
 'ydus:callable:none': ('raise', 'AttributeError', "'NoneType' object has no attribute 'date'"),
 'ydus:callable:string': ('raise', 'AttributeError', "'str' object has no attribute 'date'"),
 'ydus:callable:dated-date': ('ok', 'datetime', 'datetime.datetime(2020, 2, 29, 0, 0, 1, 234567)'),
 'ydus:callable:dated-datetime': ('ok',
                                  'datetime',
                                  'datetime.datetime(2020, 2, 29, 0, 0, 1, 234567)'),
 'ydus:callable:dated-none': ('raise',
                              'TypeError',
                              'combine() argument 1 must be datetime.date, not None'),
 'ydus:callable:dated-string': ('raise',
                                'TypeError',
                                'combine() argument 1 must be datetime.date, not str'),
 'ydus:callable:callable-stamp': ('ok',
                                  'datetime',
                                  'datetime.datetime(2019, 1, 1, 0, 0, 1, 234567)'),
 'ydus:callable:calls': 17,
 'ydus:callable:missing': ('raise', 'KeyError', "'reference'"),
 'ydus:callable:none-context': ('raise', 'TypeError', "'NoneType' object is not subscriptable"),
 'ydus:callable:failing': ('raise', 'RuntimeError', 'no reference'),
 'ydus:callable:lambda-noargs': ('raise',
                                 'TypeError',
                                 'observe.<locals>.<lambda>() takes 0 positional arguments but 1 '
                                 'was given'),
 'ydus:callable:class': ('ok', 'datetime', 'datetime.datetime(2000, 1, 2, 0, 0)'),
 'ydus:build': ('raise', 'NotImplementedError', ''),
 'ydus:encode': ('raise', 'NotImplementedError', ''),
 'ydus:new:noreference': ('raise', 'TypeError'),
 'ydus:new:bad-base': ('raise', 'TypeError'),
 'ydus:new:keywords': ('ok', 'NoneType', 'None'),
 'record:(2019, 32, 40669123, 40669123456, 5)': ('ok',
                                                 'dict',
                                                 "{'date': datetime.datetime(2019, 2, 1, 11, 17, "
                                                 "49, 123000), 'exact': datetime.datetime(2019, 2, "
                                                 "1, 11, 17, 49, 123456), 'shifted': "
                                                 'datetime.datetime(2019, 2, 1, 0, 0, 0, 5)}'),
 'record:(2020, 366, 86399999, 86399999999, 4294967295)': ('ok',
                                                           'dict',
                                                           "{'date': datetime.datetime(2020, 12, "
                                                           "31, 23, 59, 59, 999000), 'exact': "
                                                           'datetime.datetime(2020, 12, 31, 23, '
                                                           "59, 59, 999999), 'shifted': "
                                                           'datetime.datetime(2020, 12, 31, 1, 11, '
                                                           '34, 967295)}'),
 'record:(2019, 1, 86400000, 0, 0)': ('ok',
                                      'dict',
                                      "{'date': datetime.datetime(2019, 1, 2, 0, 0), 'exact': "
                                      "datetime.datetime(2019, 1, 2, 0, 0), 'shifted': "
                                      'datetime.datetime(2019, 1, 2, 0, 0)}'),
 'record:(1, 0, 0, 0, 0)': ('raise', 'OverflowError', 'date value out of range'),
 'record:(0, 1, 0, 0, 0)': ('raise', 'ValueError', 'year 0 is out of range'),
 'record:(9999, 365, 0, 9223372036854775808, 0)': ('raise',
                                                   'OverflowError',
                                                   'date value out of range'),
 'signal:2019:32:40669123:40669123456:0': ('ok',
                                           'str',
                                           '"Container: \\n    record_start = 0\\n    preamble = '
                                           'Container: \\n        record_sequence_number = '
                                           '2\\n        first_record_subtype = 50\\n        '
                                           'record_type = 10\\n        second_record_subtype = '
                                           '18\\n        third_record_subtype = 20\\n        '
                                           'record_length = 552\\n    sar_image_data_line_number = '
                                           '0\\n    sar_image_data_record_index = 0\\n    '
                                           'actual_count_of_left_fill_pixels = 0\\n    '
                                           'actual_count_of_data_pixels = 0\\n    '
                                           'actual_count_of_right_fill_pixels = 0\\n    '
                                           'sensor_parameters_update_flag = 0\\n    '
                                           'sensor_acquisition_date = 2019-02-01 '
                                           '11:17:49.123000\\n    sar_channel_id = (enum) '
                                           '(unknown) 0\\n    sar_channel_code = (enum) L 0\\n    '
                                           'transmitted_pulse_polarization = (enum) horizontal '
                                           '0\\n    received_pulse_polarization = (enum) '
                                           "horizontal 0\\n    prf = (0, {'units': 'mHz'})\\n    "
                                           'scan_id = 0\\n    onboard_range_compressed_flag = '
                                           'False\\n    chirp_type_designator = (enum) '
                                           "linear_fm_chirp 0\\n    chirp_length = (0, {'units': "
                                           "'ns'})\\n    chirp_constant_coefficient = (0, "
                                           "{'units': 'Hz'})\\n    chirp_linear_coefficient = (0, "
                                           "{'units': 'Hz/µs'})\\n    chirp_quadratic_coefficient "
                                           "= (0, {'units': 'Hz/µs^2'})\\n    "
                                           'sensor_acquisition_date_microseconds = 2019-02-01 '
                                           "11:17:49.123456\\n    receiver_gain = (0, {'units': "
                                           "'dB'})\\n    invalid_line_flag = False\\n    "
                                           'elevation_angle_at_nadir_of_antenna = Container: '
                                           "\\n        electronic = (0, {'units': "
                                           "'deg'})\\n        mechanic = (0, {'units': "
                                           "'deg'})\\n    antenna_squint_angle = Container: "
                                           "\\n        electronic = (0, {'units': "
                                           "'deg'})\\n        mechanic = (0, {'units': "
                                           "'deg'})\\n    slant_range_to_first_data_sample = (0, "
                                           "{'units': 'm'})\\n    data_record_window_position = "
                                           "(0, {'units': 'ns'})\\n    blanks1 = 0\\n    "
                                           'platform_position_parameters_update_flag = (enum) '
                                           "repeat 0\\n    platform_latitude = (0.0, {'units': "
                                           "'deg'})\\n    platform_longitude = (0.0, {'units': "
                                           "'deg'})\\n    platform_altitude = (0, {'units': "
                                           "'deg'})\\n    platform_ground_speed = (0, {'units': "
                                           "'cm/s'})\\n    platform_velocity = Container: "
                                           "\\n        x = (0, {'units': 'cm/s'})\\n        y = "
                                           "(0, {'units': 'cm/s'})\\n        z = (0, {'units': "
                                           "'cm/s'})\\n    platform_acceleration = Container: "
                                           "\\n        x = (0, {'units': 'cm/s^2'})\\n        y = "
                                           "(0, {'units': 'cm/s^2'})\\n        z = (0, {'units': "
                                           "'cm/s^2'})\\n    platform_track_angle = (0.0, "
                                           "{'units': 'deg'})\\n    platform_true_track_angle = "
                                           "(0.0, {'units': 'deg'})\\n    platform_attitude = "
                                           "Container: \\n        pitch = (0.0, {'units': "
                                           "'deg'})\\n        roll = (0.0, {'units': "
                                           "'deg'})\\n        yaw = (0.0, {'units': 'deg'})\\n    "
                                           "latitude_of_first_pixel = (0.0, {'units': "
                                           "'deg'})\\n    latitude_of_center_pixel = (0.0, "
                                           "{'units': 'deg'})\\n    latitude_of_last_pixel = (0.0, "
                                           "{'units': 'deg'})\\n    longitude_of_first_pixel = "
                                           "(0.0, {'units': 'deg'})\\n    "
                                           "longitude_of_center_pixel = (0.0, {'units': "
                                           "'deg'})\\n    longitude_of_last_pixel = (0.0, "
                                           "{'units': 'deg'})\\n    burst_number = 0\\n    "
                                           "line_number_in_this_burst = 0\\n    blanks2 = b'' "
                                           '(total 0)\\n    alos2_frame_number = 0\\n    '
                                           "palsar_auxiliary_data = b'' (total 0)\\n    data = "
                                           'Container: \\n        start = 544\\n        size = '
                                           '8\\n        stop = 552"'),
 'signal:2019:32:40669123:40669123456:0:x3': ('ok',
                                              'list',
                                              '[(datetime.datetime(2019, 2, 1, 11, 17, 49, '
                                              '123000), datetime.datetime(2019, 2, 1, 11, 17, 49, '
                                              '123456), 544), (datetime.datetime(2019, 2, 1, 11, '
                                              '17, 49, 123000), datetime.datetime(2019, 2, 1, 11, '
                                              '17, 49, 123456), 1096), (datetime.datetime(2019, 2, '
                                              '1, 11, 17, 49, 123000), datetime.datetime(2019, 2, '
                                              '1, 11, 17, 49, 123456), 1648)]'),
 'processed:2019:32:40669123:0': ('ok',
                                  'str',
                                  '"Container: \\n    record_start = 0\\n    preamble = Container: '
                                  '\\n        record_sequence_number = 2\\n        '
                                  'first_record_subtype = 50\\n        record_type = 11\\n        '
                                  'second_record_subtype = 18\\n        third_record_subtype = '
                                  '20\\n        record_length = 200\\n    '
                                  'sar_image_data_line_number = 0\\n    '
                                  'sar_image_data_record_index = 0\\n    '
                                  'actual_count_of_left_fill_pixels = 0\\n    '
                                  'actual_count_of_data_pixels = 0\\n    '
                                  'actual_count_of_right_fill_pixels = 0\\n    '
                                  'sensor_parameters_update_flag = 0\\n    sensor_acquisition_date '
                                  '= 2019-02-01 11:17:49.123000\\n    sar_channel_id = (enum) '
                                  '(unknown) 0\\n    sar_channel_code = (enum) L 0\\n    '
                                  'transmitted_pulse_polarization = (enum) horizontal 0\\n    '
                                  'received_pulse_polarization = (enum) horizontal 0\\n    prf = '
                                  "(0, {'units': 'mHz'})\\n    scan_id = 0\\n    "
                                  "slant_range_to_first_pixel = (0, {'units': 'm'})\\n    "
                                  "slant_range_to_mid_pixel = (0, {'units': 'm'})\\n    "
                                  "slant_range_to_last_pixel = (0, {'units': 'm'})\\n    "
                                  "doppler_centroid_value_at_first_pixel = (0.0, {'units': "
                                  "'Hz'})\\n    doppler_centroid_value_at_mid_pixel = (0.0, "
                                  "{'units': 'Hz'})\\n    doppler_centroid_value_at_last_pixel = "
                                  "(0.0, {'units': 'Hz'})\\n    azimuth_fm_rate_of_first_pixel = "
                                  "(0, {'units': 'Hz/ms'})\\n    azimuth_fm_rate_of_mid_pixel = "
                                  "(0, {'units': 'Hz/ms'})\\n    azimuth_fm_rate_of_last_pixel = "
                                  "(0, {'units': 'Hz/ms'})\\n    look_angle_of_nadir = (0.0, "
                                  "{'units': 'deg'})\\n    azimuth_squint_angle = (0.0, {'units': "
                                  "'deg'})\\n    blanks1 = b'' (total 0)\\n    "
                                  'geographic_reference_parameter_update_flag = 0\\n    '
                                  "latitude_of_first_pixel = (0.0, {'units': 'deg'})\\n    "
                                  "latitude_of_center_pixel = (0.0, {'units': 'deg'})\\n    "
                                  "latitude_of_last_pixel = (0.0, {'units': 'deg'})\\n    "
                                  "longitude_of_first_pixel = (0.0, {'units': 'deg'})\\n    "
                                  "longitude_of_center_pixel = (0.0, {'units': 'deg'})\\n    "
                                  "longitude_of_last_pixel = (0.0, {'units': 'deg'})\\n    "
                                  "northing_of_first_pixel = (0, {'units': 'm'})\\n    blanks2 = "
                                  "b'' (total 0)\\n    northing_of_last_pixel = (0, {'units': "
                                  "'m'})\\n    easting_of_first_pixel = (0, {'units': 'm'})\\n    "
                                  "blanks3 = b'' (total 0)\\n    easting_of_last_pixel = (0, "
                                  "{'units': 'm'})\\n    line_heading = (0.0, {'units': "
                                  "'deg'})\\n    blanks4 = b'' (total 0)\\n    data = Container: "
                                  '\\n        start = 192\\n        size = 8\\n        stop = '
                                  '200"'),
 'signal:2014:215:43200500:43200500123:1': ('ok',
                                            'str',
                                            '"Container: \\n    record_start = 0\\n    preamble = '
                                            'Container: \\n        record_sequence_number = '
                                            '2\\n        first_record_subtype = 50\\n        '
                                            'record_type = 10\\n        second_record_subtype = '
                                            '18\\n        third_record_subtype = 20\\n        '
                                            'record_length = 552\\n    sar_image_data_line_number '
                                            '= 16843009\\n    sar_image_data_record_index = '
                                            '16843009\\n    actual_count_of_left_fill_pixels = '
                                            '16843009\\n    actual_count_of_data_pixels = '
                                            '16843009\\n    actual_count_of_right_fill_pixels = '
                                            '16843009\\n    sensor_parameters_update_flag = '
                                            '16843009\\n    sensor_acquisition_date = 2014-08-03 '
                                            '12:00:00.500000\\n    sar_channel_id = (enum) '
                                            '(unknown) 257\\n    sar_channel_code = (enum) '
                                            '(unknown) 257\\n    transmitted_pulse_polarization = '
                                            '(enum) (unknown) 257\\n    '
                                            'received_pulse_polarization = (enum) (unknown) '
                                            "257\\n    prf = (16843009, {'units': 'mHz'})\\n    "
                                            'scan_id = 16843009\\n    '
                                            'onboard_range_compressed_flag = True\\n    '
                                            'chirp_type_designator = (enum) (unknown) 257\\n    '
                                            "chirp_length = (16843009, {'units': 'ns'})\\n    "
                                            "chirp_constant_coefficient = (16843009, {'units': "
                                            "'Hz'})\\n    chirp_linear_coefficient = (16843009, "
                                            "{'units': 'Hz/µs'})\\n    chirp_quadratic_coefficient "
                                            "= (16843009, {'units': 'Hz/µs^2'})\\n    "
                                            'sensor_acquisition_date_microseconds = 2014-08-03 '
                                            '12:00:00.500123\\n    receiver_gain = (16843009, '
                                            "{'units': 'dB'})\\n    invalid_line_flag = True\\n    "
                                            'elevation_angle_at_nadir_of_antenna = Container: '
                                            "\\n        electronic = (16843009, {'units': "
                                            "'deg'})\\n        mechanic = (16843009, {'units': "
                                            "'deg'})\\n    antenna_squint_angle = Container: "
                                            "\\n        electronic = (16843009, {'units': "
                                            "'deg'})\\n        mechanic = (16843009, {'units': "
                                            "'deg'})\\n    slant_range_to_first_data_sample = "
                                            "(16843009, {'units': 'm'})\\n    "
                                            "data_record_window_position = (16843009, {'units': "
                                            "'ns'})\\n    blanks1 = 16843009\\n    "
                                            'platform_position_parameters_update_flag = (enum) '
                                            '(unknown) 16843009\\n    platform_latitude = '
                                            "(16.843009, {'units': 'deg'})\\n    "
                                            "platform_longitude = (16.843009, {'units': "
                                            "'deg'})\\n    platform_altitude = (16843009, "
                                            "{'units': 'deg'})\\n    platform_ground_speed = "
                                            "(16843009, {'units': 'cm/s'})\\n    platform_velocity "
                                            "= Container: \\n        x = (16843009, {'units': "
                                            "'cm/s'})\\n        y = (16843009, {'units': "
                                            "'cm/s'})\\n        z = (16843009, {'units': "
                                            "'cm/s'})\\n    platform_acceleration = Container: "
                                            "\\n        x = (16843009, {'units': "
                                            "'cm/s^2'})\\n        y = (16843009, {'units': "
                                            "'cm/s^2'})\\n        z = (16843009, {'units': "
                                            "'cm/s^2'})\\n    platform_track_angle = (16.843009, "
                                            "{'units': 'deg'})\\n    platform_true_track_angle = "
                                            "(16.843009, {'units': 'deg'})\\n    platform_attitude "
                                            "= Container: \\n        pitch = (16.843009, {'units': "
                                            "'deg'})\\n        roll = (16.843009, {'units': "
                                            "'deg'})\\n        yaw = (16.843009, {'units': "
                                            "'deg'})\\n    latitude_of_first_pixel = (16.843009, "
                                            "{'units': 'deg'})\\n    latitude_of_center_pixel = "
                                            "(16.843009, {'units': 'deg'})\\n    "
                                            "latitude_of_last_pixel = (16.843009, {'units': "
                                            "'deg'})\\n    longitude_of_first_pixel = (16.843009, "
                                            "{'units': 'deg'})\\n    longitude_of_center_pixel = "
                                            "(16.843009, {'units': 'deg'})\\n    "
                                            "longitude_of_last_pixel = (16.843009, {'units': "
                                            "'deg'})\\n    burst_number = 16843009\\n    "
                                            'line_number_in_this_burst = 16843009\\n    blanks2 = '
                                            "b'\\\\x01\\\\x01\\\\x01\\\\x01\\\\x01\\\\x01\\\\x01\\\\x01\\\\x01\\\\x01\\\\x01\\\\x01\\\\x01\\\\x01\\\\x01\\\\x01'... "
                                            '(truncated, total 60)\\n    alos2_frame_number = '
                                            '16843009\\n    palsar_auxiliary_data = '
                                            "b'\\\\x01\\\\x01\\\\x01\\\\x01\\\\x01\\\\x01\\\\x01\\\\x01\\\\x01\\\\x01\\\\x01\\\\x01\\\\x01\\\\x01\\\\x01\\\\x01'... "
                                            '(truncated, total 256)\\n    data = Container: '
                                            '\\n        start = 544\\n        size = 8\\n        '
                                            'stop = 552"'),
 'signal:2014:215:43200500:43200500123:1:x3': ('ok',
                                               'list',
                                               '[(datetime.datetime(2014, 8, 3, 12, 0, 0, 500000), '
                                               'datetime.datetime(2014, 8, 3, 12, 0, 0, 500123), '
                                               '544), (datetime.datetime(2014, 8, 3, 12, 0, 0, '
                                               '500000), datetime.datetime(2014, 8, 3, 12, 0, 0, '
                                               '500123), 1096), (datetime.datetime(2014, 8, 3, 12, '
                                               '0, 0, 500000), datetime.datetime(2014, 8, 3, 12, '
                                               '0, 0, 500123), 1648)]'),
 'processed:2014:215:43200500:1': ('ok',
                                   'str',
                                   '"Container: \\n    record_start = 0\\n    preamble = '
                                   'Container: \\n        record_sequence_number = 2\\n        '
                                   'first_record_subtype = 50\\n        record_type = 11\\n        '
                                   'second_record_subtype = 18\\n        third_record_subtype = '
                                   '20\\n        record_length = 200\\n    '
                                   'sar_image_data_line_number = 16843009\\n    '
                                   'sar_image_data_record_index = 16843009\\n    '
                                   'actual_count_of_left_fill_pixels = 16843009\\n    '
                                   'actual_count_of_data_pixels = 16843009\\n    '
                                   'actual_count_of_right_fill_pixels = 16843009\\n    '
                                   'sensor_parameters_update_flag = 16843009\\n    '
                                   'sensor_acquisition_date = 2014-08-03 12:00:00.500000\\n    '
                                   'sar_channel_id = (enum) (unknown) 257\\n    sar_channel_code = '
                                   '(enum) (unknown) 257\\n    transmitted_pulse_polarization = '
                                   '(enum) (unknown) 257\\n    received_pulse_polarization = '
                                   "(enum) (unknown) 257\\n    prf = (16843009, {'units': "
                                   "'mHz'})\\n    scan_id = 16843009\\n    "
                                   "slant_range_to_first_pixel = (16843009, {'units': 'm'})\\n    "
                                   "slant_range_to_mid_pixel = (16843009, {'units': 'm'})\\n    "
                                   "slant_range_to_last_pixel = (16843009, {'units': 'm'})\\n    "
                                   'doppler_centroid_value_at_first_pixel = (16843.009000000002, '
                                   "{'units': 'Hz'})\\n    doppler_centroid_value_at_mid_pixel = "
                                   "(16843.009000000002, {'units': 'Hz'})\\n    "
                                   'doppler_centroid_value_at_last_pixel = (16843.009000000002, '
                                   "{'units': 'Hz'})\\n    azimuth_fm_rate_of_first_pixel = "
                                   "(16843009, {'units': 'Hz/ms'})\\n    "
                                   "azimuth_fm_rate_of_mid_pixel = (16843009, {'units': "
                                   "'Hz/ms'})\\n    azimuth_fm_rate_of_last_pixel = (16843009, "
                                   "{'units': 'Hz/ms'})\\n    look_angle_of_nadir = (16.843009, "
                                   "{'units': 'deg'})\\n    azimuth_squint_angle = (16.843009, "
                                   "{'units': 'deg'})\\n    blanks1 = "
                                   "b'\\\\x01\\\\x01\\\\x01\\\\x01\\\\x01\\\\x01\\\\x01\\\\x01\\\\x01\\\\x01\\\\x01\\\\x01\\\\x01\\\\x01\\\\x01\\\\x01'... "
                                   '(truncated, total 20)\\n    '
                                   'geographic_reference_parameter_update_flag = 16843009\\n    '
                                   "latitude_of_first_pixel = (16.843009, {'units': 'deg'})\\n    "
                                   "latitude_of_center_pixel = (16.843009, {'units': 'deg'})\\n    "
                                   "latitude_of_last_pixel = (16.843009, {'units': 'deg'})\\n    "
                                   "longitude_of_first_pixel = (16.843009, {'units': 'deg'})\\n    "
                                   "longitude_of_center_pixel = (16.843009, {'units': "
                                   "'deg'})\\n    longitude_of_last_pixel = (16.843009, {'units': "
                                   "'deg'})\\n    northing_of_first_pixel = (16843009, {'units': "
                                   "'m'})\\n    blanks2 = b'\\\\x01\\\\x01\\\\x01\\\\x01' (total "
                                   "4)\\n    northing_of_last_pixel = (16843009, {'units': "
                                   "'m'})\\n    easting_of_first_pixel = (16843009, {'units': "
                                   "'m'})\\n    blanks3 = b'\\\\x01\\\\x01\\\\x01\\\\x01' (total "
                                   "4)\\n    easting_of_last_pixel = (16843009, {'units': "
                                   "'m'})\\n    line_heading = (16.843009, {'units': 'deg'})\\n    "
                                   'blanks4 = '
                                   "b'\\\\x01\\\\x01\\\\x01\\\\x01\\\\x01\\\\x01\\\\x01\\\\x01' "
                                   '(total 8)\\n    data = Container: \\n        start = '
                                   '192\\n        size = 8\\n        stop = 200"'),
 'signal:2020:366:0:1099511627776:0': ('ok',
                                       'str',
                                       '"Container: \\n    record_start = 0\\n    preamble = '
                                       'Container: \\n        record_sequence_number = 2\\n        '
                                       'first_record_subtype = 50\\n        record_type = '
                                       '10\\n        second_record_subtype = 18\\n        '
                                       'third_record_subtype = 20\\n        record_length = '
                                       '552\\n    sar_image_data_line_number = 0\\n    '
                                       'sar_image_data_record_index = 0\\n    '
                                       'actual_count_of_left_fill_pixels = 0\\n    '
                                       'actual_count_of_data_pixels = 0\\n    '
                                       'actual_count_of_right_fill_pixels = 0\\n    '
                                       'sensor_parameters_update_flag = 0\\n    '
                                       'sensor_acquisition_date = 2020-12-31 00:00:00\\n    '
                                       'sar_channel_id = (enum) (unknown) 0\\n    sar_channel_code '
                                       '= (enum) L 0\\n    transmitted_pulse_polarization = (enum) '
                                       'horizontal 0\\n    received_pulse_polarization = (enum) '
                                       "horizontal 0\\n    prf = (0, {'units': 'mHz'})\\n    "
                                       'scan_id = 0\\n    onboard_range_compressed_flag = '
                                       'False\\n    chirp_type_designator = (enum) linear_fm_chirp '
                                       "0\\n    chirp_length = (0, {'units': 'ns'})\\n    "
                                       "chirp_constant_coefficient = (0, {'units': 'Hz'})\\n    "
                                       "chirp_linear_coefficient = (0, {'units': 'Hz/µs'})\\n    "
                                       "chirp_quadratic_coefficient = (0, {'units': "
                                       "'Hz/µs^2'})\\n    sensor_acquisition_date_microseconds = "
                                       '2021-01-12 17:25:11.627776\\n    receiver_gain = (0, '
                                       "{'units': 'dB'})\\n    invalid_line_flag = False\\n    "
                                       'elevation_angle_at_nadir_of_antenna = Container: '
                                       "\\n        electronic = (0, {'units': 'deg'})\\n        "
                                       "mechanic = (0, {'units': 'deg'})\\n    "
                                       'antenna_squint_angle = Container: \\n        electronic = '
                                       "(0, {'units': 'deg'})\\n        mechanic = (0, {'units': "
                                       "'deg'})\\n    slant_range_to_first_data_sample = (0, "
                                       "{'units': 'm'})\\n    data_record_window_position = (0, "
                                       "{'units': 'ns'})\\n    blanks1 = 0\\n    "
                                       'platform_position_parameters_update_flag = (enum) repeat '
                                       "0\\n    platform_latitude = (0.0, {'units': 'deg'})\\n    "
                                       "platform_longitude = (0.0, {'units': 'deg'})\\n    "
                                       "platform_altitude = (0, {'units': 'deg'})\\n    "
                                       "platform_ground_speed = (0, {'units': 'cm/s'})\\n    "
                                       'platform_velocity = Container: \\n        x = (0, '
                                       "{'units': 'cm/s'})\\n        y = (0, {'units': "
                                       "'cm/s'})\\n        z = (0, {'units': 'cm/s'})\\n    "
                                       'platform_acceleration = Container: \\n        x = (0, '
                                       "{'units': 'cm/s^2'})\\n        y = (0, {'units': "
                                       "'cm/s^2'})\\n        z = (0, {'units': 'cm/s^2'})\\n    "
                                       "platform_track_angle = (0.0, {'units': 'deg'})\\n    "
                                       "platform_true_track_angle = (0.0, {'units': 'deg'})\\n    "
                                       'platform_attitude = Container: \\n        pitch = (0.0, '
                                       "{'units': 'deg'})\\n        roll = (0.0, {'units': "
                                       "'deg'})\\n        yaw = (0.0, {'units': 'deg'})\\n    "
                                       "latitude_of_first_pixel = (0.0, {'units': 'deg'})\\n    "
                                       "latitude_of_center_pixel = (0.0, {'units': 'deg'})\\n    "
                                       "latitude_of_last_pixel = (0.0, {'units': 'deg'})\\n    "
                                       "longitude_of_first_pixel = (0.0, {'units': 'deg'})\\n    "
                                       "longitude_of_center_pixel = (0.0, {'units': 'deg'})\\n    "
                                       "longitude_of_last_pixel = (0.0, {'units': 'deg'})\\n    "
                                       'burst_number = 0\\n    line_number_in_this_burst = 0\\n    '
                                       "blanks2 = b'' (total 0)\\n    alos2_frame_number = 0\\n    "
                                       "palsar_auxiliary_data = b'' (total 0)\\n    data = "
                                       'Container: \\n        start = 544\\n        size = '
                                       '8\\n        stop = 552"'),
 'signal:2020:366:0:1099511627776:0:x3': ('ok',
                                          'list',
                                          '[(datetime.datetime(2020, 12, 31, 0, 0), '
                                          'datetime.datetime(2021, 1, 12, 17, 25, 11, 627776), '
                                          '544), (datetime.datetime(2020, 12, 31, 0, 0), '
                                          'datetime.datetime(2021, 1, 12, 17, 25, 11, 627776), '
                                          '1096), (datetime.datetime(2020, 12, 31, 0, 0), '
                                          'datetime.datetime(2021, 1, 12, 17, 25, 11, 627776), '
                                          '1648)]'),
 'processed:2020:366:0:0': ('ok',
                            'str',
                            '"Container: \\n    record_start = 0\\n    preamble = Container: '
                            '\\n        record_sequence_number = 2\\n        first_record_subtype '
                            '= 50\\n        record_type = 11\\n        second_record_subtype = '
                            '18\\n        third_record_subtype = 20\\n        record_length = '
                            '200\\n    sar_image_data_line_number = 0\\n    '
                            'sar_image_data_record_index = 0\\n    '
                            'actual_count_of_left_fill_pixels = 0\\n    '
                            'actual_count_of_data_pixels = 0\\n    '
                            'actual_count_of_right_fill_pixels = 0\\n    '
                            'sensor_parameters_update_flag = 0\\n    sensor_acquisition_date = '
                            '2020-12-31 00:00:00\\n    sar_channel_id = (enum) (unknown) 0\\n    '
                            'sar_channel_code = (enum) L 0\\n    transmitted_pulse_polarization = '
                            '(enum) horizontal 0\\n    received_pulse_polarization = (enum) '
                            "horizontal 0\\n    prf = (0, {'units': 'mHz'})\\n    scan_id = "
                            "0\\n    slant_range_to_first_pixel = (0, {'units': 'm'})\\n    "
                            "slant_range_to_mid_pixel = (0, {'units': 'm'})\\n    "
                            "slant_range_to_last_pixel = (0, {'units': 'm'})\\n    "
                            "doppler_centroid_value_at_first_pixel = (0.0, {'units': 'Hz'})\\n    "
                            "doppler_centroid_value_at_mid_pixel = (0.0, {'units': 'Hz'})\\n    "
                            "doppler_centroid_value_at_last_pixel = (0.0, {'units': 'Hz'})\\n    "
                            "azimuth_fm_rate_of_first_pixel = (0, {'units': 'Hz/ms'})\\n    "
                            "azimuth_fm_rate_of_mid_pixel = (0, {'units': 'Hz/ms'})\\n    "
                            "azimuth_fm_rate_of_last_pixel = (0, {'units': 'Hz/ms'})\\n    "
                            "look_angle_of_nadir = (0.0, {'units': 'deg'})\\n    "
                            "azimuth_squint_angle = (0.0, {'units': 'deg'})\\n    blanks1 = b'' "
                            '(total 0)\\n    geographic_reference_parameter_update_flag = 0\\n    '
                            "latitude_of_first_pixel = (0.0, {'units': 'deg'})\\n    "
                            "latitude_of_center_pixel = (0.0, {'units': 'deg'})\\n    "
                            "latitude_of_last_pixel = (0.0, {'units': 'deg'})\\n    "
                            "longitude_of_first_pixel = (0.0, {'units': 'deg'})\\n    "
                            "longitude_of_center_pixel = (0.0, {'units': 'deg'})\\n    "
                            "longitude_of_last_pixel = (0.0, {'units': 'deg'})\\n    "
                            "northing_of_first_pixel = (0, {'units': 'm'})\\n    blanks2 = b'' "
                            "(total 0)\\n    northing_of_last_pixel = (0, {'units': 'm'})\\n    "
                            "easting_of_first_pixel = (0, {'units': 'm'})\\n    blanks3 = b'' "
                            "(total 0)\\n    easting_of_last_pixel = (0, {'units': 'm'})\\n    "
                            "line_heading = (0.0, {'units': 'deg'})\\n    blanks4 = b'' (total "
                            '0)\\n    data = Container: \\n        start = 192\\n        size = '
                            '8\\n        stop = 200"'),
 'signal:0:1:0:0:0': ('raise', 'ValueError', 'year 0 is out of range'),
 'signal:0:1:0:0:0:x3': ('raise', 'ValueError', 'year 0 is out of range'),
 'processed:0:1:0:0': ('raise', 'ValueError', 'year 0 is out of range'),
 'signal:2019:0:0:0:255': ('ok',
                           'str',
                           '"Container: \\n    record_start = 0\\n    preamble = Container: '
                           '\\n        record_sequence_number = 2\\n        first_record_subtype = '
                           '50\\n        record_type = 10\\n        second_record_subtype = '
                           '18\\n        third_record_subtype = 20\\n        record_length = '
                           '552\\n    sar_image_data_line_number = 4294967295\\n    '
                           'sar_image_data_record_index = 4294967295\\n    '
                           'actual_count_of_left_fill_pixels = 4294967295\\n    '
                           'actual_count_of_data_pixels = 4294967295\\n    '
                           'actual_count_of_right_fill_pixels = 4294967295\\n    '
                           'sensor_parameters_update_flag = 4294967295\\n    '
                           'sensor_acquisition_date = 2018-12-31 00:00:00\\n    sar_channel_id = '
                           '(enum) (unknown) 65535\\n    sar_channel_code = (enum) (unknown) '
                           '65535\\n    transmitted_pulse_polarization = (enum) (unknown) '
                           '65535\\n    received_pulse_polarization = (enum) (unknown) 65535\\n    '
                           "prf = (4294967295, {'units': 'mHz'})\\n    scan_id = 4294967295\\n    "
                           'onboard_range_compressed_flag = True\\n    chirp_type_designator = '
                           "(enum) (unknown) 65535\\n    chirp_length = (4294967295, {'units': "
                           "'ns'})\\n    chirp_constant_coefficient = (4294967295, {'units': "
                           "'Hz'})\\n    chirp_linear_coefficient = (4294967295, {'units': "
                           "'Hz/µs'})\\n    chirp_quadratic_coefficient = (4294967295, {'units': "
                           "'Hz/µs^2'})\\n    sensor_acquisition_date_microseconds = 2018-12-31 "
                           "00:00:00\\n    receiver_gain = (4294967295, {'units': 'dB'})\\n    "
                           'invalid_line_flag = True\\n    elevation_angle_at_nadir_of_antenna = '
                           "Container: \\n        electronic = (4294967295, {'units': "
                           "'deg'})\\n        mechanic = (4294967295, {'units': 'deg'})\\n    "
                           'antenna_squint_angle = Container: \\n        electronic = (4294967295, '
                           "{'units': 'deg'})\\n        mechanic = (4294967295, {'units': "
                           "'deg'})\\n    slant_range_to_first_data_sample = (4294967295, "
                           "{'units': 'm'})\\n    data_record_window_position = (4294967295, "
                           "{'units': 'ns'})\\n    blanks1 = 4294967295\\n    "
                           'platform_position_parameters_update_flag = (enum) (unknown) '
                           "4294967295\\n    platform_latitude = (4294.9672949999995, {'units': "
                           "'deg'})\\n    platform_longitude = (4294.9672949999995, {'units': "
                           "'deg'})\\n    platform_altitude = (4294967295, {'units': 'deg'})\\n    "
                           "platform_ground_speed = (4294967295, {'units': 'cm/s'})\\n    "
                           "platform_velocity = Container: \\n        x = (4294967295, {'units': "
                           "'cm/s'})\\n        y = (4294967295, {'units': 'cm/s'})\\n        z = "
                           "(4294967295, {'units': 'cm/s'})\\n    platform_acceleration = "
                           "Container: \\n        x = (4294967295, {'units': 'cm/s^2'})\\n        "
                           "y = (4294967295, {'units': 'cm/s^2'})\\n        z = (4294967295, "
                           "{'units': 'cm/s^2'})\\n    platform_track_angle = (4294.9672949999995, "
                           "{'units': 'deg'})\\n    platform_true_track_angle = "
                           "(4294.9672949999995, {'units': 'deg'})\\n    platform_attitude = "
                           "Container: \\n        pitch = (4294.9672949999995, {'units': "
                           "'deg'})\\n        roll = (4294.9672949999995, {'units': "
                           "'deg'})\\n        yaw = (4294.9672949999995, {'units': 'deg'})\\n    "
                           "latitude_of_first_pixel = (4294.9672949999995, {'units': 'deg'})\\n    "
                           "latitude_of_center_pixel = (4294.9672949999995, {'units': "
                           "'deg'})\\n    latitude_of_last_pixel = (4294.9672949999995, {'units': "
                           "'deg'})\\n    longitude_of_first_pixel = (4294.9672949999995, "
                           "{'units': 'deg'})\\n    longitude_of_center_pixel = "
                           "(4294.9672949999995, {'units': 'deg'})\\n    longitude_of_last_pixel = "
                           "(4294.9672949999995, {'units': 'deg'})\\n    burst_number = "
                           '4294967295\\n    line_number_in_this_burst = 4294967295\\n    blanks2 '
                           '= '
                           "b'\\\\xff\\\\xff\\\\xff\\\\xff\\\\xff\\\\xff\\\\xff\\\\xff\\\\xff\\\\xff\\\\xff\\\\xff\\\\xff\\\\xff\\\\xff\\\\xff'... "
                           '(truncated, total 60)\\n    alos2_frame_number = 4294967295\\n    '
                           'palsar_auxiliary_data = '
                           "b'\\\\xff\\\\xff\\\\xff\\\\xff\\\\xff\\\\xff\\\\xff\\\\xff\\\\xff\\\\xff\\\\xff\\\\xff\\\\xff\\\\xff\\\\xff\\\\xff'... "
                           '(truncated, total 256)\\n    data = Container: \\n        start = '
                           '544\\n        size = 8\\n        stop = 552"'),
 'signal:2019:0:0:0:255:x3': ('ok',
                              'list',
                              '[(datetime.datetime(2018, 12, 31, 0, 0), datetime.datetime(2018, '
                              '12, 31, 0, 0), 544), (datetime.datetime(2018, 12, 31, 0, 0), '
                              'datetime.datetime(2018, 12, 31, 0, 0), 1096), '
                              '(datetime.datetime(2018, 12, 31, 0, 0), datetime.datetime(2018, 12, '
                              '31, 0, 0), 1648)]'),
 'processed:2019:0:0:255': ('ok',
                            'str',
                            '"Container: \\n    record_start = 0\\n    preamble = Container: '
                            '\\n        record_sequence_number = 2\\n        first_record_subtype '
                            '= 50\\n        record_type = 11\\n        second_record_subtype = '
                            '18\\n        third_record_subtype = 20\\n        record_length = '
                            '200\\n    sar_image_data_line_number = 4294967295\\n    '
                            'sar_image_data_record_index = 4294967295\\n    '
                            'actual_count_of_left_fill_pixels = 4294967295\\n    '
                            'actual_count_of_data_pixels = 4294967295\\n    '
                            'actual_count_of_right_fill_pixels = 4294967295\\n    '
                            'sensor_parameters_update_flag = 4294967295\\n    '
                            'sensor_acquisition_date = 2018-12-31 00:00:00\\n    sar_channel_id = '
                            '(enum) (unknown) 65535\\n    sar_channel_code = (enum) (unknown) '
                            '65535\\n    transmitted_pulse_polarization = (enum) (unknown) '
                            '65535\\n    received_pulse_polarization = (enum) (unknown) '
                            "65535\\n    prf = (4294967295, {'units': 'mHz'})\\n    scan_id = "
                            "4294967295\\n    slant_range_to_first_pixel = (4294967295, {'units': "
                            "'m'})\\n    slant_range_to_mid_pixel = (4294967295, {'units': "
                            "'m'})\\n    slant_range_to_last_pixel = (4294967295, {'units': "
                            "'m'})\\n    doppler_centroid_value_at_first_pixel = (4294967.295, "
                            "{'units': 'Hz'})\\n    doppler_centroid_value_at_mid_pixel = "
                            "(4294967.295, {'units': 'Hz'})\\n    "
                            "doppler_centroid_value_at_last_pixel = (4294967.295, {'units': "
                            "'Hz'})\\n    azimuth_fm_rate_of_first_pixel = (4294967295, {'units': "
                            "'Hz/ms'})\\n    azimuth_fm_rate_of_mid_pixel = (4294967295, {'units': "
                            "'Hz/ms'})\\n    azimuth_fm_rate_of_last_pixel = (4294967295, "
                            "{'units': 'Hz/ms'})\\n    look_angle_of_nadir = (4294.9672949999995, "
                            "{'units': 'deg'})\\n    azimuth_squint_angle = (4294.9672949999995, "
                            "{'units': 'deg'})\\n    blanks1 = "
                            "b'\\\\xff\\\\xff\\\\xff\\\\xff\\\\xff\\\\xff\\\\xff\\\\xff\\\\xff\\\\xff\\\\xff\\\\xff\\\\xff\\\\xff\\\\xff\\\\xff'... "
                            '(truncated, total 20)\\n    '
                            'geographic_reference_parameter_update_flag = 4294967295\\n    '
                            "latitude_of_first_pixel = (4294.9672949999995, {'units': "
                            "'deg'})\\n    latitude_of_center_pixel = (4294.9672949999995, "
                            "{'units': 'deg'})\\n    latitude_of_last_pixel = (4294.9672949999995, "
                            "{'units': 'deg'})\\n    longitude_of_first_pixel = "
                            "(4294.9672949999995, {'units': 'deg'})\\n    "
                            "longitude_of_center_pixel = (4294.9672949999995, {'units': "
                            "'deg'})\\n    longitude_of_last_pixel = (4294.9672949999995, "
                            "{'units': 'deg'})\\n    northing_of_first_pixel = (4294967295, "
                            "{'units': 'm'})\\n    blanks2 = b'\\\\xff\\\\xff\\\\xff\\\\xff' "
                            "(total 4)\\n    northing_of_last_pixel = (4294967295, {'units': "
                            "'m'})\\n    easting_of_first_pixel = (4294967295, {'units': "
                            "'m'})\\n    blanks3 = b'\\\\xff\\\\xff\\\\xff\\\\xff' (total 4)\\n    "
                            "easting_of_last_pixel = (4294967295, {'units': 'm'})\\n    "
                            "line_heading = (4294.9672949999995, {'units': 'deg'})\\n    blanks4 = "
                            "b'\\\\xff\\\\xff\\\\xff\\\\xff\\\\xff\\\\xff\\\\xff\\\\xff' (total "
                            '8)\\n    data = Container: \\n        start = 192\\n        size = '
                            '8\\n        stop = 200"'),
 'signal:9999:365:86399999:86399999999:0': ('ok',
                                            'str',
                                            '"Container: \\n    record_start = 0\\n    preamble = '
                                            'Container: \\n        record_sequence_number = '
                                            '2\\n        first_record_subtype = 50\\n        '
                                            'record_type = 10\\n        second_record_subtype = '
                                            '18\\n        third_record_subtype = 20\\n        '
                                            'record_length = 552\\n    sar_image_data_line_number '
                                            '= 0\\n    sar_image_data_record_index = 0\\n    '
                                            'actual_count_of_left_fill_pixels = 0\\n    '
                                            'actual_count_of_data_pixels = 0\\n    '
                                            'actual_count_of_right_fill_pixels = 0\\n    '
                                            'sensor_parameters_update_flag = 0\\n    '
                                            'sensor_acquisition_date = 9999-12-31 '
                                            '23:59:59.999000\\n    sar_channel_id = (enum) '
                                            '(unknown) 0\\n    sar_channel_code = (enum) L 0\\n    '
                                            'transmitted_pulse_polarization = (enum) horizontal '
                                            '0\\n    received_pulse_polarization = (enum) '
                                            "horizontal 0\\n    prf = (0, {'units': 'mHz'})\\n    "
                                            'scan_id = 0\\n    onboard_range_compressed_flag = '
                                            'False\\n    chirp_type_designator = (enum) '
                                            "linear_fm_chirp 0\\n    chirp_length = (0, {'units': "
                                            "'ns'})\\n    chirp_constant_coefficient = (0, "
                                            "{'units': 'Hz'})\\n    chirp_linear_coefficient = (0, "
                                            "{'units': 'Hz/µs'})\\n    chirp_quadratic_coefficient "
                                            "= (0, {'units': 'Hz/µs^2'})\\n    "
                                            'sensor_acquisition_date_microseconds = 9999-12-31 '
                                            "23:59:59.999999\\n    receiver_gain = (0, {'units': "
                                            "'dB'})\\n    invalid_line_flag = False\\n    "
                                            'elevation_angle_at_nadir_of_antenna = Container: '
                                            "\\n        electronic = (0, {'units': "
                                            "'deg'})\\n        mechanic = (0, {'units': "
                                            "'deg'})\\n    antenna_squint_angle = Container: "
                                            "\\n        electronic = (0, {'units': "
                                            "'deg'})\\n        mechanic = (0, {'units': "
                                            "'deg'})\\n    slant_range_to_first_data_sample = (0, "
                                            "{'units': 'm'})\\n    data_record_window_position = "
                                            "(0, {'units': 'ns'})\\n    blanks1 = 0\\n    "
                                            'platform_position_parameters_update_flag = (enum) '
                                            "repeat 0\\n    platform_latitude = (0.0, {'units': "
                                            "'deg'})\\n    platform_longitude = (0.0, {'units': "
                                            "'deg'})\\n    platform_altitude = (0, {'units': "
                                            "'deg'})\\n    platform_ground_speed = (0, {'units': "
                                            "'cm/s'})\\n    platform_velocity = Container: "
                                            "\\n        x = (0, {'units': 'cm/s'})\\n        y = "
                                            "(0, {'units': 'cm/s'})\\n        z = (0, {'units': "
                                            "'cm/s'})\\n    platform_acceleration = Container: "
                                            "\\n        x = (0, {'units': 'cm/s^2'})\\n        y = "
                                            "(0, {'units': 'cm/s^2'})\\n        z = (0, {'units': "
                                            "'cm/s^2'})\\n    platform_track_angle = (0.0, "
                                            "{'units': 'deg'})\\n    platform_true_track_angle = "
                                            "(0.0, {'units': 'deg'})\\n    platform_attitude = "
                                            "Container: \\n        pitch = (0.0, {'units': "
                                            "'deg'})\\n        roll = (0.0, {'units': "
                                            "'deg'})\\n        yaw = (0.0, {'units': 'deg'})\\n    "
                                            "latitude_of_first_pixel = (0.0, {'units': "
                                            "'deg'})\\n    latitude_of_center_pixel = (0.0, "
                                            "{'units': 'deg'})\\n    latitude_of_last_pixel = "
                                            "(0.0, {'units': 'deg'})\\n    "
                                            "longitude_of_first_pixel = (0.0, {'units': "
                                            "'deg'})\\n    longitude_of_center_pixel = (0.0, "
                                            "{'units': 'deg'})\\n    longitude_of_last_pixel = "
                                            "(0.0, {'units': 'deg'})\\n    burst_number = 0\\n    "
                                            "line_number_in_this_burst = 0\\n    blanks2 = b'' "
                                            '(total 0)\\n    alos2_frame_number = 0\\n    '
                                            "palsar_auxiliary_data = b'' (total 0)\\n    data = "
                                            'Container: \\n        start = 544\\n        size = '
                                            '8\\n        stop = 552"'),
 'signal:9999:365:86399999:86399999999:0:x3': ('ok',
                                               'list',
                                               '[(datetime.datetime(9999, 12, 31, 23, 59, 59, '
                                               '999000), datetime.datetime(9999, 12, 31, 23, 59, '
                                               '59, 999999), 544), (datetime.datetime(9999, 12, '
                                               '31, 23, 59, 59, 999000), datetime.datetime(9999, '
                                               '12, 31, 23, 59, 59, 999999), 1096), '
                                               '(datetime.datetime(9999, 12, 31, 23, 59, 59, '
                                               '999000), datetime.datetime(9999, 12, 31, 23, 59, '
                                               '59, 999999), 1648)]'),
 'processed:9999:365:86399999:0': ('ok',
                                   'str',
                                   '"Container: \\n    record_start = 0\\n    preamble = '
                                   'Container: \\n        record_sequence_number = 2\\n        '
                                   'first_record_subtype = 50\\n        record_type = 11\\n        '
                                   'second_record_subtype = 18\\n        third_record_subtype = '
                                   '20\\n        record_length = 200\\n    '
                                   'sar_image_data_line_number = 0\\n    '
                                   'sar_image_data_record_index = 0\\n    '
                                   'actual_count_of_left_fill_pixels = 0\\n    '
                                   'actual_count_of_data_pixels = 0\\n    '
                                   'actual_count_of_right_fill_pixels = 0\\n    '
                                   'sensor_parameters_update_flag = 0\\n    '
                                   'sensor_acquisition_date = 9999-12-31 23:59:59.999000\\n    '
                                   'sar_channel_id = (enum) (unknown) 0\\n    sar_channel_code = '
                                   '(enum) L 0\\n    transmitted_pulse_polarization = (enum) '
                                   'horizontal 0\\n    received_pulse_polarization = (enum) '
                                   "horizontal 0\\n    prf = (0, {'units': 'mHz'})\\n    scan_id = "
                                   "0\\n    slant_range_to_first_pixel = (0, {'units': 'm'})\\n    "
                                   "slant_range_to_mid_pixel = (0, {'units': 'm'})\\n    "
                                   "slant_range_to_last_pixel = (0, {'units': 'm'})\\n    "
                                   "doppler_centroid_value_at_first_pixel = (0.0, {'units': "
                                   "'Hz'})\\n    doppler_centroid_value_at_mid_pixel = (0.0, "
                                   "{'units': 'Hz'})\\n    doppler_centroid_value_at_last_pixel = "
                                   "(0.0, {'units': 'Hz'})\\n    azimuth_fm_rate_of_first_pixel = "
                                   "(0, {'units': 'Hz/ms'})\\n    azimuth_fm_rate_of_mid_pixel = "
                                   "(0, {'units': 'Hz/ms'})\\n    azimuth_fm_rate_of_last_pixel = "
                                   "(0, {'units': 'Hz/ms'})\\n    look_angle_of_nadir = (0.0, "
                                   "{'units': 'deg'})\\n    azimuth_squint_angle = (0.0, {'units': "
                                   "'deg'})\\n    blanks1 = b'' (total 0)\\n    "
                                   'geographic_reference_parameter_update_flag = 0\\n    '
                                   "latitude_of_first_pixel = (0.0, {'units': 'deg'})\\n    "
                                   "latitude_of_center_pixel = (0.0, {'units': 'deg'})\\n    "
                                   "latitude_of_last_pixel = (0.0, {'units': 'deg'})\\n    "
                                   "longitude_of_first_pixel = (0.0, {'units': 'deg'})\\n    "
                                   "longitude_of_center_pixel = (0.0, {'units': 'deg'})\\n    "
                                   "longitude_of_last_pixel = (0.0, {'units': 'deg'})\\n    "
                                   "northing_of_first_pixel = (0, {'units': 'm'})\\n    blanks2 = "
                                   "b'' (total 0)\\n    northing_of_last_pixel = (0, {'units': "
                                   "'m'})\\n    easting_of_first_pixel = (0, {'units': 'm'})\\n    "
                                   "blanks3 = b'' (total 0)\\n    easting_of_last_pixel = (0, "
                                   "{'units': 'm'})\\n    line_heading = (0.0, {'units': "
                                   "'deg'})\\n    blanks4 = b'' (total 0)\\n    data = Container: "
                                   '\\n        start = 192\\n        size = 8\\n        stop = '
                                   '200"'),
 'signal:9999:365:86399999:86400000000:0': ('raise', 'OverflowError', 'date value out of range'),
 'signal:9999:365:86399999:86400000000:0:x3': ('raise', 'OverflowError', 'date value out of range')}


def test_equivalence():
    actual = observe()
    assert list(actual) == list(EXPECTED)
    for key, value in actual.items():
        assert value == EXPECTED[key], key


if __name__ == "__main__":
    if "--record" in sys.argv:
        pprint.pprint(observe(), width=100, sort_dicts=False)
    else:
        test_equivalence()
        print(f"ok: {len(EXPECTED)} observations identical")
