"""Equivalence check for refactoring 1 (ceos_alos2.utils.parse_bytes / byte_sizes).

Run as a script (``python equiv.py``) or through pytest. The expected values
below were recorded from the UNCHANGED code with ``python equiv.py --record``.
"""

import sys

import numpy as np

from ceos_alos2 import array, utils

STRING_CASES = [
    "100", "100 MB", "100M", "5kB", "5.4 kB", "1kiB", "1Mi", "1e6", "1e6 kB", "MB",
    ".5GB", "123 def", "abc# GB", "5 foos", "", " ", "   ", "1", "0", "1e3", "1e3kB",
    "1e", "e", "E", "1E3 kB", "5 KIB", "5 kib", "5Ki", "5ki", "5k", "5K", "5m", "5M",
    "5g", "5t", "5p", "5b", "5 B", "5B", "B", "b", "k", "kB", "kiB", "Ki", "PiB", "pib",
    "2 PB", "3TiB", "3 ti", "7 gi", "-5kB", "+5kB", "5_0kB", "nan", "inf", "-inf",
    "1e400", "1e400kB", "1e-3kB", "0.0004kB", "1.5", "1.5B", "2.999", "-2.999",
    "١٢٣", "١٢٣ kB", "５kB", "²", "²kB",
    "5µB", "5 kB\n", "5\tkB", "\t5kB", "5kB ", " 5 k B ", "0x10", "5 KİB",
    "5kb", "5KB", "5Kb", "5mb", "5mib", "5MiB", "5gib", "5GIB", "5tb", "5pb",
    "5 bytes", "5 kilobytes", "5kBB", "5k5", "k5", "5.5.5kB", "..5", "5.", "5.kB",
    "1,000", "1,000kB", "5 %", "5k!", "!", "#5", "12abc34def", "1 2 3", "1 2 3 k",
    "5i", "5ib", "5Bi", "5 kbi", "1e2e3", "e5", "ee5", "1ee", "5e", "5E", "5 e B",
]

OTHER_CASES = [
    123, 0, -7, 1.9, -1.9, 1e20, True, False, float("nan"), float("inf"),
    np.float64(2.5), np.int64(5), np.float32(2.5), None, b"5kB", ["5kB"], (5,), 5j,
]


def outcome(func, *args, **kwargs):
    try:
        result = func(*args, **kwargs)
    except BaseException as e:  # noqa: B902
        cause = type(e.__cause__).__name__ if e.__cause__ is not None else None
        return ("raise", type(e).__name__, str(e), cause, e.__suppress_context__)
    return ("return", type(result).__name__, repr(result))


def observe():
    results = {}
    for case in STRING_CASES:
        results[f"str:{case!r}"] = outcome(utils.parse_bytes, case)
    for case in OTHER_CASES:
        results[f"obj:{type(case).__name__}:{case!r}"] = outcome(utils.parse_bytes, case)
    # keyword call
    results["kw"] = outcome(utils.parse_bytes, s="3 kB")
    results["byte_sizes"] = (type(utils.byte_sizes).__name__, list(utils.byte_sizes.items()))
    # every unit of the table, in any capitalisation
    for unit in list(utils.byte_sizes):
        results[f"unit:{unit!r}"] = tuple(
            outcome(utils.parse_bytes, f"3 {variant}")
            for variant in (unit, unit.upper(), unit.title())
        )
    results["shared"] = (
        array.parse_bytes is utils.parse_bytes,
        utils.parse_bytes.__name__,
        utils.parse_bytes.__doc__,
    )
    # the table is looked up live: mutations of the exported dict are seen
    utils.byte_sizes["foos"] = 7
    try:
        results["mutated"] = outcome(utils.parse_bytes, "5 foos")
    finally:
        del utils.byte_sizes["foos"]
    results["restored"] = outcome(utils.parse_bytes, "5 foos")
    # the rest of the module is untouched but cheap to check
    results["unique"] = outcome(utils.unique, "aaceajde")
    results["starcall"] = outcome(utils.starcall, lambda x, y: x + y, (2,), y=2)
    results["rename"] = outcome(utils.rename, {"a": 1, "b": 2}, {"a": "c"})
    results["remove_nesting_layer"] = outcome(
        utils.remove_nesting_layer, {"a": {"b": 1, "c": {"d": 2}}, "e": 3}
    )
    results["to_dict"] = outcome(utils.to_dict, {"_io": 1, "a": (1, [2, {"b": b"c"}])})
    return results


EXPECTED = {"str:'100'": ('return', 'int', '100'),
 "str:'100 MB'": ('return', 'int', '100000000'),
 "str:'100M'": ('return', 'int', '100000000'),
 "str:'5kB'": ('return', 'int', '5000'),
 "str:'5.4 kB'": ('return', 'int', '5400'),
 "str:'1kiB'": ('return', 'int', '1024'),
 "str:'1Mi'": ('return', 'int', '1048576'),
 "str:'1e6'": ('return', 'int', '1000000'),
 "str:'1e6 kB'": ('return', 'int', '1000000000'),
 "str:'MB'": ('return', 'int', '1000000'),
 "str:'.5GB'": ('return', 'int', '500000000'),
 "str:'123 def'": ('raise',
                   'ValueError',
                   "Could not interpret 'def' as a byte unit",
                   'KeyError',
                   True),
 "str:'abc# GB'": ('raise',
                   'ValueError',
                   "Could not interpret '1abc#' as a number",
                   'ValueError',
                   True),
 "str:'5 foos'": ('raise',
                  'ValueError',
                  "Could not interpret 'foos' as a byte unit",
                  'KeyError',
                  True),
 "str:''": ('return', 'int', '1'),
 "str:' '": ('return', 'int', '1'),
 "str:'   '": ('return', 'int', '1'),
 "str:'1'": ('return', 'int', '1'),
 "str:'0'": ('return', 'int', '0'),
 "str:'1e3'": ('return', 'int', '1000'),
 "str:'1e3kB'": ('return', 'int', '1000000'),
 "str:'1e'": ('raise', 'ValueError', "Could not interpret 'e' as a byte unit", 'KeyError', True),
 "str:'e'": ('raise', 'ValueError', "Could not interpret 'e' as a byte unit", 'KeyError', True),
 "str:'E'": ('raise', 'ValueError', "Could not interpret 'E' as a byte unit", 'KeyError', True),
 "str:'1E3 kB'": ('return', 'int', '1000000'),
 "str:'5 KIB'": ('return', 'int', '5120'),
 "str:'5 kib'": ('return', 'int', '5120'),
 "str:'5Ki'": ('return', 'int', '5120'),
 "str:'5ki'": ('return', 'int', '5120'),
 "str:'5k'": ('return', 'int', '5000'),
 "str:'5K'": ('return', 'int', '5000'),
 "str:'5m'": ('return', 'int', '5000000'),
 "str:'5M'": ('return', 'int', '5000000'),
 "str:'5g'": ('return', 'int', '5000000000'),
 "str:'5t'": ('return', 'int', '5000000000000'),
 "str:'5p'": ('return', 'int', '5000000000000000'),
 "str:'5b'": ('return', 'int', '5'),
 "str:'5 B'": ('return', 'int', '5'),
 "str:'5B'": ('return', 'int', '5'),
 "str:'B'": ('return', 'int', '1'),
 "str:'b'": ('return', 'int', '1'),
 "str:'k'": ('return', 'int', '1000'),
 "str:'kB'": ('return', 'int', '1000'),
 "str:'kiB'": ('return', 'int', '1024'),
 "str:'Ki'": ('return', 'int', '1024'),
 "str:'PiB'": ('return', 'int', '1125899906842624'),
 "str:'pib'": ('return', 'int', '1125899906842624'),
 "str:'2 PB'": ('return', 'int', '2000000000000000'),
 "str:'3TiB'": ('return', 'int', '3298534883328'),
 "str:'3 ti'": ('return', 'int', '3298534883328'),
 "str:'7 gi'": ('return', 'int', '7516192768'),
 "str:'-5kB'": ('return', 'int', '-5000'),
 "str:'+5kB'": ('return', 'int', '5000'),
 "str:'5_0kB'": ('return', 'int', '50000'),
 "str:'nan'": ('raise', 'ValueError', "Could not interpret 'nan' as a byte unit", 'KeyError', True),
 "str:'inf'": ('raise', 'ValueError', "Could not interpret 'inf' as a byte unit", 'KeyError', True),
 "str:'-inf'": ('raise', 'ValueError', "Could not interpret '1-' as a number", 'ValueError', True),
 "str:'1e400'": ('raise', 'OverflowError', 'cannot convert float infinity to integer', None, False),
 "str:'1e400kB'": ('raise',
                   'OverflowError',
                   'cannot convert float infinity to integer',
                   None,
                   False),
 "str:'1e-3kB'": ('return', 'int', '1'),
 "str:'0.0004kB'": ('return', 'int', '0'),
 "str:'1.5'": ('return', 'int', '1'),
 "str:'1.5B'": ('return', 'int', '1'),
 "str:'2.999'": ('return', 'int', '2'),
 "str:'-2.999'": ('return', 'int', '-2'),
 "str:'١٢٣'": ('return', 'int', '123'),
 "str:'١٢٣ kB'": ('return', 'int', '123000'),
 "str:'５kB'": ('return', 'int', '5000'),
 "str:'²'": ('raise', 'ValueError', "Could not interpret '²' as a number", 'ValueError', True),
 "str:'²kB'": ('raise', 'ValueError', "Could not interpret '²' as a number", 'ValueError', True),
 "str:'5µB'": ('raise', 'ValueError', "Could not interpret 'µB' as a byte unit", 'KeyError', True),
 "str:'5 kB\\n'": ('raise',
                   'ValueError',
                   "Could not interpret '5kB\n' as a number",
                   'ValueError',
                   True),
 "str:'5\\tkB'": ('return', 'int', '5000'),
 "str:'\\t5kB'": ('return', 'int', '5000'),
 "str:'5kB '": ('return', 'int', '5000'),
 "str:' 5 k B '": ('return', 'int', '5000'),
 "str:'0x10'": ('raise',
                'ValueError',
                "Could not interpret '0x10' as a number",
                'ValueError',
                True),
 "str:'5 KİB'": ('raise',
                 'ValueError',
                 "Could not interpret 'KİB' as a byte unit",
                 'KeyError',
                 True),
 "str:'5kb'": ('return', 'int', '5000'),
 "str:'5KB'": ('return', 'int', '5000'),
 "str:'5Kb'": ('return', 'int', '5000'),
 "str:'5mb'": ('return', 'int', '5000000'),
 "str:'5mib'": ('return', 'int', '5242880'),
 "str:'5MiB'": ('return', 'int', '5242880'),
 "str:'5gib'": ('return', 'int', '5368709120'),
 "str:'5GIB'": ('return', 'int', '5368709120'),
 "str:'5tb'": ('return', 'int', '5000000000000'),
 "str:'5pb'": ('return', 'int', '5000000000000000'),
 "str:'5 bytes'": ('raise',
                   'ValueError',
                   "Could not interpret 'bytes' as a byte unit",
                   'KeyError',
                   True),
 "str:'5 kilobytes'": ('raise',
                       'ValueError',
                       "Could not interpret 'kilobytes' as a byte unit",
                       'KeyError',
                       True),
 "str:'5kBB'": ('raise',
                'ValueError',
                "Could not interpret 'kBB' as a byte unit",
                'KeyError',
                True),
 "str:'5k5'": ('raise', 'ValueError', "Could not interpret '5k5' as a number", 'ValueError', True),
 "str:'k5'": ('raise', 'ValueError', "Could not interpret 'k5' as a number", 'ValueError', True),
 "str:'5.5.5kB'": ('raise',
                   'ValueError',
                   "Could not interpret '5.5.5' as a number",
                   'ValueError',
                   True),
 "str:'..5'": ('raise', 'ValueError', "Could not interpret '..5' as a number", 'ValueError', True),
 "str:'5.'": ('return', 'int', '5'),
 "str:'5.kB'": ('return', 'int', '5000'),
 "str:'1,000'": ('raise',
                 'ValueError',
                 "Could not interpret '1,000' as a number",
                 'ValueError',
                 True),
 "str:'1,000kB'": ('raise',
                   'ValueError',
                   "Could not interpret '1,000' as a number",
                   'ValueError',
                   True),
 "str:'5 %'": ('raise', 'ValueError', "Could not interpret '5%' as a number", 'ValueError', True),
 "str:'5k!'": ('raise', 'ValueError', "Could not interpret '5k!' as a number", 'ValueError', True),
 "str:'!'": ('raise', 'ValueError', "Could not interpret '1!' as a number", 'ValueError', True),
 "str:'#5'": ('raise', 'ValueError', "Could not interpret '#5' as a number", 'ValueError', True),
 "str:'12abc34def'": ('raise',
                      'ValueError',
                      "Could not interpret '12abc34' as a number",
                      'ValueError',
                      True),
 "str:'1 2 3'": ('return', 'int', '123'),
 "str:'1 2 3 k'": ('return', 'int', '123000'),
 "str:'5i'": ('raise', 'ValueError', "Could not interpret 'i' as a byte unit", 'KeyError', True),
 "str:'5ib'": ('raise', 'ValueError', "Could not interpret 'ib' as a byte unit", 'KeyError', True),
 "str:'5Bi'": ('raise', 'ValueError', "Could not interpret 'Bi' as a byte unit", 'KeyError', True),
 "str:'5 kbi'": ('raise',
                 'ValueError',
                 "Could not interpret 'kbi' as a byte unit",
                 'KeyError',
                 True),
 "str:'1e2e3'": ('raise',
                 'ValueError',
                 "Could not interpret '1e2e3' as a number",
                 'ValueError',
                 True),
 "str:'e5'": ('raise', 'ValueError', "Could not interpret 'e5' as a number", 'ValueError', True),
 "str:'ee5'": ('raise', 'ValueError', "Could not interpret 'ee5' as a number", 'ValueError', True),
 "str:'1ee'": ('raise', 'ValueError', "Could not interpret 'ee' as a byte unit", 'KeyError', True),
 "str:'5e'": ('raise', 'ValueError', "Could not interpret 'e' as a byte unit", 'KeyError', True),
 "str:'5E'": ('raise', 'ValueError', "Could not interpret 'E' as a byte unit", 'KeyError', True),
 "str:'5 e B'": ('raise',
                 'ValueError',
                 "Could not interpret 'eB' as a byte unit",
                 'KeyError',
                 True),
 'obj:int:123': ('return', 'int', '123'),
 'obj:int:0': ('return', 'int', '0'),
 'obj:int:-7': ('return', 'int', '-7'),
 'obj:float:1.9': ('return', 'int', '1'),
 'obj:float:-1.9': ('return', 'int', '-1'),
 'obj:float:1e+20': ('return', 'int', '100000000000000000000'),
 'obj:bool:True': ('return', 'int', '1'),
 'obj:bool:False': ('return', 'int', '0'),
 'obj:float:nan': ('raise', 'ValueError', 'cannot convert float NaN to integer', None, False),
 'obj:float:inf': ('raise',
                   'OverflowError',
                   'cannot convert float infinity to integer',
                   None,
                   False),
 'obj:float64:np.float64(2.5)': ('return', 'int', '2'),
 'obj:int64:np.int64(5)': ('raise',
                           'AttributeError',
                           "'numpy.int64' object has no attribute 'replace'",
                           None,
                           False),
 'obj:float32:np.float32(2.5)': ('raise',
                                 'AttributeError',
                                 "'numpy.float32' object has no attribute 'replace'",
                                 None,
                                 False),
 'obj:NoneType:None': ('raise',
                       'AttributeError',
                       "'NoneType' object has no attribute 'replace'",
                       None,
                       False),
 "obj:bytes:b'5kB'": ('raise',
                      'TypeError',
                      "a bytes-like object is required, not 'str'",
                      None,
                      False),
 "obj:list:['5kB']": ('raise',
                      'AttributeError',
                      "'list' object has no attribute 'replace'",
                      None,
                      False),
 'obj:tuple:(5,)': ('raise',
                    'AttributeError',
                    "'tuple' object has no attribute 'replace'",
                    None,
                    False),
 'obj:complex:5j': ('raise',
                    'AttributeError',
                    "'complex' object has no attribute 'replace'",
                    None,
                    False),
 'kw': ('return', 'int', '3000'),
 'byte_sizes': ('dict',
                [('kb', 1000),
                 ('mb', 1000000),
                 ('gb', 1000000000),
                 ('tb', 1000000000000),
                 ('pb', 1000000000000000),
                 ('kib', 1024),
                 ('mib', 1048576),
                 ('gib', 1073741824),
                 ('tib', 1099511627776),
                 ('pib', 1125899906842624),
                 ('b', 1),
                 ('', 1),
                 ('k', 1000),
                 ('m', 1000000),
                 ('g', 1000000000),
                 ('t', 1000000000000),
                 ('p', 1000000000000000),
                 ('ki', 1024),
                 ('mi', 1048576),
                 ('gi', 1073741824),
                 ('ti', 1099511627776),
                 ('pi', 1125899906842624)]),
 "unit:'kb'": (('return', 'int', '3000'), ('return', 'int', '3000'), ('return', 'int', '3000')),
 "unit:'mb'": (('return', 'int', '3000000'),
               ('return', 'int', '3000000'),
               ('return', 'int', '3000000')),
 "unit:'gb'": (('return', 'int', '3000000000'),
               ('return', 'int', '3000000000'),
               ('return', 'int', '3000000000')),
 "unit:'tb'": (('return', 'int', '3000000000000'),
               ('return', 'int', '3000000000000'),
               ('return', 'int', '3000000000000')),
 "unit:'pb'": (('return', 'int', '3000000000000000'),
               ('return', 'int', '3000000000000000'),
               ('return', 'int', '3000000000000000')),
 "unit:'kib'": (('return', 'int', '3072'), ('return', 'int', '3072'), ('return', 'int', '3072')),
 "unit:'mib'": (('return', 'int', '3145728'),
                ('return', 'int', '3145728'),
                ('return', 'int', '3145728')),
 "unit:'gib'": (('return', 'int', '3221225472'),
                ('return', 'int', '3221225472'),
                ('return', 'int', '3221225472')),
 "unit:'tib'": (('return', 'int', '3298534883328'),
                ('return', 'int', '3298534883328'),
                ('return', 'int', '3298534883328')),
 "unit:'pib'": (('return', 'int', '3377699720527872'),
                ('return', 'int', '3377699720527872'),
                ('return', 'int', '3377699720527872')),
 "unit:'b'": (('return', 'int', '3'), ('return', 'int', '3'), ('return', 'int', '3')),
 "unit:''": (('return', 'int', '3'), ('return', 'int', '3'), ('return', 'int', '3')),
 "unit:'k'": (('return', 'int', '3000'), ('return', 'int', '3000'), ('return', 'int', '3000')),
 "unit:'m'": (('return', 'int', '3000000'),
              ('return', 'int', '3000000'),
              ('return', 'int', '3000000')),
 "unit:'g'": (('return', 'int', '3000000000'),
              ('return', 'int', '3000000000'),
              ('return', 'int', '3000000000')),
 "unit:'t'": (('return', 'int', '3000000000000'),
              ('return', 'int', '3000000000000'),
              ('return', 'int', '3000000000000')),
 "unit:'p'": (('return', 'int', '3000000000000000'),
              ('return', 'int', '3000000000000000'),
              ('return', 'int', '3000000000000000')),
 "unit:'ki'": (('return', 'int', '3072'), ('return', 'int', '3072'), ('return', 'int', '3072')),
 "unit:'mi'": (('return', 'int', '3145728'),
               ('return', 'int', '3145728'),
               ('return', 'int', '3145728')),
 "unit:'gi'": (('return', 'int', '3221225472'),
               ('return', 'int', '3221225472'),
               ('return', 'int', '3221225472')),
 "unit:'ti'": (('return', 'int', '3298534883328'),
               ('return', 'int', '3298534883328'),
               ('return', 'int', '3298534883328')),
 "unit:'pi'": (('return', 'int', '3377699720527872'),
               ('return', 'int', '3377699720527872'),
               ('return', 'int', '3377699720527872')),
 'shared': (True,
            'parse_bytes',
            'Parse byte string to numbers\n'
            '\n'
            '    >>> from dask.utils import parse_bytes\n'
            '    >>> parse_bytes("100")\n'
            '    100\n'
            '    >>> parse_bytes("100 MB")\n'
            '    100000000\n'
            '    >>> parse_bytes("100M")\n'
            '    100000000\n'
            '    >>> parse_bytes("5kB")\n'
            '    5000\n'
            '    >>> parse_bytes("5.4 kB")\n'
            '    5400\n'
            '    >>> parse_bytes("1kiB")\n'
            '    1024\n'
            '    >>> parse_bytes("1e6")\n'
            '    1000000\n'
            '    >>> parse_bytes("1e6 kB")\n'
            '    1000000000\n'
            '    >>> parse_bytes("MB")\n'
            '    1000000\n'
            '    >>> parse_bytes(123)\n'
            '    123\n'
            '    >>> parse_bytes("5 foos")\n'
            '    Traceback (most recent call last):\n'
            '        ...\n'
            "    ValueError: Could not interpret 'foos' as a byte unit\n"
            '    '),
 'mutated': ('return', 'int', '35'),
 'restored': ('raise', 'ValueError', "Could not interpret 'foos' as a byte unit", 'KeyError', True),
 'unique': ('return', 'list', "['a', 'c', 'e', 'j', 'd']"),
 'starcall': ('return', 'int', '4'),
 'rename': ('return', 'dict', "{'c': 1, 'b': 2}"),
 'remove_nesting_layer': ('return', 'dict', "{'b': 1, 'c': {'d': 2}, 'e': 3}"),
 'to_dict': ('return', 'dict', "{'a': (1, [2, {'b': b'c'}])}")}


def test_equivalent():
    actual = observe()
    assert list(actual) == list(EXPECTED)
    for key, value in actual.items():
        assert value == EXPECTED[key], (key, value, EXPECTED[key])
    assert actual == EXPECTED


if __name__ == "__main__":
    if "--record" in sys.argv:
        import pprint

        pprint.pprint(observe(), width=100, sort_dicts=False)
    else:
        test_equivalent()
        print(f"ok: {len(EXPECTED)} observations identical")
