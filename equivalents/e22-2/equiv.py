#!/usr/bin/env python
"""Equivalence check for refactoring 2: ``ceos_alos2.sar_image.metadata.extract_attrs``.

Run as

    cd /tmp/wt4/e22 && PYTHONPATH=/tmp/wt4/e22 /venv/bin/python _eq/2/equiv.py

(or through pytest: ``python -m pytest -q -p no:cacheprovider _eq/2/equiv.py``).

``extract_attrs`` is called on file descriptors parsed from synthetic 720-byte
records and on hand-written mappings (missing / unset / odd values, name
collisions between sections, wrong types).  For every case the script compares

- the type of the result, its items *in order* and the types of the values, or
  the exception type and message,
- whether the values that are passed through are the very same objects, and
- that the input was left untouched

with ``EXPECTED``, recorded with the UNCHANGED code (``equiv.py --record``).
``transform_metadata`` (the only caller) is run on a few complete inputs, too.
"""

import copy
import datetime as dt
import pprint
import struct
import sys

import numpy as np
from construct import Struct

from ceos_alos2.sar_image import metadata
from ceos_alos2.sar_image.file_descriptor import file_descriptor_record
from ceos_alos2.utils import to_dict

nan = float("nan")


# --------------------------------------------------------------------------
# synthetic file descriptors
# --------------------------------------------------------------------------
def leaf_offsets(struct_, base=0):
    offset = base
    for sc in struct_.subcons:
        size = sc.sizeof()
        inner = getattr(sc, "subcon", None)
        if isinstance(inner, Struct):
            yield from leaf_offsets(inner, offset)
        else:
            yield sc.name, (offset, size)
        offset += size


DESCRIPTOR_FIELDS = dict(leaf_offsets(file_descriptor_record))


def make_descriptor(**fields):
    buf = bytearray(b" " * 720)
    buf[:12] = struct.pack(">IBBBBI", 1, 50, 192, 18, 18, 720)
    values = {
        "number_of_sar_data_records": 3,
        "sar_data_record_length": 200,
        "number_of_lines_per_dataset": 3,
        "number_of_data_groups_per_line": 4,
        "sar_data_format_type_code": "IU2",
        **fields,
    }
    for name, value in values.items():
        offset, size = DESCRIPTOR_FIELDS[name]
        text = str(value)
        text = text.rjust(size) if isinstance(value, int) else text.ljust(size)
        assert len(text) == size, (name, value)
        buf[offset : offset + size] = text.encode("ascii")
    return to_dict(file_descriptor_record.parse(bytes(buf)))


class Opaque:
    def __repr__(self):
        return "<opaque>"


OPAQUE = Opaque()
TUPLE = (1, 2)
FILLED_LIST = [3, 4]


def header_cases():
    # parsed descriptors
    yield "parsed-all-blank", make_descriptor()
    yield "parsed-level15", make_descriptor(
        interleaving_id="BSQ", maximum_data_range_of_pixel=65535
    )
    yield "parsed-range-zero", make_descriptor(interleaving_id="BSQ", maximum_data_range_of_pixel=0)
    yield "parsed-range-negative", make_descriptor(maximum_data_range_of_pixel=-5)
    yield "parsed-range-minus-one", make_descriptor(maximum_data_range_of_pixel=-1)
    yield "parsed-specan", make_descriptor(
        interleaving_id="BSQ",
        number_of_burst_data=120,
        number_of_lines_per_burst=48,
        number_of_overlap_lines_with_adjacent_bursts=7,
    )
    yield "parsed-specan-zeros", make_descriptor(
        number_of_burst_data=0,
        number_of_lines_per_burst=0,
        number_of_overlap_lines_with_adjacent_bursts=0,
    )
    yield "parsed-everything", make_descriptor(
        interleaving_id="BIL",
        maximum_data_range_of_pixel=255,
        number_of_burst_data=1,
        number_of_lines_per_burst=2,
        number_of_overlap_lines_with_adjacent_bursts=3,
    )
    yield "parsed-partly-unset", make_descriptor(
        interleaving_id="BSQ", number_of_burst_data=5, number_of_lines_per_burst="    "
    )

    # hand-written mappings
    yield "empty", {}
    yield "preamble-only", {"preamble": {"record_length": 720}}
    yield "preamble-with-known-name", {"preamble": {"number_of_burst_data": 9}}
    yield "unknown-only", {"a": 1, "section": {"b": 2}}
    yield "flat-known", {
        "interleaving_id": "BSQ",
        "number_of_burst_data": 5,
        "number_of_lines_per_burst": 1,
        "number_of_overlap_lines_with_adjacent_bursts": 3,
    }
    yield "flat-known-reversed", {
        "number_of_overlap_lines_with_adjacent_bursts": 3,
        "number_of_lines_per_burst": 1,
        "number_of_burst_data": 5,
        "maximum_data_range_of_pixel": 27,
        "interleaving_id": "BSQ",
    }
    yield "all-unset", {
        "interleaving_id": -1,
        "maximum_data_range_of_pixel": -1,
        "number_of_burst_data": -1,
        "number_of_lines_per_burst": -1,
        "number_of_overlap_lines_with_adjacent_bursts": -1,
    }
    yield "unset-as-float", {"maximum_data_range_of_pixel": -1.0, "number_of_burst_data": -1.0}
    yield "range-int", {"maximum_data_range_of_pixel": 27}
    yield "range-zero", {"maximum_data_range_of_pixel": 0}
    yield "range-float", {"maximum_data_range_of_pixel": 2.5}
    yield "range-nan", {"maximum_data_range_of_pixel": nan}
    yield "range-inf", {"maximum_data_range_of_pixel": float("inf")}
    yield "range-bool", {"maximum_data_range_of_pixel": True}
    yield "range-numpy", {"maximum_data_range_of_pixel": np.float32(7)}
    yield "range-numpy-nan", {"maximum_data_range_of_pixel": np.float64("nan")}
    yield "range-str", {"maximum_data_range_of_pixel": "27"}
    yield "range-none", {"maximum_data_range_of_pixel": None}
    yield "range-list", {"maximum_data_range_of_pixel": [1]}
    yield "range-array", {"maximum_data_range_of_pixel": np.array([1, 2])}
    yield "range-complex", {"maximum_data_range_of_pixel": 1j}
    yield "burst-nan", {"number_of_burst_data": nan}
    yield "burst-none", {"number_of_burst_data": None}
    yield "burst-str", {"number_of_burst_data": "-1"}
    yield "burst-empty-str", {"number_of_burst_data": ""}
    yield "burst-zero", {"number_of_burst_data": 0, "number_of_lines_per_burst": 0.0}
    yield "burst-array", {"number_of_lines_per_burst": np.array([1, -1])}
    yield "burst-opaque", {"number_of_overlap_lines_with_adjacent_bursts": OPAQUE}
    yield "burst-tuple", {"number_of_burst_data": TUPLE, "number_of_lines_per_burst": ()}
    yield "burst-lists", {"number_of_burst_data": FILLED_LIST, "number_of_lines_per_burst": []}
    yield "interleaving-variants", {"section": {"interleaving_id": ""}}
    yield "interleaving-list", {"interleaving_id": []}
    yield "interleaving-filled-list", {"interleaving_id": FILLED_LIST}
    yield "interleaving-none", {"interleaving_id": None}
    yield "interleaving-opaque", {"interleaving_id": OPAQUE}
    yield "nested-known", {
        "a": {"interleaving_id": "BSQ", "other": 1},
        "b": {"number_of_burst_data": 4, "maximum_data_range_of_pixel": 9},
        "c": 3,
    }
    yield "nested-twice", {"a": {"b": {"interleaving_id": "BSQ"}, "number_of_burst_data": 2}}
    yield "nested-empty", {"a": {}, "interleaving_id": "BIP"}
    yield "collision-nested-nested", {
        "a": {"number_of_burst_data": 1, "interleaving_id": "first"},
        "b": {"number_of_burst_data": 2},
        "c": {"interleaving_id": "last", "number_of_lines_per_burst": 5},
    }
    yield "collision-top-then-nested", {"number_of_burst_data": 1, "a": {"number_of_burst_data": -1}}
    yield "collision-nested-then-top", {"a": {"number_of_burst_data": -1}, "number_of_burst_data": 1}
    yield "collision-with-translation", {
        "valid_range": "kept?",
        "maximum_data_range_of_pixel": 3,
        "interleaving_id": "x",
    }
    yield "section-named-like-attr", {"interleaving_id": {"number_of_burst_data": 3}}
    yield "preamble-not-a-dict", {"preamble": 5, "interleaving_id": "BSQ"}
    yield "odd-keys", {1: 2, None: 3, ("a",): 4, "number_of_burst_data": 6}
    yield "dates-and-bytes", {"interleaving_id": b"BSQ", "number_of_burst_data": dt.date(2020, 1, 1)}

    # not mappings at all
    yield "none", None
    yield "list", [("interleaving_id", "BSQ")]
    yield "string", "interleaving_id"
    yield "int", 5


PASSED_THROUGH = {
    "burst-opaque": ("number_of_overlap_lines_with_adjacent_bursts", OPAQUE),
    "burst-tuple": ("number_of_burst_data", TUPLE),
    "burst-lists": ("number_of_burst_data", FILLED_LIST),
    "interleaving-filled-list": ("interleaving_id", FILLED_LIST),
    "interleaving-opaque": ("interleaving_id", OPAQUE),
}


def describe(value):
    return (type(value).__qualname__, repr(value))


def run_extract(name, header):
    before = copy.deepcopy(header)
    try:
        result = metadata.extract_attrs(header)
    except Exception as e:  # noqa: BLE001
        outcome = {"error": f"{type(e).__name__}: {e}"}
    else:
        outcome = {
            "type": type(result).__name__,
            "items": [(describe(k), describe(v)) for k, v in result.items()],
            "is-new-object": result is not header,
        }
        if name in PASSED_THROUGH:
            key, obj = PASSED_THROUGH[name]
            outcome["same-object"] = result[key] is obj
    outcome["input-untouched"] = repr(before) == repr(header)
    return outcome


def canonical_group(group):
    return {
        "path": group.path,
        "url": group.url,
        "attrs": [(k, describe(v)) for k, v in group.attrs.items()],
        "variables": [
            (k, v.dims, describe(v.data), list(v.attrs.items())) for k, v in group.variables.items()
        ],
        "groups": [(k, canonical_group(v)) for k, v in group.groups.items()],
    }


def transform_cases():
    lines = [
        {"scan_id": 1, "sar_image_data_line_number": 1, "data": {"start": 5, "stop": 21}},
        {"scan_id": 1, "sar_image_data_line_number": 2, "data": {"start": 25, "stop": 41}},
    ]
    for name in ("parsed-all-blank", "parsed-level15", "parsed-specan", "parsed-everything"):
        header = dict(header_cases())[name]
        yield f"transform-{name}", header, lines
    broken = make_descriptor(sar_data_format_type_code="F*4", maximum_data_range_of_pixel=3)
    yield "transform-unknown-type-code", broken, lines
    hand = {
        "prefix_suffix_data_locators": {
            "sar_data_format_type_code": "C*8",
            "maximum_data_range_of_pixel": "oops",
        },
        "sar_related_data_in_the_record": {
            "number_of_lines_per_dataset": 2,
            "number_of_data_groups_per_line": 3,
        },
    }
    yield "transform-bad-range", hand, lines


def collect():
    outcomes = {}
    for name, header in header_cases():
        outcomes[name] = run_extract(name, header)
    # same input twice: no state is kept between calls
    first = run_extract("parsed-everything", dict(header_cases())["parsed-everything"])
    outcomes["repeatable"] = first == outcomes["parsed-everything"]

    for name, header, lines in transform_cases():
        try:
            group, array_metadata = metadata.transform_metadata(header, copy.deepcopy(lines))
        except Exception as e:  # noqa: BLE001
            outcomes[name] = {"error": f"{type(e).__name__}: {e}"}
        else:
            outcomes[name] = {"group": canonical_group(group), "array_metadata": array_metadata}
    return outcomes


# recorded with the unchanged code: `equiv.py --record`
# >>> EXPECTED
# fmt: off
EXPECTED = {'parsed-all-blank': {'type': 'dict', 'items': [(('str', "'interleaving_id'"), ('str', "''"))], 'is-new-object': True, 'input-untouched': True},
 'parsed-level15': {'type': 'dict',
                    'items': [(('str', "'interleaving_id'"), ('str', "'BSQ'")), (('str', "'valid_range'"), ('list', '[0, 65535]'))],
                    'is-new-object': True,
                    'input-untouched': True},
 'parsed-range-zero': {'type': 'dict',
                       'items': [(('str', "'interleaving_id'"), ('str', "'BSQ'")), (('str', "'valid_range'"), ('list', '[0, 0]'))],
                       'is-new-object': True,
                       'input-untouched': True},
 'parsed-range-negative': {'type': 'dict',
                           'items': [(('str', "'interleaving_id'"), ('str', "''")), (('str', "'valid_range'"), ('list', '[0, -5]'))],
                           'is-new-object': True,
                           'input-untouched': True},
 'parsed-range-minus-one': {'type': 'dict', 'items': [(('str', "'interleaving_id'"), ('str', "''"))], 'is-new-object': True, 'input-untouched': True},
 'parsed-specan': {'type': 'dict',
                   'items': [(('str', "'interleaving_id'"), ('str', "'BSQ'")), (('str', "'number_of_burst_data'"), ('int', '120')),
                             (('str', "'number_of_lines_per_burst'"), ('int', '48')),
                             (('str', "'number_of_overlap_lines_with_adjacent_bursts'"), ('int', '7'))],
                   'is-new-object': True,
                   'input-untouched': True},
 'parsed-specan-zeros': {'type': 'dict',
                         'items': [(('str', "'interleaving_id'"), ('str', "''")), (('str', "'number_of_burst_data'"), ('int', '0')),
                                   (('str', "'number_of_lines_per_burst'"), ('int', '0')),
                                   (('str', "'number_of_overlap_lines_with_adjacent_bursts'"), ('int', '0'))],
                         'is-new-object': True,
                         'input-untouched': True},
 'parsed-everything': {'type': 'dict',
                       'items': [(('str', "'interleaving_id'"), ('str', "'BIL'")), (('str', "'valid_range'"), ('list', '[0, 255]')),
                                 (('str', "'number_of_burst_data'"), ('int', '1')), (('str', "'number_of_lines_per_burst'"), ('int', '2')),
                                 (('str', "'number_of_overlap_lines_with_adjacent_bursts'"), ('int', '3'))],
                       'is-new-object': True,
                       'input-untouched': True},
 'parsed-partly-unset': {'type': 'dict',
                         'items': [(('str', "'interleaving_id'"), ('str', "'BSQ'")), (('str', "'number_of_burst_data'"), ('int', '5'))],
                         'is-new-object': True,
                         'input-untouched': True},
 'empty': {'type': 'dict', 'items': [], 'is-new-object': True, 'input-untouched': True},
 'preamble-only': {'type': 'dict', 'items': [], 'is-new-object': True, 'input-untouched': True},
 'preamble-with-known-name': {'type': 'dict', 'items': [], 'is-new-object': True, 'input-untouched': True},
 'unknown-only': {'type': 'dict', 'items': [], 'is-new-object': True, 'input-untouched': True},
 'flat-known': {'type': 'dict',
                'items': [(('str', "'interleaving_id'"), ('str', "'BSQ'")), (('str', "'number_of_burst_data'"), ('int', '5')),
                          (('str', "'number_of_lines_per_burst'"), ('int', '1')), (('str', "'number_of_overlap_lines_with_adjacent_bursts'"), ('int', '3'))],
                'is-new-object': True,
                'input-untouched': True},
 'flat-known-reversed': {'type': 'dict',
                         'items': [(('str', "'number_of_overlap_lines_with_adjacent_bursts'"), ('int', '3')),
                                   (('str', "'number_of_lines_per_burst'"), ('int', '1')), (('str', "'number_of_burst_data'"), ('int', '5')),
                                   (('str', "'valid_range'"), ('list', '[0, 27]')), (('str', "'interleaving_id'"), ('str', "'BSQ'"))],
                         'is-new-object': True,
                         'input-untouched': True},
 'all-unset': {'type': 'dict', 'items': [(('str', "'interleaving_id'"), ('int', '-1'))], 'is-new-object': True, 'input-untouched': True},
 'unset-as-float': {'type': 'dict', 'items': [], 'is-new-object': True, 'input-untouched': True},
 'range-int': {'type': 'dict', 'items': [(('str', "'valid_range'"), ('list', '[0, 27]'))], 'is-new-object': True, 'input-untouched': True},
 'range-zero': {'type': 'dict', 'items': [(('str', "'valid_range'"), ('list', '[0, 0]'))], 'is-new-object': True, 'input-untouched': True},
 'range-float': {'type': 'dict', 'items': [(('str', "'valid_range'"), ('list', '[0, 2.5]'))], 'is-new-object': True, 'input-untouched': True},
 'range-nan': {'type': 'dict', 'items': [], 'is-new-object': True, 'input-untouched': True},
 'range-inf': {'type': 'dict', 'items': [(('str', "'valid_range'"), ('list', '[0, inf]'))], 'is-new-object': True, 'input-untouched': True},
 'range-bool': {'type': 'dict', 'items': [(('str', "'valid_range'"), ('list', '[0, True]'))], 'is-new-object': True, 'input-untouched': True},
 'range-numpy': {'type': 'dict', 'items': [(('str', "'valid_range'"), ('list', '[0, np.float32(7.0)]'))], 'is-new-object': True, 'input-untouched': True},
 'range-numpy-nan': {'type': 'dict', 'items': [], 'is-new-object': True, 'input-untouched': True},
 'range-str': {'error': 'TypeError: must be real number, not str', 'input-untouched': True},
 'range-none': {'error': 'TypeError: must be real number, not NoneType', 'input-untouched': True},
 'range-list': {'error': 'TypeError: must be real number, not list', 'input-untouched': True},
 'range-array': {'error': 'ValueError: The truth value of an array with more than one element is ambiguous. Use a.any() or a.all()', 'input-untouched': True},
 'range-complex': {'error': 'TypeError: must be real number, not complex', 'input-untouched': True},
 'burst-nan': {'type': 'dict', 'items': [(('str', "'number_of_burst_data'"), ('float', 'nan'))], 'is-new-object': True, 'input-untouched': True},
 'burst-none': {'type': 'dict', 'items': [(('str', "'number_of_burst_data'"), ('NoneType', 'None'))], 'is-new-object': True, 'input-untouched': True},
 'burst-str': {'type': 'dict', 'items': [(('str', "'number_of_burst_data'"), ('str', "'-1'"))], 'is-new-object': True, 'input-untouched': True},
 'burst-empty-str': {'type': 'dict', 'items': [(('str', "'number_of_burst_data'"), ('str', "''"))], 'is-new-object': True, 'input-untouched': True},
 'burst-zero': {'type': 'dict',
                'items': [(('str', "'number_of_burst_data'"), ('int', '0')), (('str', "'number_of_lines_per_burst'"), ('float', '0.0'))],
                'is-new-object': True,
                'input-untouched': True},
 'burst-array': {'error': 'ValueError: The truth value of an array with more than one element is ambiguous. Use a.any() or a.all()', 'input-untouched': True},
 'burst-opaque': {'type': 'dict',
                  'items': [(('str', "'number_of_overlap_lines_with_adjacent_bursts'"), ('Opaque', '<opaque>'))],
                  'is-new-object': True,
                  'same-object': True,
                  'input-untouched': True},
 'burst-tuple': {'type': 'dict',
                 'items': [(('str', "'number_of_burst_data'"), ('tuple', '(1, 2)')), (('str', "'number_of_lines_per_burst'"), ('tuple', '()'))],
                 'is-new-object': True,
                 'same-object': True,
                 'input-untouched': True},
 'burst-lists': {'type': 'dict',
                 'items': [(('str', "'number_of_burst_data'"), ('list', '[3, 4]'))],
                 'is-new-object': True,
                 'same-object': True,
                 'input-untouched': True},
 'interleaving-variants': {'type': 'dict', 'items': [(('str', "'interleaving_id'"), ('str', "''"))], 'is-new-object': True, 'input-untouched': True},
 'interleaving-list': {'type': 'dict', 'items': [], 'is-new-object': True, 'input-untouched': True},
 'interleaving-filled-list': {'type': 'dict',
                              'items': [(('str', "'interleaving_id'"), ('list', '[3, 4]'))],
                              'is-new-object': True,
                              'same-object': True,
                              'input-untouched': True},
 'interleaving-none': {'type': 'dict', 'items': [(('str', "'interleaving_id'"), ('NoneType', 'None'))], 'is-new-object': True, 'input-untouched': True},
 'interleaving-opaque': {'type': 'dict',
                         'items': [(('str', "'interleaving_id'"), ('Opaque', '<opaque>'))],
                         'is-new-object': True,
                         'same-object': True,
                         'input-untouched': True},
 'nested-known': {'type': 'dict',
                  'items': [(('str', "'interleaving_id'"), ('str', "'BSQ'")), (('str', "'number_of_burst_data'"), ('int', '4')),
                            (('str', "'valid_range'"), ('list', '[0, 9]'))],
                  'is-new-object': True,
                  'input-untouched': True},
 'nested-twice': {'type': 'dict', 'items': [(('str', "'number_of_burst_data'"), ('int', '2'))], 'is-new-object': True, 'input-untouched': True},
 'nested-empty': {'type': 'dict', 'items': [(('str', "'interleaving_id'"), ('str', "'BIP'"))], 'is-new-object': True, 'input-untouched': True},
 'collision-nested-nested': {'type': 'dict',
                             'items': [(('str', "'number_of_burst_data'"), ('int', '2')), (('str', "'interleaving_id'"), ('str', "'last'")),
                                       (('str', "'number_of_lines_per_burst'"), ('int', '5'))],
                             'is-new-object': True,
                             'input-untouched': True},
 'collision-top-then-nested': {'type': 'dict', 'items': [], 'is-new-object': True, 'input-untouched': True},
 'collision-nested-then-top': {'type': 'dict', 'items': [(('str', "'number_of_burst_data'"), ('int', '1'))], 'is-new-object': True, 'input-untouched': True},
 'collision-with-translation': {'type': 'dict',
                                'items': [(('str', "'valid_range'"), ('list', '[0, 3]')), (('str', "'interleaving_id'"), ('str', "'x'"))],
                                'is-new-object': True,
                                'input-untouched': True},
 'section-named-like-attr': {'type': 'dict', 'items': [(('str', "'number_of_burst_data'"), ('int', '3'))], 'is-new-object': True, 'input-untouched': True},
 'preamble-not-a-dict': {'type': 'dict', 'items': [(('str', "'interleaving_id'"), ('str', "'BSQ'"))], 'is-new-object': True, 'input-untouched': True},
 'odd-keys': {'type': 'dict', 'items': [(('str', "'number_of_burst_data'"), ('int', '6'))], 'is-new-object': True, 'input-untouched': True},
 'dates-and-bytes': {'type': 'dict',
                     'items': [(('str', "'interleaving_id'"), ('bytes', "b'BSQ'")), (('str', "'number_of_burst_data'"), ('date', 'datetime.date(2020, 1, 1)'))],
                     'is-new-object': True,
                     'input-untouched': True},
 'none': {'error': "AttributeError: 'NoneType' object has no attribute 'items'", 'input-untouched': True},
 'list': {'error': "AttributeError: 'list' object has no attribute 'items'", 'input-untouched': True},
 'string': {'error': "AttributeError: 'str' object has no attribute 'items'", 'input-untouched': True},
 'int': {'error': "AttributeError: 'int' object has no attribute 'items'", 'input-untouched': True},
 'repeatable': True,
 'transform-parsed-all-blank': {'group': {'path': '/',
                                          'url': None,
                                          'attrs': [('scan_id', ('int', '1')), ('interleaving_id', ('str', "''")), ('coordinates', ('list', "['rows']"))],
                                          'variables': [('rows', ['rows'], ('list', '[1, 2]'), [])],
                                          'groups': []},
                                'array_metadata': {'type_code': 'IU2', 'shape': (3, 4), 'dtype': 'uint16', 'byte_ranges': [(5, 21), (25, 41)]}},
 'transform-parsed-level15': {'group': {'path': '/',
                                        'url': None,
                                        'attrs': [('scan_id', ('int', '1')), ('interleaving_id', ('str', "'BSQ'")), ('valid_range', ('list', '[0, 65535]')),
                                                  ('coordinates', ('list', "['rows']"))],
                                        'variables': [('rows', ['rows'], ('list', '[1, 2]'), [])],
                                        'groups': []},
                              'array_metadata': {'type_code': 'IU2', 'shape': (3, 4), 'dtype': 'uint16', 'byte_ranges': [(5, 21), (25, 41)]}},
 'transform-parsed-specan': {'group': {'path': '/',
                                       'url': None,
                                       'attrs': [('scan_id', ('int', '1')), ('interleaving_id', ('str', "'BSQ'")), ('number_of_burst_data', ('int', '120')),
                                                 ('number_of_lines_per_burst', ('int', '48')), ('number_of_overlap_lines_with_adjacent_bursts', ('int', '7')),
                                                 ('coordinates', ('list', "['rows']"))],
                                       'variables': [('rows', ['rows'], ('list', '[1, 2]'), [])],
                                       'groups': []},
                             'array_metadata': {'type_code': 'IU2', 'shape': (3, 4), 'dtype': 'uint16', 'byte_ranges': [(5, 21), (25, 41)]}},
 'transform-parsed-everything': {'group': {'path': '/',
                                           'url': None,
                                           'attrs': [('scan_id', ('int', '1')), ('interleaving_id', ('str', "'BIL'")), ('valid_range', ('list', '[0, 255]')),
                                                     ('number_of_burst_data', ('int', '1')), ('number_of_lines_per_burst', ('int', '2')),
                                                     ('number_of_overlap_lines_with_adjacent_bursts', ('int', '3')), ('coordinates', ('list', "['rows']"))],
                                           'variables': [('rows', ['rows'], ('list', '[1, 2]'), [])],
                                           'groups': []},
                                 'array_metadata': {'type_code': 'IU2', 'shape': (3, 4), 'dtype': 'uint16', 'byte_ranges': [(5, 21), (25, 41)]}},
 'transform-unknown-type-code': {'error': 'ValueError: unknown type code: F*4'},
 'transform-bad-range': {'error': 'TypeError: must be real number, not str'}}
# fmt: on
# <<< EXPECTED


def compare():
    actual = collect()
    failures = []
    if list(actual) != list(EXPECTED):
        failures.append(("<case names>", list(EXPECTED), list(actual)))
    for name, expected in EXPECTED.items():
        if actual.get(name) != expected:
            failures.append((name, expected, actual.get(name)))
    return actual, failures


def test_equivalence():
    _, failures = compare()
    assert not failures, pprint.pformat(failures)


if __name__ == "__main__":
    if "--record" in sys.argv:
        print(
            "EXPECTED = " + pprint.pformat(collect(), width=160, compact=True, sort_dicts=False)
        )
        raise SystemExit(0)

    actual, failures = compare()
    for name, expected, got in failures:
        print(f"MISMATCH {name}\n  expected: {expected}\n  actual:   {got}")
    n_errors = sum(isinstance(o, dict) and "error" in o for o in actual.values())
    print(
        f"{metadata.__file__}: {len(actual)} cases ({n_errors} raising),"
        f" {len(failures)} mismatches"
    )
    raise SystemExit(1 if failures else 0)
