"""Equivalence check for refactoring 1 (ceos_alos2.array.Array as a plain class).

Run as

    cd /tmp/wt5/e32 && PYTHONPATH=/tmp/wt5/e32 /venv/bin/python _eq/1/equiv.py

The expected values in ``EXPECTED`` were recorded from the unchanged code (HEAD) using
``equiv.py --record``. The script must pass both with and without ``patch.diff`` applied.
"""

import copy
import pickle
import pprint
import sys

import fsspec
import numpy as np
from fsspec.implementations.dirfs import DirFileSystem

from ceos_alos2.array import Array
from ceos_alos2.hierarchy import Variable

fs = DirFileSystem(fs=fsspec.filesystem("memory"), path="/a")
other_fs = DirFileSystem(fs=fsspec.filesystem("memory"), path="/b")
byte_ranges = [(20, 60), (80, 120), (140, 180), (200, 240), (260, 300)]


def make(**overrides):
    kwargs = {
        "fs": fs,
        "url": "img",
        "byte_ranges": byte_ranges,
        "shape": (5, 20),
        "dtype": "uint16",
        "type_code": "IU2",
    }
    kwargs.update(overrides)
    return Array(**kwargs)


def describe(value):
    if isinstance(value, Array):
        return (
            "Array",
            type(value).__name__,
            repr(value),
            ",".join(vars(value)),
            repr(value.records_per_chunk),
            type(value.records_per_chunk).__name__,
            repr(value.chunk_offsets),
            value.ndim,
            repr(value.chunks),
            value.fs is fs,
            value.byte_ranges is byte_ranges,
        )
    return repr(value)


def outcome(func):
    try:
        return ("ok", describe(func()))
    except Exception as e:  # noqa: BLE001
        return ("raise", type(e).__name__, str(e))


class Sub(Array):
    pass


def match_positional(arr):
    match arr:
        case Array(f, url, ranges, shape, dtype, type_code, rpc):
            return (f is fs, url, ranges is byte_ranges, shape, dtype, type_code, rpc)
    return "no match"


def match_keywords(arr):
    match arr:
        case Array(url="img", shape=(rows, _), records_per_chunk=rpc, chunk_offsets=offsets):
            return (rows, rpc, offsets)
    return "no match"


def roundtrips(arr):
    pickled = pickle.loads(pickle.dumps(arr))
    shallow = copy.copy(arr)
    deep = copy.deepcopy(arr)
    return [
        (
            type(new) is Array,
            new == arr,
            arr == new,
            vars(new) == vars(arr),
            ",".join(vars(new)),
            repr(new),
            new.byte_ranges is arr.byte_ranges,
        )
        for new in (pickled, shallow, deep)
    ]


def eq_matrix():
    base = make(records_per_chunk=2)
    others = {
        "same": make(records_per_chunk=2),
        "fs": make(fs=other_fs, records_per_chunk=2),
        "url": make(url="img2", records_per_chunk=2),
        "byte_ranges": make(byte_ranges=[(0, 40)] + byte_ranges[1:], records_per_chunk=2),
        "byte_ranges-tuple": make(byte_ranges=tuple(byte_ranges), records_per_chunk=2),
        "shape": make(shape=(5, 10), records_per_chunk=2),
        "shape-list": make(shape=[5, 20], records_per_chunk=2),
        "dtype": make(dtype="int16", records_per_chunk=2),
        "dtype-obj": make(dtype=np.dtype("uint16"), records_per_chunk=2),
        "type_code": make(type_code="C*8", records_per_chunk=2),
        "rpc": make(records_per_chunk=3),
        "rpc-normalized": make(records_per_chunk=np.int64(2)),
        "rpc-80B": make(records_per_chunk="80B"),
        "subclass": Sub(fs, "img", byte_ranges, (5, 20), "uint16", "IU2", 2),
        "int": 1,
        "none": None,
        "tuple": (fs, "img"),
    }
    return {
        name: (base == other, other == base, base != other) for name, other in others.items()
    }


def variable_interplay():
    arr = make(records_per_chunk=2)
    var = Variable(["rows", "cols"], arr, {"a": 1})
    same = Variable(["rows", "cols"], make(records_per_chunk=2), {"a": 1})
    different = Variable(["rows", "cols"], make(records_per_chunk=4), {"a": 1})
    return (var.chunks, var.sizes, var.ndim, var.shape, var.dtype, var == same, var == different)


CASES = {
    # records_per_chunk resolution
    "rpc-omitted": lambda: make(),
    "rpc-None": lambda: make(records_per_chunk=None),
    "rpc-auto": lambda: make(records_per_chunk="auto"),
    "rpc-80B": lambda: make(records_per_chunk="80B"),
    "rpc-100B": lambda: make(records_per_chunk="100B"),
    "rpc-139B": lambda: make(records_per_chunk="139B"),
    "rpc-1kB": lambda: make(records_per_chunk="1kB"),
    "rpc-1KiB": lambda: make(records_per_chunk="1KiB"),
    "rpc-0B": lambda: make(records_per_chunk="0B"),
    "rpc-m1": lambda: make(records_per_chunk=-1),
    "rpc-1": lambda: make(records_per_chunk=1),
    "rpc-2": lambda: make(records_per_chunk=2),
    "rpc-3": lambda: make(records_per_chunk=3),
    "rpc-5": lambda: make(records_per_chunk=5),
    "rpc-7": lambda: make(records_per_chunk=7),
    "rpc-1024": lambda: make(records_per_chunk=1024),
    "rpc-True": lambda: make(records_per_chunk=True),
    "rpc-np.int64": lambda: make(records_per_chunk=np.int64(2)),
    "rpc-np.int64-big": lambda: make(records_per_chunk=np.int64(9)),
    "rpc-float": lambda: make(records_per_chunk=2.0),
    "rpc-0": lambda: make(records_per_chunk=0),
    "rpc-m2": lambda: make(records_per_chunk=-2),
    "rpc-list": lambda: make(records_per_chunk=[1]),
    "rpc-bad-string": lambda: make(records_per_chunk="abc"),
    "rpc-bad-unit": lambda: make(records_per_chunk="12 potatoes"),
    "rpc-empty-string": lambda: make(records_per_chunk=""),
    "rpc-bytes": lambda: make(records_per_chunk=b"80B"),
    # other fields
    "dtype-obj": lambda: make(dtype=np.dtype("complex64"), type_code="C*8"),
    "shape-list": lambda: make(shape=[5, 20], records_per_chunk="auto"),
    "shape-1d": lambda: make(shape=(5,), records_per_chunk=4),
    "shape-3d": lambda: make(shape=(5, 4, 5), records_per_chunk=4),
    "shape-short": lambda: make(shape=(3, 20), records_per_chunk=4),
    "shape-empty-None": lambda: make(shape=()),
    "shape-empty-int": lambda: make(shape=(), records_per_chunk=2),
    "shape-empty-auto": lambda: make(shape=(), records_per_chunk="auto"),
    "shape-None-None": lambda: make(shape=None),
    "shape-None-int": lambda: make(shape=None, records_per_chunk=2),
    "ranges-empty": lambda: make(byte_ranges=[]),
    "ranges-empty-int": lambda: make(byte_ranges=[], records_per_chunk=2),
    "ranges-empty-auto": lambda: make(byte_ranges=[], records_per_chunk="auto"),
    "ranges-tuple": lambda: make(byte_ranges=tuple(byte_ranges), records_per_chunk=2),
    "ranges-lists": lambda: make(byte_ranges=[[0, 10], [10, 25]], records_per_chunk=1),
    "ranges-triples-None": lambda: make(byte_ranges=[(0, 1, 2)]),
    "ranges-triples-int": lambda: make(byte_ranges=[(0, 1, 2)], records_per_chunk=2),
    "ranges-triples-bad-string": lambda: make(byte_ranges=[(0, 1, 2)], records_per_chunk="abc"),
    "ranges-strings": lambda: make(byte_ranges=[(0, "a")], records_per_chunk=2),
    "ranges-None": lambda: make(byte_ranges=None),
    "ranges-generator": lambda: make(byte_ranges=iter(byte_ranges), records_per_chunk=2),
    # signature
    "positional": lambda: Array(fs, "img", byte_ranges, (5, 20), "uint16", "IU2", 2),
    "positional-default": lambda: Array(fs, "img", byte_ranges, (5, 20), "uint16", "IU2"),
    "mixed": lambda: Array(fs, "img", byte_ranges, type_code="IU2", dtype="uint16", shape=(5, 20)),
    "no-args": lambda: Array(),
    "missing-args": lambda: Array(fs, "img"),
    "missing-type_code": lambda: Array(fs, "img", byte_ranges, (5, 20), "uint16"),
    "missing-keyword": lambda: Array(fs=fs, url="img", shape=(5, 20), dtype="u2", type_code="IU2"),
    "too-many": lambda: Array(fs, "img", byte_ranges, (5, 20), "uint16", "IU2", 2, 3),
    "unknown-keyword": lambda: make(bogus=1),
    "chunk_offsets-keyword": lambda: make(chunk_offsets={}),
    "duplicate": lambda: Array(fs, "img", byte_ranges, (5, 20), "uint16", "IU2", url="b"),
    "subclass": lambda: Sub(fs, "img", byte_ranges, (5, 20), "uint16", "IU2"),
    # repr / str
    "repr": lambda: repr(make(records_per_chunk=2)),
    "str": lambda: str(make(url="a'b", dtype=np.dtype(">c8"), records_per_chunk="auto")),
    "format": lambda: f"{make(records_per_chunk=-1)} / {make(records_per_chunk=-1)!s:>80}",
    "repr-in-list": lambda: repr([make(), Sub(fs, "x", byte_ranges, (5, 20), "u2", "IU2", 1)]),
    # hash
    "hash": lambda: hash(make()),
    "hash-tuple-ranges": lambda: hash(make(byte_ranges=tuple(byte_ranges))),
    "hash-list-shape": lambda: hash(make(byte_ranges=tuple(byte_ranges), shape=[5, 20])),
    "hash-unhashable-fs": lambda: hash(make(fs=[fs])),
    "set": lambda: {make()},
    "dict-key": lambda: {make(): 1},
    "hashable": lambda: Array.__hash__ is not None and callable(Array.__hash__),
    # comparison
    "eq": eq_matrix,
    "lt": lambda: make() < make(),
    "ge": lambda: make() >= make(),
    # copying / matching
    "roundtrips": lambda: roundtrips(make(records_per_chunk="80B")),
    "match-positional": lambda: match_positional(make(records_per_chunk=2)),
    "match-keywords": lambda: match_keywords(make(records_per_chunk=2)),
    "match-sub": lambda: match_positional(Sub(fs, "img", byte_ranges, (5, 20), "u2", "IU2", 3)),
    # attributes
    "mutable": lambda: [setattr(a := make(), "url", "new"), a.url, repr(a)][1:],
    "new-attr": lambda: [setattr(a := make(), "extra", 1), list(vars(a))][1:],
    "doc": lambda: Array.__doc__,
    "names": lambda: (Array.__name__, Array.__qualname__, Array.__module__),
    "mro": lambda: [cls.__name__ for cls in Array.__mro__],
    "properties": lambda: (type(Array.ndim).__name__, type(Array.chunks).__name__),
    "variable": variable_interplay,
}

EXPECTED = {'rpc-omitted': ('ok',
                 ('Array', 'Array',
                  "Array(url='img', shape=(5, 20), dtype='uint16', records_per_chunk=1024)",
                  'fs,url,byte_ranges,shape,dtype,type_code,records_per_chunk,chunk_offsets',
                  '1024', 'int', "{0: {'offset': 20, 'size': 280}}", 2, '(1024, 20)', True, True)),
 'rpc-None': ('ok',
              ('Array', 'Array',
               "Array(url='img', shape=(5, 20), dtype='uint16', records_per_chunk=1024)",
               'fs,url,byte_ranges,shape,dtype,type_code,records_per_chunk,chunk_offsets', '1024',
               'int', "{0: {'offset': 20, 'size': 280}}", 2, '(1024, 20)', True, True)),
 'rpc-auto': ('ok',
              ('Array', 'Array',
               "Array(url='img', shape=(5, 20), dtype='uint16', records_per_chunk=np.int64(5))",
               'fs,url,byte_ranges,shape,dtype,type_code,records_per_chunk,chunk_offsets',
               'np.int64(5)', 'int64', "{0: {'offset': 20, 'size': 280}}", 2, '(np.int64(5), 20)',
               True, True)),
 'rpc-80B': ('ok',
             ('Array', 'Array',
              "Array(url='img', shape=(5, 20), dtype='uint16', records_per_chunk=np.int64(2))",
              'fs,url,byte_ranges,shape,dtype,type_code,records_per_chunk,chunk_offsets',
              'np.int64(2)', 'int64',
              "{0: {'offset': 20, 'size': 100}, 1: {'offset': 140, 'size': 100}, 2: {'offset': "
              "260, 'size': 40}}",
              2, '(np.int64(2), 20)', True, True)),
 'rpc-100B': ('ok',
              ('Array', 'Array',
               "Array(url='img', shape=(5, 20), dtype='uint16', records_per_chunk=np.int64(2))",
               'fs,url,byte_ranges,shape,dtype,type_code,records_per_chunk,chunk_offsets',
               'np.int64(2)', 'int64',
               "{0: {'offset': 20, 'size': 100}, 1: {'offset': 140, 'size': 100}, 2: {'offset': "
               "260, 'size': 40}}",
               2, '(np.int64(2), 20)', True, True)),
 'rpc-139B': ('ok',
              ('Array', 'Array',
               "Array(url='img', shape=(5, 20), dtype='uint16', records_per_chunk=np.int64(3))",
               'fs,url,byte_ranges,shape,dtype,type_code,records_per_chunk,chunk_offsets',
               'np.int64(3)', 'int64',
               "{0: {'offset': 20, 'size': 160}, 1: {'offset': 200, 'size': 100}}", 2,
               '(np.int64(3), 20)', True, True)),
 'rpc-1kB': ('ok',
             ('Array', 'Array',
              "Array(url='img', shape=(5, 20), dtype='uint16', records_per_chunk=np.int64(5))",
              'fs,url,byte_ranges,shape,dtype,type_code,records_per_chunk,chunk_offsets',
              'np.int64(5)', 'int64', "{0: {'offset': 20, 'size': 280}}", 2, '(np.int64(5), 20)',
              True, True)),
 'rpc-1KiB': ('ok',
              ('Array', 'Array',
               "Array(url='img', shape=(5, 20), dtype='uint16', records_per_chunk=np.int64(5))",
               'fs,url,byte_ranges,shape,dtype,type_code,records_per_chunk,chunk_offsets',
               'np.int64(5)', 'int64', "{0: {'offset': 20, 'size': 280}}", 2, '(np.int64(5), 20)',
               True, True)),
 'rpc-0B': ('ok',
            ('Array', 'Array',
             "Array(url='img', shape=(5, 20), dtype='uint16', records_per_chunk=np.int64(1))",
             'fs,url,byte_ranges,shape,dtype,type_code,records_per_chunk,chunk_offsets',
             'np.int64(1)', 'int64',
             "{0: {'offset': 20, 'size': 40}, 1: {'offset': 80, 'size': 40}, 2: {'offset': 140, "
             "'size': 40}, 3: {'offset': 200, 'size': 40}, 4: {'offset': 260, 'size': 40}}",
             2, '(np.int64(1), 20)', True, True)),
 'rpc-m1': ('ok',
            ('Array', 'Array',
             "Array(url='img', shape=(5, 20), dtype='uint16', records_per_chunk=5)",
             'fs,url,byte_ranges,shape,dtype,type_code,records_per_chunk,chunk_offsets', '5', 'int',
             "{0: {'offset': 20, 'size': 280}}", 2, '(5, 20)', True, True)),
 'rpc-1': ('ok',
           ('Array', 'Array',
            "Array(url='img', shape=(5, 20), dtype='uint16', records_per_chunk=1)",
            'fs,url,byte_ranges,shape,dtype,type_code,records_per_chunk,chunk_offsets', '1', 'int',
            "{0: {'offset': 20, 'size': 40}, 1: {'offset': 80, 'size': 40}, 2: {'offset': 140, "
            "'size': 40}, 3: {'offset': 200, 'size': 40}, 4: {'offset': 260, 'size': 40}}",
            2, '(1, 20)', True, True)),
 'rpc-2': ('ok',
           ('Array', 'Array',
            "Array(url='img', shape=(5, 20), dtype='uint16', records_per_chunk=2)",
            'fs,url,byte_ranges,shape,dtype,type_code,records_per_chunk,chunk_offsets', '2', 'int',
            "{0: {'offset': 20, 'size': 100}, 1: {'offset': 140, 'size': 100}, 2: {'offset': 260, "
            "'size': 40}}",
            2, '(2, 20)', True, True)),
 'rpc-3': ('ok',
           ('Array', 'Array',
            "Array(url='img', shape=(5, 20), dtype='uint16', records_per_chunk=3)",
            'fs,url,byte_ranges,shape,dtype,type_code,records_per_chunk,chunk_offsets', '3', 'int',
            "{0: {'offset': 20, 'size': 160}, 1: {'offset': 200, 'size': 100}}", 2, '(3, 20)', True,
            True)),
 'rpc-5': ('ok',
           ('Array', 'Array',
            "Array(url='img', shape=(5, 20), dtype='uint16', records_per_chunk=5)",
            'fs,url,byte_ranges,shape,dtype,type_code,records_per_chunk,chunk_offsets', '5', 'int',
            "{0: {'offset': 20, 'size': 280}}", 2, '(5, 20)', True, True)),
 'rpc-7': ('ok',
           ('Array', 'Array',
            "Array(url='img', shape=(5, 20), dtype='uint16', records_per_chunk=5)",
            'fs,url,byte_ranges,shape,dtype,type_code,records_per_chunk,chunk_offsets', '5', 'int',
            "{0: {'offset': 20, 'size': 280}}", 2, '(5, 20)', True, True)),
 'rpc-1024': ('ok',
              ('Array', 'Array',
               "Array(url='img', shape=(5, 20), dtype='uint16', records_per_chunk=5)",
               'fs,url,byte_ranges,shape,dtype,type_code,records_per_chunk,chunk_offsets', '5',
               'int', "{0: {'offset': 20, 'size': 280}}", 2, '(5, 20)', True, True)),
 'rpc-True': ('ok',
              ('Array', 'Array',
               "Array(url='img', shape=(5, 20), dtype='uint16', records_per_chunk=True)",
               'fs,url,byte_ranges,shape,dtype,type_code,records_per_chunk,chunk_offsets', 'True',
               'bool',
               "{0: {'offset': 20, 'size': 40}, 1: {'offset': 80, 'size': 40}, 2: {'offset': 140, "
               "'size': 40}, 3: {'offset': 200, 'size': 40}, 4: {'offset': 260, 'size': 40}}",
               2, '(True, 20)', True, True)),
 'rpc-np.int64': ('ok',
                  ('Array', 'Array',
                   "Array(url='img', shape=(5, 20), dtype='uint16', records_per_chunk=np.int64(2))",
                   'fs,url,byte_ranges,shape,dtype,type_code,records_per_chunk,chunk_offsets',
                   'np.int64(2)', 'int64',
                   "{0: {'offset': 20, 'size': 100}, 1: {'offset': 140, 'size': 100}, 2: "
                   "{'offset': 260, 'size': 40}}",
                   2, '(np.int64(2), 20)', True, True)),
 'rpc-np.int64-big': ('ok',
                      ('Array', 'Array',
                       "Array(url='img', shape=(5, 20), dtype='uint16', records_per_chunk=5)",
                       'fs,url,byte_ranges,shape,dtype,type_code,records_per_chunk,chunk_offsets',
                       '5', 'int', "{0: {'offset': 20, 'size': 280}}", 2, '(5, 20)', True, True)),
 'rpc-float': ('raise', 'TypeError', "can't multiply sequence by non-int of type 'float'"),
 'rpc-0': ('ok',
           ('Array', 'Array',
            "Array(url='img', shape=(5, 20), dtype='uint16', records_per_chunk=0)",
            'fs,url,byte_ranges,shape,dtype,type_code,records_per_chunk,chunk_offsets', '0', 'int',
            '{}', 2, '(0, 20)', True, True)),
 'rpc-m2': ('ok',
            ('Array', 'Array',
             "Array(url='img', shape=(5, 20), dtype='uint16', records_per_chunk=-2)",
             'fs,url,byte_ranges,shape,dtype,type_code,records_per_chunk,chunk_offsets', '-2',
             'int', '{}', 2, '(-2, 20)', True, True)),
 'rpc-list': ('raise', 'TypeError', "'>' not supported between instances of 'list' and 'int'"),
 'rpc-bad-string': ('raise', 'ValueError', "Could not interpret 'abc' as a byte unit"),
 'rpc-bad-unit': ('raise', 'ValueError', "Could not interpret 'potatoes' as a byte unit"),
 'rpc-empty-string': ('ok',
                      ('Array', 'Array',
                       "Array(url='img', shape=(5, 20), dtype='uint16', "
                       'records_per_chunk=np.int64(1))',
                       'fs,url,byte_ranges,shape,dtype,type_code,records_per_chunk,chunk_offsets',
                       'np.int64(1)', 'int64',
                       "{0: {'offset': 20, 'size': 40}, 1: {'offset': 80, 'size': 40}, 2: "
                       "{'offset': 140, 'size': 40}, 3: {'offset': 200, 'size': 40}, 4: {'offset': "
                       "260, 'size': 40}}",
                       2, '(np.int64(1), 20)', True, True)),
 'rpc-bytes': ('raise', 'TypeError', "'>' not supported between instances of 'bytes' and 'int'"),
 'dtype-obj': ('ok',
               ('Array', 'Array',
                "Array(url='img', shape=(5, 20), dtype=dtype('complex64'), records_per_chunk=1024)",
                'fs,url,byte_ranges,shape,dtype,type_code,records_per_chunk,chunk_offsets', '1024',
                'int', "{0: {'offset': 20, 'size': 280}}", 2, '(1024, 20)', True, True)),
 'shape-list': ('ok',
                ('Array', 'Array',
                 "Array(url='img', shape=[5, 20], dtype='uint16', records_per_chunk=np.int64(5))",
                 'fs,url,byte_ranges,shape,dtype,type_code,records_per_chunk,chunk_offsets',
                 'np.int64(5)', 'int64', "{0: {'offset': 20, 'size': 280}}", 2, '(np.int64(5), 20)',
                 True, True)),
 'shape-1d': ('ok',
              ('Array', 'Array',
               "Array(url='img', shape=(5,), dtype='uint16', records_per_chunk=4)",
               'fs,url,byte_ranges,shape,dtype,type_code,records_per_chunk,chunk_offsets', '4',
               'int', "{0: {'offset': 20, 'size': 220}, 1: {'offset': 260, 'size': 40}}", 1, '(4,)',
               True, True)),
 'shape-3d': ('ok',
              ('Array', 'Array',
               "Array(url='img', shape=(5, 4, 5), dtype='uint16', records_per_chunk=4)",
               'fs,url,byte_ranges,shape,dtype,type_code,records_per_chunk,chunk_offsets', '4',
               'int', "{0: {'offset': 20, 'size': 220}, 1: {'offset': 260, 'size': 40}}", 3,
               '(4, 4, 5)', True, True)),
 'shape-short': ('ok',
                 ('Array', 'Array',
                  "Array(url='img', shape=(3, 20), dtype='uint16', records_per_chunk=3)",
                  'fs,url,byte_ranges,shape,dtype,type_code,records_per_chunk,chunk_offsets', '3',
                  'int', "{0: {'offset': 20, 'size': 160}, 1: {'offset': 200, 'size': 100}}", 2,
                  '(3, 20)', True, True)),
 'shape-empty-None': ('ok',
                      ('Array', 'Array',
                       "Array(url='img', shape=(), dtype='uint16', records_per_chunk=1024)",
                       'fs,url,byte_ranges,shape,dtype,type_code,records_per_chunk,chunk_offsets',
                       '1024', 'int', "{0: {'offset': 20, 'size': 280}}", 0, '(1024,)', True,
                       True)),
 'shape-empty-int': ('raise', 'IndexError', 'tuple index out of range'),
 'shape-empty-auto': ('ok',
                      ('Array', 'Array',
                       "Array(url='img', shape=(), dtype='uint16', records_per_chunk=np.int64(5))",
                       'fs,url,byte_ranges,shape,dtype,type_code,records_per_chunk,chunk_offsets',
                       'np.int64(5)', 'int64', "{0: {'offset': 20, 'size': 280}}", 0,
                       '(np.int64(5),)', True, True)),
 'shape-None-None': ('raise', 'TypeError', "object of type 'NoneType' has no len()"),
 'shape-None-int': ('raise', 'TypeError', "'NoneType' object is not subscriptable"),
 'ranges-empty': ('ok',
                  ('Array', 'Array',
                   "Array(url='img', shape=(5, 20), dtype='uint16', records_per_chunk=1024)",
                   'fs,url,byte_ranges,shape,dtype,type_code,records_per_chunk,chunk_offsets',
                   '1024', 'int', '{}', 2, '(1024, 20)', True, False)),
 'ranges-empty-int': ('ok',
                      ('Array', 'Array',
                       "Array(url='img', shape=(5, 20), dtype='uint16', records_per_chunk=2)",
                       'fs,url,byte_ranges,shape,dtype,type_code,records_per_chunk,chunk_offsets',
                       '2', 'int', '{}', 2, '(2, 20)', True, False)),
 'ranges-empty-auto': ('raise', 'ValueError', 'attempt to get argmin of an empty sequence'),
 'ranges-tuple': ('ok',
                  ('Array', 'Array',
                   "Array(url='img', shape=(5, 20), dtype='uint16', records_per_chunk=2)",
                   'fs,url,byte_ranges,shape,dtype,type_code,records_per_chunk,chunk_offsets', '2',
                   'int',
                   "{0: {'offset': 20, 'size': 100}, 1: {'offset': 140, 'size': 100}, 2: "
                   "{'offset': 260, 'size': 40}}",
                   2, '(2, 20)', True, False)),
 'ranges-lists': ('ok',
                  ('Array', 'Array',
                   "Array(url='img', shape=(5, 20), dtype='uint16', records_per_chunk=1)",
                   'fs,url,byte_ranges,shape,dtype,type_code,records_per_chunk,chunk_offsets', '1',
                   'int', "{0: {'offset': 0, 'size': 10}, 1: {'offset': 10, 'size': 15}}", 2,
                   '(1, 20)', True, False)),
 'ranges-triples-None': ('raise', 'ValueError', 'too many values to unpack (expected 2)'),
 'ranges-triples-int': ('raise', 'ValueError', 'too many values to unpack (expected 2)'),
 'ranges-triples-bad-string': ('raise', 'ValueError', 'too many values to unpack (expected 2)'),
 'ranges-strings': ('raise', 'TypeError', "unsupported operand type(s) for -: 'str' and 'int'"),
 'ranges-None': ('raise', 'TypeError', "'NoneType' object is not iterable"),
 'ranges-generator': ('ok',
                      ('Array', 'Array',
                       "Array(url='img', shape=(5, 20), dtype='uint16', records_per_chunk=2)",
                       'fs,url,byte_ranges,shape,dtype,type_code,records_per_chunk,chunk_offsets',
                       '2', 'int', '{}', 2, '(2, 20)', True, False)),
 'positional': ('ok',
                ('Array', 'Array',
                 "Array(url='img', shape=(5, 20), dtype='uint16', records_per_chunk=2)",
                 'fs,url,byte_ranges,shape,dtype,type_code,records_per_chunk,chunk_offsets', '2',
                 'int',
                 "{0: {'offset': 20, 'size': 100}, 1: {'offset': 140, 'size': 100}, 2: {'offset': "
                 "260, 'size': 40}}",
                 2, '(2, 20)', True, True)),
 'positional-default': ('ok',
                        ('Array', 'Array',
                         "Array(url='img', shape=(5, 20), dtype='uint16', records_per_chunk=1024)",
                         'fs,url,byte_ranges,shape,dtype,type_code,records_per_chunk,chunk_offsets',
                         '1024', 'int', "{0: {'offset': 20, 'size': 280}}", 2, '(1024, 20)', True,
                         True)),
 'mixed': ('ok',
           ('Array', 'Array',
            "Array(url='img', shape=(5, 20), dtype='uint16', records_per_chunk=1024)",
            'fs,url,byte_ranges,shape,dtype,type_code,records_per_chunk,chunk_offsets', '1024',
            'int', "{0: {'offset': 20, 'size': 280}}", 2, '(1024, 20)', True, True)),
 'no-args': ('raise', 'TypeError',
             "Array.__init__() missing 6 required positional arguments: 'fs', 'url', "
             "'byte_ranges', 'shape', 'dtype', and 'type_code'"),
 'missing-args': ('raise', 'TypeError',
                  "Array.__init__() missing 4 required positional arguments: 'byte_ranges', "
                  "'shape', 'dtype', and 'type_code'"),
 'missing-type_code': ('raise', 'TypeError',
                       "Array.__init__() missing 1 required positional argument: 'type_code'"),
 'missing-keyword': ('raise', 'TypeError',
                     "Array.__init__() missing 1 required positional argument: 'byte_ranges'"),
 'too-many': ('raise', 'TypeError',
              'Array.__init__() takes from 7 to 8 positional arguments but 9 were given'),
 'unknown-keyword': ('raise', 'TypeError',
                     "Array.__init__() got an unexpected keyword argument 'bogus'"),
 'chunk_offsets-keyword': ('raise', 'TypeError',
                           "Array.__init__() got an unexpected keyword argument 'chunk_offsets'"),
 'duplicate': ('raise', 'TypeError', "Array.__init__() got multiple values for argument 'url'"),
 'subclass': ('ok',
              ('Array', 'Sub',
               "Sub(url='img', shape=(5, 20), dtype='uint16', records_per_chunk=1024)",
               'fs,url,byte_ranges,shape,dtype,type_code,records_per_chunk,chunk_offsets', '1024',
               'int', "{0: {'offset': 20, 'size': 280}}", 2, '(1024, 20)', True, True)),
 'repr': ('ok', '"Array(url=\'img\', shape=(5, 20), dtype=\'uint16\', records_per_chunk=2)"'),
 'str': ('ok',
         '\'Array(url="a\\\'b", shape=(5, 20), dtype=dtype(\\\'>c8\\\'), '
         "records_per_chunk=np.int64(5))'"),
 'format': ('ok',
            '"Array(url=\'img\', shape=(5, 20), dtype=\'uint16\', records_per_chunk=5) '
            "/             Array(url='img', shape=(5, 20), dtype='uint16', "
            'records_per_chunk=5)"'),
 'repr-in-list': ('ok',
                  '"[Array(url=\'img\', shape=(5, 20), dtype=\'uint16\', records_per_chunk=1024), '
                  'Sub(url=\'x\', shape=(5, 20), dtype=\'u2\', records_per_chunk=1)]"'),
 'hash': ('raise', 'TypeError', "unhashable type: 'list'"),
 'hash-tuple-ranges': ('raise', 'TypeError', "unhashable type: 'dict'"),
 'hash-list-shape': ('raise', 'TypeError', "unhashable type: 'list'"),
 'hash-unhashable-fs': ('raise', 'TypeError', "unhashable type: 'list'"),
 'set': ('raise', 'TypeError', "unhashable type: 'list'"),
 'dict-key': ('raise', 'TypeError', "unhashable type: 'list'"),
 'hashable': ('ok', 'True'),
 'eq': ('ok',
        "{'same': (True, True, False), 'fs': (False, False, True), 'url': (False, False, True), "
        "'byte_ranges': (False, False, True), 'byte_ranges-tuple': (False, False, True), 'shape': "
        "(False, False, True), 'shape-list': (False, False, True), 'dtype': (False, False, True), "
        "'dtype-obj': (True, True, False), 'type_code': (False, False, True), 'rpc': (False, "
        "False, True), 'rpc-normalized': (True, True, False), 'rpc-80B': (True, True, False), "
        "'subclass': (False, False, True), 'int': (False, False, True), 'none': (False, False, "
        "True), 'tuple': (False, False, True)}"),
 'lt': ('raise', 'TypeError', "'<' not supported between instances of 'Array' and 'Array'"),
 'ge': ('raise', 'TypeError', "'>=' not supported between instances of 'Array' and 'Array'"),
 'roundtrips': ('ok',
                '[(True, True, True, True, '
                "'fs,url,byte_ranges,shape,dtype,type_code,records_per_chunk,chunk_offsets', "
                '"Array(url=\'img\', shape=(5, 20), dtype=\'uint16\', '
                'records_per_chunk=np.int64(2))", False), (True, True, True, True, '
                "'fs,url,byte_ranges,shape,dtype,type_code,records_per_chunk,chunk_offsets', "
                '"Array(url=\'img\', shape=(5, 20), dtype=\'uint16\', '
                'records_per_chunk=np.int64(2))", True), (True, True, True, True, '
                "'fs,url,byte_ranges,shape,dtype,type_code,records_per_chunk,chunk_offsets', "
                '"Array(url=\'img\', shape=(5, 20), dtype=\'uint16\', '
                'records_per_chunk=np.int64(2))", False)]'),
 'match-positional': ('ok', "(True, 'img', True, (5, 20), 'uint16', 'IU2', 2)"),
 'match-keywords': ('ok',
                    "(5, 2, {0: {'offset': 20, 'size': 100}, 1: {'offset': 140, 'size': 100}, 2: "
                    "{'offset': 260, 'size': 40}})"),
 'match-sub': ('ok', "(True, 'img', True, (5, 20), 'u2', 'IU2', 3)"),
 'mutable': ('ok',
             '[\'new\', "Array(url=\'new\', shape=(5, 20), dtype=\'uint16\', '
             'records_per_chunk=1024)"]'),
 'new-attr': ('ok',
              "[['fs', 'url', 'byte_ranges', 'shape', 'dtype', 'type_code', 'records_per_chunk', "
              "'chunk_offsets', 'extra']]"),
 'doc': ('ok', "'2d array from chunked data'"),
 'names': ('ok', "('Array', 'Array', 'ceos_alos2.array')"),
 'mro': ('ok', "['Array', 'object']"),
 'properties': ('ok', "('property', 'property')"),
 'variable': ('ok',
              "({'rows': 2, 'cols': 20}, {'rows': 5, 'cols': 20}, 2, (5, 20), 'uint16', True, "
              'False)')}


def main(argv):
    results = {name: outcome(func) for name, func in CASES.items()}
    if "--record" in argv:
        pprint.pprint(results, width=100, sort_dicts=False, compact=True)
        return 0

    failures = []
    for name, actual in results.items():
        if name not in EXPECTED:
            failures.append(f"{name}: no expectation recorded")
        elif actual != EXPECTED[name]:
            failures.append(f"{name}:\n  expected {EXPECTED[name]!r}\n  actual   {actual!r}")

    if failures:
        print("\n".join(failures))
        print(f"FAILED: {len(failures)} of {len(results)} cases differ")
        return 1

    print(f"OK: {len(results)} cases identical to the recorded behaviour")
    return 0


if __name__ == "__main__":
    sys.exit(main(sys.argv[1:]))
