"""Equivalence check for refactoring 3 (ceos_alos2/sar_image/enums.py).

Run as ``python equiv.py`` or through pytest.  The expected values were recorded
from the unchanged code (HEAD) and must be reproduced with and without the patch.
"""

import struct

import construct
from construct import Int8ub, Int16ub, Int32ub, Int64ub, Struct

from ceos_alos2.sar_image import enums
from ceos_alos2.utils import to_dict


def outcome(func, *args, **kwargs):
    try:
        value = func(*args, **kwargs)
    except Exception as e:  # noqa: BLE001
        return f"raised {type(e).__module__}.{type(e).__qualname__}: {e}"
    return f"{type(value).__name__} {value!r}"


INTEGERS = {"Int8ub": Int8ub, "Int16ub": Int16ub, "Int32ub": Int32ub, "Int64ub": Int64ub}


def identify(con):
    for name, candidate in INTEGERS.items():
        if con is candidate:
            return name
    return repr(con)


class Unhashable:
    __hash__ = None

    def __repr__(self):
        return "Unhashable()"


SIZES = [
    1,
    2,
    4,
    8,
    0,
    3,
    5,
    6,
    7,
    9,
    16,
    -1,
    -8,
    2**64,
    1.0,
    2.0,
    4.0,
    8.0,
    2.5,
    float("nan"),
    float("inf"),
    True,
    False,
    2 + 0j,
    "1",
    "8",
    b"\x01",
    None,
    (1,),
    [1],
    {1},
    {1: 2},
    Unhashable(),
]

FLAG_DATA = [
    b"",
    b"\x00",
    b"\x01",
    b"\x0f",
    b"\xff",
    b"\x00\x00",
    b"\x00\x01",
    b"\x01\x00",
    b"\xff\xff",
    b"\x00\x00\x00",
    b"\x00\x00\x00\x00",
    b"\x00\x00\x00\x01",
    b"\x80\x00\x00\x00",
    b"\x00\x00\x00\x00\x00\x00\x00",
    b"\x00\x00\x00\x00\x00\x00\x00\x00",
    b"\x00\x00\x00\x00\x00\x00\x00\x01",
    b"\x80\x00\x00\x00\x00\x00\x00\x00",
    b"\x00\x00\x00\x00\x00\x00\x00\x00\x01",
]

FLAG_BUILD = [True, False, 0, 1, 2, 255, 256, 65535, 65536, 2**32 - 1, 2**32, 2**64 - 1, 2**64, -1]
FLAG_BUILD_ODD = [1.0, 0.5, "1", "a", None, b"\x01", [1]]

ENUM_NAMES = [
    "sar_channel_id",
    "sar_channel_code",
    "pulse_polarization",
    "chirp_type_designator",
    "platform_position_parameters_update",
]

BUILD_VALUES = [
    "L",
    "S",
    "C",
    "X",
    "KU",
    "KA",
    "l",
    "Ku",
    "K",
    "",
    "single_polarization",
    "dual_polarization",
    "full_polarization",
    "horizontal",
    "vertical",
    "linear_fm_chirp",
    "phase_modulators",
    "repeat",
    "update",
    0,
    1,
    2,
    3,
    4,
    5,
    6,
    7,
    65535,
    65536,
    -1,
    None,
    1.0,
]


def observe():
    observed = []

    # the dispatch table
    observed.append(("bases type", type(enums.Flag.bases).__name__))
    observed.append(
        (
            "bases items",
            [(type(k).__name__, k, identify(v)) for k, v in enums.Flag.bases.items()],
        )
    )
    observed.append(("Flag namespace", sorted(vars(enums.Flag))))
    observed.append(("Flag mro", [cls.__name__ for cls in enums.Flag.__mro__]))

    # construction
    for size in SIZES:

        def build(size=size):
            flag = enums.Flag(size)
            return (
                identify(flag.subcon),
                flag.sizeof(),
                flag.flagbuildnone,
                flag.name,
                sorted(vars(flag)),
            )

        observed.append(("Flag init", repr(size), outcome(build)))
    observed.append(("Flag init no args", outcome(enums.Flag)))
    observed.append(("Flag init kw", outcome(lambda: identify(enums.Flag(size=4).subcon))))
    observed.append(("Flag init two", outcome(enums.Flag, 1, 2)))

    # a subclass with its own table is honoured
    class Narrow(enums.Flag):
        bases = {3: Int8ub, 1: Int32ub}

    for size in [1, 2, 3, 4]:
        observed.append(
            ("Narrow init", size, outcome(lambda size=size: identify(Narrow(size).subcon)))
        )

    # an instance attribute would shadow the class table as well
    for size in [1, 2, 4, 8]:
        flag = enums.Flag(size)
        for data in FLAG_DATA:
            observed.append(("Flag parse", size, data, outcome(flag.parse, data)))
        for value in FLAG_BUILD:
            observed.append(("Flag build", size, value, outcome(flag.build, value)))
        for value in FLAG_BUILD_ODD:
            observed.append(("Flag build odd", size, repr(value), outcome(flag.build, value)))

    record = Struct("a" / enums.Flag(2), "b" / enums.Flag(4), "c" / enums.Flag(1))
    for data in [
        b"\x00\x00\x00\x00\x00\x00\x00",
        b"\x00\x01\x00\x00\x00\x00\x02",
        b"\x00\x00\x00\x00\x01\x00\x00",
        b"\x00\x00\x00\x00\x01\x00",
        b"\x00",
    ]:
        observed.append(("Flag record", data, outcome(lambda: to_dict(record.parse(data)))))
    observed.append(("Flag record build", outcome(record.build, dict(a=True, b=False, c=1))))
    observed.append(("Flag record build", outcome(record.build, dict(a=True, b=False))))

    # the enumerations
    for name in ENUM_NAMES:
        enum = getattr(enums, name)
        observed.append((name, "type", type(enum).__name__, identify(enum.subcon), enum.sizeof()))
        observed.append(
            (
                name,
                "encmapping",
                [(type(k).__name__, str(k), int(k), v) for k, v in enum.encmapping.items()],
            )
        )
        observed.append(
            (
                name,
                "decmapping",
                [(k, type(v).__name__, str(v), int(v)) for k, v in enum.decmapping.items()],
            )
        )
        observed.append((name, "ksymapping", list(enum.ksymapping.items())))
        fmt = ">H" if enum.sizeof() == 2 else ">I"
        for value in [0, 1, 2, 3, 4, 5, 6, 7, 8, 255, 256, 65535]:
            data = struct.pack(fmt, value)

            def parse(enum=enum, data=data):
                result = enum.parse(data)
                return (type(result).__name__, str(result), int(result), to_dict(result))

            observed.append((name, "parse", value, outcome(parse)))
        for data in [b"", b"\x00", b"\x00\x00\x00"]:
            observed.append((name, "parse short", data, outcome(enum.parse, data)))
        for value in BUILD_VALUES:
            observed.append((name, "build", repr(value), outcome(enum.build, value)))
        for attr in ["L", "S", "C", "X", "KU", "KA", "horizontal", "repeat", "nope", "_bands"]:

            def get(enum=enum, attr=attr):
                result = getattr(enum, attr)
                return (type(result).__name__, str(result), int(result))

            observed.append((name, "getattr", attr, outcome(get)))

    observed.append(("public names", sorted(n for n in vars(enums) if not n.startswith("_"))))
    observed.append(("construct", construct.__version__))

    return observed


EXPECTED = [('bases type', 'dict'),
 ('bases items',
  [('int', 1, 'Int8ub'), ('int', 2, 'Int16ub'), ('int', 4, 'Int32ub'), ('int', 8, 'Int64ub')]),
 ('Flag namespace', ['__doc__', '__init__', '__module__', '_decode', '_encode', 'bases']),
 ('Flag mro', ['Flag', 'Adapter', 'Subconstruct', 'Construct', 'object']),
 ('Flag init',
  '1',
  "tuple ('Int8ub', 1, False, None, ['docs', 'flagbuildnone', 'name', 'parsed', 'subcon'])"),
 ('Flag init',
  '2',
  "tuple ('Int16ub', 2, False, None, ['docs', 'flagbuildnone', 'name', 'parsed', 'subcon'])"),
 ('Flag init',
  '4',
  "tuple ('Int32ub', 4, False, None, ['docs', 'flagbuildnone', 'name', 'parsed', 'subcon'])"),
 ('Flag init',
  '8',
  "tuple ('Int64ub', 8, False, None, ['docs', 'flagbuildnone', 'name', 'parsed', 'subcon'])"),
 ('Flag init', '0', 'raised builtins.ValueError: unsupported size: 0'),
 ('Flag init', '3', 'raised builtins.ValueError: unsupported size: 3'),
 ('Flag init', '5', 'raised builtins.ValueError: unsupported size: 5'),
 ('Flag init', '6', 'raised builtins.ValueError: unsupported size: 6'),
 ('Flag init', '7', 'raised builtins.ValueError: unsupported size: 7'),
 ('Flag init', '9', 'raised builtins.ValueError: unsupported size: 9'),
 ('Flag init', '16', 'raised builtins.ValueError: unsupported size: 16'),
 ('Flag init', '-1', 'raised builtins.ValueError: unsupported size: -1'),
 ('Flag init', '-8', 'raised builtins.ValueError: unsupported size: -8'),
 ('Flag init',
  '18446744073709551616',
  'raised builtins.ValueError: unsupported size: 18446744073709551616'),
 ('Flag init',
  '1.0',
  "tuple ('Int8ub', 1, False, None, ['docs', 'flagbuildnone', 'name', 'parsed', 'subcon'])"),
 ('Flag init',
  '2.0',
  "tuple ('Int16ub', 2, False, None, ['docs', 'flagbuildnone', 'name', 'parsed', 'subcon'])"),
 ('Flag init',
  '4.0',
  "tuple ('Int32ub', 4, False, None, ['docs', 'flagbuildnone', 'name', 'parsed', 'subcon'])"),
 ('Flag init',
  '8.0',
  "tuple ('Int64ub', 8, False, None, ['docs', 'flagbuildnone', 'name', 'parsed', 'subcon'])"),
 ('Flag init', '2.5', 'raised builtins.ValueError: unsupported size: 2.5'),
 ('Flag init', 'nan', 'raised builtins.ValueError: unsupported size: nan'),
 ('Flag init', 'inf', 'raised builtins.ValueError: unsupported size: inf'),
 ('Flag init',
  'True',
  "tuple ('Int8ub', 1, False, None, ['docs', 'flagbuildnone', 'name', 'parsed', 'subcon'])"),
 ('Flag init', 'False', 'raised builtins.ValueError: unsupported size: False'),
 ('Flag init',
  '(2+0j)',
  "tuple ('Int16ub', 2, False, None, ['docs', 'flagbuildnone', 'name', 'parsed', 'subcon'])"),
 ('Flag init', "'1'", 'raised builtins.ValueError: unsupported size: 1'),
 ('Flag init', "'8'", 'raised builtins.ValueError: unsupported size: 8'),
 ('Flag init', "b'\\x01'", "raised builtins.ValueError: unsupported size: b'\\x01'"),
 ('Flag init', 'None', 'raised builtins.ValueError: unsupported size: None'),
 ('Flag init', '(1,)', 'raised builtins.ValueError: unsupported size: (1,)'),
 ('Flag init', '[1]', "raised builtins.TypeError: unhashable type: 'list'"),
 ('Flag init', '{1}', "raised builtins.TypeError: unhashable type: 'set'"),
 ('Flag init', '{1: 2}', "raised builtins.TypeError: unhashable type: 'dict'"),
 ('Flag init', 'Unhashable()', "raised builtins.TypeError: unhashable type: 'Unhashable'"),
 ('Flag init no args',
  "raised builtins.TypeError: Flag.__init__() missing 1 required positional argument: 'size'"),
 ('Flag init kw', "str 'Int32ub'"),
 ('Flag init two',
  'raised builtins.TypeError: Flag.__init__() takes 2 positional arguments but 3 were given'),
 ('Narrow init', 1, "str 'Int32ub'"),
 ('Narrow init', 2, 'raised builtins.ValueError: unsupported size: 2'),
 ('Narrow init', 3, "str 'Int8ub'"),
 ('Narrow init', 4, 'raised builtins.ValueError: unsupported size: 4'),
 ('Flag parse',
  1,
  b'',
  'raised construct.core.StreamError: Error in path (parsing)\n'
  'stream read less than specified amount, expected 1, found 0'),
 ('Flag parse', 1, b'\x00', 'bool False'),
 ('Flag parse', 1, b'\x01', 'bool True'),
 ('Flag parse', 1, b'\x0f', 'bool True'),
 ('Flag parse', 1, b'\xff', 'bool True'),
 ('Flag parse', 1, b'\x00\x00', 'bool False'),
 ('Flag parse', 1, b'\x00\x01', 'bool False'),
 ('Flag parse', 1, b'\x01\x00', 'bool True'),
 ('Flag parse', 1, b'\xff\xff', 'bool True'),
 ('Flag parse', 1, b'\x00\x00\x00', 'bool False'),
 ('Flag parse', 1, b'\x00\x00\x00\x00', 'bool False'),
 ('Flag parse', 1, b'\x00\x00\x00\x01', 'bool False'),
 ('Flag parse', 1, b'\x80\x00\x00\x00', 'bool True'),
 ('Flag parse', 1, b'\x00\x00\x00\x00\x00\x00\x00', 'bool False'),
 ('Flag parse', 1, b'\x00\x00\x00\x00\x00\x00\x00\x00', 'bool False'),
 ('Flag parse', 1, b'\x00\x00\x00\x00\x00\x00\x00\x01', 'bool False'),
 ('Flag parse', 1, b'\x80\x00\x00\x00\x00\x00\x00\x00', 'bool True'),
 ('Flag parse', 1, b'\x00\x00\x00\x00\x00\x00\x00\x00\x01', 'bool False'),
 ('Flag build', 1, True, "bytes b'\\x01'"),
 ('Flag build', 1, False, "bytes b'\\x00'"),
 ('Flag build', 1, 0, "bytes b'\\x00'"),
 ('Flag build', 1, 1, "bytes b'\\x01'"),
 ('Flag build', 1, 2, "bytes b'\\x02'"),
 ('Flag build', 1, 255, "bytes b'\\xff'"),
 ('Flag build',
  1,
  256,
  'raised construct.core.FormatFieldError: Error in path (building)\n'
  "struct '>B' error during building, given value 256"),
 ('Flag build',
  1,
  65535,
  'raised construct.core.FormatFieldError: Error in path (building)\n'
  "struct '>B' error during building, given value 65535"),
 ('Flag build',
  1,
  65536,
  'raised construct.core.FormatFieldError: Error in path (building)\n'
  "struct '>B' error during building, given value 65536"),
 ('Flag build',
  1,
  4294967295,
  'raised construct.core.FormatFieldError: Error in path (building)\n'
  "struct '>B' error during building, given value 4294967295"),
 ('Flag build',
  1,
  4294967296,
  'raised construct.core.FormatFieldError: Error in path (building)\n'
  "struct '>B' error during building, given value 4294967296"),
 ('Flag build',
  1,
  18446744073709551615,
  'raised construct.core.FormatFieldError: Error in path (building)\n'
  "struct '>B' error during building, given value 18446744073709551615"),
 ('Flag build',
  1,
  18446744073709551616,
  'raised construct.core.FormatFieldError: Error in path (building)\n'
  "struct '>B' error during building, given value 18446744073709551616"),
 ('Flag build',
  1,
  -1,
  'raised construct.core.FormatFieldError: Error in path (building)\n'
  "struct '>B' error during building, given value -1"),
 ('Flag build odd', 1, '1.0', "bytes b'\\x01'"),
 ('Flag build odd', 1, '0.5', "bytes b'\\x00'"),
 ('Flag build odd', 1, "'1'", "bytes b'\\x01'"),
 ('Flag build odd',
  1,
  "'a'",
  "raised builtins.ValueError: invalid literal for int() with base 10: 'a'"),
 ('Flag build odd',
  1,
  'None',
  'raised builtins.TypeError: int() argument must be a string, a bytes-like object or a real '
  "number, not 'NoneType'"),
 ('Flag build odd',
  1,
  "b'\\x01'",
  "raised builtins.ValueError: invalid literal for int() with base 10: b'\\x01'"),
 ('Flag build odd',
  1,
  '[1]',
  'raised builtins.TypeError: int() argument must be a string, a bytes-like object or a real '
  "number, not 'list'"),
 ('Flag parse',
  2,
  b'',
  'raised construct.core.StreamError: Error in path (parsing)\n'
  'stream read less than specified amount, expected 2, found 0'),
 ('Flag parse',
  2,
  b'\x00',
  'raised construct.core.StreamError: Error in path (parsing)\n'
  'stream read less than specified amount, expected 2, found 1'),
 ('Flag parse',
  2,
  b'\x01',
  'raised construct.core.StreamError: Error in path (parsing)\n'
  'stream read less than specified amount, expected 2, found 1'),
 ('Flag parse',
  2,
  b'\x0f',
  'raised construct.core.StreamError: Error in path (parsing)\n'
  'stream read less than specified amount, expected 2, found 1'),
 ('Flag parse',
  2,
  b'\xff',
  'raised construct.core.StreamError: Error in path (parsing)\n'
  'stream read less than specified amount, expected 2, found 1'),
 ('Flag parse', 2, b'\x00\x00', 'bool False'),
 ('Flag parse', 2, b'\x00\x01', 'bool True'),
 ('Flag parse', 2, b'\x01\x00', 'bool True'),
 ('Flag parse', 2, b'\xff\xff', 'bool True'),
 ('Flag parse', 2, b'\x00\x00\x00', 'bool False'),
 ('Flag parse', 2, b'\x00\x00\x00\x00', 'bool False'),
 ('Flag parse', 2, b'\x00\x00\x00\x01', 'bool False'),
 ('Flag parse', 2, b'\x80\x00\x00\x00', 'bool True'),
 ('Flag parse', 2, b'\x00\x00\x00\x00\x00\x00\x00', 'bool False'),
 ('Flag parse', 2, b'\x00\x00\x00\x00\x00\x00\x00\x00', 'bool False'),
 ('Flag parse', 2, b'\x00\x00\x00\x00\x00\x00\x00\x01', 'bool False'),
 ('Flag parse', 2, b'\x80\x00\x00\x00\x00\x00\x00\x00', 'bool True'),
 ('Flag parse', 2, b'\x00\x00\x00\x00\x00\x00\x00\x00\x01', 'bool False'),
 ('Flag build', 2, True, "bytes b'\\x00\\x01'"),
 ('Flag build', 2, False, "bytes b'\\x00\\x00'"),
 ('Flag build', 2, 0, "bytes b'\\x00\\x00'"),
 ('Flag build', 2, 1, "bytes b'\\x00\\x01'"),
 ('Flag build', 2, 2, "bytes b'\\x00\\x02'"),
 ('Flag build', 2, 255, "bytes b'\\x00\\xff'"),
 ('Flag build', 2, 256, "bytes b'\\x01\\x00'"),
 ('Flag build', 2, 65535, "bytes b'\\xff\\xff'"),
 ('Flag build',
  2,
  65536,
  'raised construct.core.FormatFieldError: Error in path (building)\n'
  "struct '>H' error during building, given value 65536"),
 ('Flag build',
  2,
  4294967295,
  'raised construct.core.FormatFieldError: Error in path (building)\n'
  "struct '>H' error during building, given value 4294967295"),
 ('Flag build',
  2,
  4294967296,
  'raised construct.core.FormatFieldError: Error in path (building)\n'
  "struct '>H' error during building, given value 4294967296"),
 ('Flag build',
  2,
  18446744073709551615,
  'raised construct.core.FormatFieldError: Error in path (building)\n'
  "struct '>H' error during building, given value 18446744073709551615"),
 ('Flag build',
  2,
  18446744073709551616,
  'raised construct.core.FormatFieldError: Error in path (building)\n'
  "struct '>H' error during building, given value 18446744073709551616"),
 ('Flag build',
  2,
  -1,
  'raised construct.core.FormatFieldError: Error in path (building)\n'
  "struct '>H' error during building, given value -1"),
 ('Flag build odd', 2, '1.0', "bytes b'\\x00\\x01'"),
 ('Flag build odd', 2, '0.5', "bytes b'\\x00\\x00'"),
 ('Flag build odd', 2, "'1'", "bytes b'\\x00\\x01'"),
 ('Flag build odd',
  2,
  "'a'",
  "raised builtins.ValueError: invalid literal for int() with base 10: 'a'"),
 ('Flag build odd',
  2,
  'None',
  'raised builtins.TypeError: int() argument must be a string, a bytes-like object or a real '
  "number, not 'NoneType'"),
 ('Flag build odd',
  2,
  "b'\\x01'",
  "raised builtins.ValueError: invalid literal for int() with base 10: b'\\x01'"),
 ('Flag build odd',
  2,
  '[1]',
  'raised builtins.TypeError: int() argument must be a string, a bytes-like object or a real '
  "number, not 'list'"),
 ('Flag parse',
  4,
  b'',
  'raised construct.core.StreamError: Error in path (parsing)\n'
  'stream read less than specified amount, expected 4, found 0'),
 ('Flag parse',
  4,
  b'\x00',
  'raised construct.core.StreamError: Error in path (parsing)\n'
  'stream read less than specified amount, expected 4, found 1'),
 ('Flag parse',
  4,
  b'\x01',
  'raised construct.core.StreamError: Error in path (parsing)\n'
  'stream read less than specified amount, expected 4, found 1'),
 ('Flag parse',
  4,
  b'\x0f',
  'raised construct.core.StreamError: Error in path (parsing)\n'
  'stream read less than specified amount, expected 4, found 1'),
 ('Flag parse',
  4,
  b'\xff',
  'raised construct.core.StreamError: Error in path (parsing)\n'
  'stream read less than specified amount, expected 4, found 1'),
 ('Flag parse',
  4,
  b'\x00\x00',
  'raised construct.core.StreamError: Error in path (parsing)\n'
  'stream read less than specified amount, expected 4, found 2'),
 ('Flag parse',
  4,
  b'\x00\x01',
  'raised construct.core.StreamError: Error in path (parsing)\n'
  'stream read less than specified amount, expected 4, found 2'),
 ('Flag parse',
  4,
  b'\x01\x00',
  'raised construct.core.StreamError: Error in path (parsing)\n'
  'stream read less than specified amount, expected 4, found 2'),
 ('Flag parse',
  4,
  b'\xff\xff',
  'raised construct.core.StreamError: Error in path (parsing)\n'
  'stream read less than specified amount, expected 4, found 2'),
 ('Flag parse',
  4,
  b'\x00\x00\x00',
  'raised construct.core.StreamError: Error in path (parsing)\n'
  'stream read less than specified amount, expected 4, found 3'),
 ('Flag parse', 4, b'\x00\x00\x00\x00', 'bool False'),
 ('Flag parse', 4, b'\x00\x00\x00\x01', 'bool True'),
 ('Flag parse', 4, b'\x80\x00\x00\x00', 'bool True'),
 ('Flag parse', 4, b'\x00\x00\x00\x00\x00\x00\x00', 'bool False'),
 ('Flag parse', 4, b'\x00\x00\x00\x00\x00\x00\x00\x00', 'bool False'),
 ('Flag parse', 4, b'\x00\x00\x00\x00\x00\x00\x00\x01', 'bool False'),
 ('Flag parse', 4, b'\x80\x00\x00\x00\x00\x00\x00\x00', 'bool True'),
 ('Flag parse', 4, b'\x00\x00\x00\x00\x00\x00\x00\x00\x01', 'bool False'),
 ('Flag build', 4, True, "bytes b'\\x00\\x00\\x00\\x01'"),
 ('Flag build', 4, False, "bytes b'\\x00\\x00\\x00\\x00'"),
 ('Flag build', 4, 0, "bytes b'\\x00\\x00\\x00\\x00'"),
 ('Flag build', 4, 1, "bytes b'\\x00\\x00\\x00\\x01'"),
 ('Flag build', 4, 2, "bytes b'\\x00\\x00\\x00\\x02'"),
 ('Flag build', 4, 255, "bytes b'\\x00\\x00\\x00\\xff'"),
 ('Flag build', 4, 256, "bytes b'\\x00\\x00\\x01\\x00'"),
 ('Flag build', 4, 65535, "bytes b'\\x00\\x00\\xff\\xff'"),
 ('Flag build', 4, 65536, "bytes b'\\x00\\x01\\x00\\x00'"),
 ('Flag build', 4, 4294967295, "bytes b'\\xff\\xff\\xff\\xff'"),
 ('Flag build',
  4,
  4294967296,
  'raised construct.core.FormatFieldError: Error in path (building)\n'
  "struct '>L' error during building, given value 4294967296"),
 ('Flag build',
  4,
  18446744073709551615,
  'raised construct.core.FormatFieldError: Error in path (building)\n'
  "struct '>L' error during building, given value 18446744073709551615"),
 ('Flag build',
  4,
  18446744073709551616,
  'raised construct.core.FormatFieldError: Error in path (building)\n'
  "struct '>L' error during building, given value 18446744073709551616"),
 ('Flag build',
  4,
  -1,
  'raised construct.core.FormatFieldError: Error in path (building)\n'
  "struct '>L' error during building, given value -1"),
 ('Flag build odd', 4, '1.0', "bytes b'\\x00\\x00\\x00\\x01'"),
 ('Flag build odd', 4, '0.5', "bytes b'\\x00\\x00\\x00\\x00'"),
 ('Flag build odd', 4, "'1'", "bytes b'\\x00\\x00\\x00\\x01'"),
 ('Flag build odd',
  4,
  "'a'",
  "raised builtins.ValueError: invalid literal for int() with base 10: 'a'"),
 ('Flag build odd',
  4,
  'None',
  'raised builtins.TypeError: int() argument must be a string, a bytes-like object or a real '
  "number, not 'NoneType'"),
 ('Flag build odd',
  4,
  "b'\\x01'",
  "raised builtins.ValueError: invalid literal for int() with base 10: b'\\x01'"),
 ('Flag build odd',
  4,
  '[1]',
  'raised builtins.TypeError: int() argument must be a string, a bytes-like object or a real '
  "number, not 'list'"),
 ('Flag parse',
  8,
  b'',
  'raised construct.core.StreamError: Error in path (parsing)\n'
  'stream read less than specified amount, expected 8, found 0'),
 ('Flag parse',
  8,
  b'\x00',
  'raised construct.core.StreamError: Error in path (parsing)\n'
  'stream read less than specified amount, expected 8, found 1'),
 ('Flag parse',
  8,
  b'\x01',
  'raised construct.core.StreamError: Error in path (parsing)\n'
  'stream read less than specified amount, expected 8, found 1'),
 ('Flag parse',
  8,
  b'\x0f',
  'raised construct.core.StreamError: Error in path (parsing)\n'
  'stream read less than specified amount, expected 8, found 1'),
 ('Flag parse',
  8,
  b'\xff',
  'raised construct.core.StreamError: Error in path (parsing)\n'
  'stream read less than specified amount, expected 8, found 1'),
 ('Flag parse',
  8,
  b'\x00\x00',
  'raised construct.core.StreamError: Error in path (parsing)\n'
  'stream read less than specified amount, expected 8, found 2'),
 ('Flag parse',
  8,
  b'\x00\x01',
  'raised construct.core.StreamError: Error in path (parsing)\n'
  'stream read less than specified amount, expected 8, found 2'),
 ('Flag parse',
  8,
  b'\x01\x00',
  'raised construct.core.StreamError: Error in path (parsing)\n'
  'stream read less than specified amount, expected 8, found 2'),
 ('Flag parse',
  8,
  b'\xff\xff',
  'raised construct.core.StreamError: Error in path (parsing)\n'
  'stream read less than specified amount, expected 8, found 2'),
 ('Flag parse',
  8,
  b'\x00\x00\x00',
  'raised construct.core.StreamError: Error in path (parsing)\n'
  'stream read less than specified amount, expected 8, found 3'),
 ('Flag parse',
  8,
  b'\x00\x00\x00\x00',
  'raised construct.core.StreamError: Error in path (parsing)\n'
  'stream read less than specified amount, expected 8, found 4'),
 ('Flag parse',
  8,
  b'\x00\x00\x00\x01',
  'raised construct.core.StreamError: Error in path (parsing)\n'
  'stream read less than specified amount, expected 8, found 4'),
 ('Flag parse',
  8,
  b'\x80\x00\x00\x00',
  'raised construct.core.StreamError: Error in path (parsing)\n'
  'stream read less than specified amount, expected 8, found 4'),
 ('Flag parse',
  8,
  b'\x00\x00\x00\x00\x00\x00\x00',
  'raised construct.core.StreamError: Error in path (parsing)\n'
  'stream read less than specified amount, expected 8, found 7'),
 ('Flag parse', 8, b'\x00\x00\x00\x00\x00\x00\x00\x00', 'bool False'),
 ('Flag parse', 8, b'\x00\x00\x00\x00\x00\x00\x00\x01', 'bool True'),
 ('Flag parse', 8, b'\x80\x00\x00\x00\x00\x00\x00\x00', 'bool True'),
 ('Flag parse', 8, b'\x00\x00\x00\x00\x00\x00\x00\x00\x01', 'bool False'),
 ('Flag build', 8, True, "bytes b'\\x00\\x00\\x00\\x00\\x00\\x00\\x00\\x01'"),
 ('Flag build', 8, False, "bytes b'\\x00\\x00\\x00\\x00\\x00\\x00\\x00\\x00'"),
 ('Flag build', 8, 0, "bytes b'\\x00\\x00\\x00\\x00\\x00\\x00\\x00\\x00'"),
 ('Flag build', 8, 1, "bytes b'\\x00\\x00\\x00\\x00\\x00\\x00\\x00\\x01'"),
 ('Flag build', 8, 2, "bytes b'\\x00\\x00\\x00\\x00\\x00\\x00\\x00\\x02'"),
 ('Flag build', 8, 255, "bytes b'\\x00\\x00\\x00\\x00\\x00\\x00\\x00\\xff'"),
 ('Flag build', 8, 256, "bytes b'\\x00\\x00\\x00\\x00\\x00\\x00\\x01\\x00'"),
 ('Flag build', 8, 65535, "bytes b'\\x00\\x00\\x00\\x00\\x00\\x00\\xff\\xff'"),
 ('Flag build', 8, 65536, "bytes b'\\x00\\x00\\x00\\x00\\x00\\x01\\x00\\x00'"),
 ('Flag build', 8, 4294967295, "bytes b'\\x00\\x00\\x00\\x00\\xff\\xff\\xff\\xff'"),
 ('Flag build', 8, 4294967296, "bytes b'\\x00\\x00\\x00\\x01\\x00\\x00\\x00\\x00'"),
 ('Flag build', 8, 18446744073709551615, "bytes b'\\xff\\xff\\xff\\xff\\xff\\xff\\xff\\xff'"),
 ('Flag build',
  8,
  18446744073709551616,
  'raised construct.core.FormatFieldError: Error in path (building)\n'
  "struct '>Q' error during building, given value 18446744073709551616"),
 ('Flag build',
  8,
  -1,
  'raised construct.core.FormatFieldError: Error in path (building)\n'
  "struct '>Q' error during building, given value -1"),
 ('Flag build odd', 8, '1.0', "bytes b'\\x00\\x00\\x00\\x00\\x00\\x00\\x00\\x01'"),
 ('Flag build odd', 8, '0.5', "bytes b'\\x00\\x00\\x00\\x00\\x00\\x00\\x00\\x00'"),
 ('Flag build odd', 8, "'1'", "bytes b'\\x00\\x00\\x00\\x00\\x00\\x00\\x00\\x01'"),
 ('Flag build odd',
  8,
  "'a'",
  "raised builtins.ValueError: invalid literal for int() with base 10: 'a'"),
 ('Flag build odd',
  8,
  'None',
  'raised builtins.TypeError: int() argument must be a string, a bytes-like object or a real '
  "number, not 'NoneType'"),
 ('Flag build odd',
  8,
  "b'\\x01'",
  "raised builtins.ValueError: invalid literal for int() with base 10: b'\\x01'"),
 ('Flag build odd',
  8,
  '[1]',
  'raised builtins.TypeError: int() argument must be a string, a bytes-like object or a real '
  "number, not 'list'"),
 ('Flag record', b'\x00\x00\x00\x00\x00\x00\x00', "dict {'a': False, 'b': False, 'c': False}"),
 ('Flag record', b'\x00\x01\x00\x00\x00\x00\x02', "dict {'a': True, 'b': False, 'c': True}"),
 ('Flag record', b'\x00\x00\x00\x00\x01\x00\x00', "dict {'a': False, 'b': True, 'c': False}"),
 ('Flag record',
  b'\x00\x00\x00\x00\x01\x00',
  'raised construct.core.StreamError: Error in path (parsing) -> c\n'
  'stream read less than specified amount, expected 1, found 0'),
 ('Flag record',
  b'\x00',
  'raised construct.core.StreamError: Error in path (parsing) -> a\n'
  'stream read less than specified amount, expected 2, found 1'),
 ('Flag record build', "bytes b'\\x00\\x01\\x00\\x00\\x00\\x00\\x01'"),
 ('Flag record build', "raised builtins.KeyError: 'c'"),
 ('sar_channel_id', 'type', 'Enum', 'Int16ub', 2),
 ('sar_channel_id',
  'encmapping',
  [('EnumIntegerString', 'single_polarization', 1, 1),
   ('EnumIntegerString', 'dual_polarization', 2, 2),
   ('EnumIntegerString', 'full_polarization', 4, 4)]),
 ('sar_channel_id',
  'decmapping',
  [(1, 'EnumIntegerString', 'single_polarization', 1),
   (2, 'EnumIntegerString', 'dual_polarization', 2),
   (4, 'EnumIntegerString', 'full_polarization', 4)]),
 ('sar_channel_id',
  'ksymapping',
  [(1, 'single_polarization'), (2, 'dual_polarization'), (4, 'full_polarization')]),
 ('sar_channel_id', 'parse', 0, "tuple ('EnumInteger', '0', 0, 0)"),
 ('sar_channel_id',
  'parse',
  1,
  "tuple ('EnumIntegerString', 'single_polarization', 1, 'single_polarization')"),
 ('sar_channel_id',
  'parse',
  2,
  "tuple ('EnumIntegerString', 'dual_polarization', 2, 'dual_polarization')"),
 ('sar_channel_id', 'parse', 3, "tuple ('EnumInteger', '3', 3, 3)"),
 ('sar_channel_id',
  'parse',
  4,
  "tuple ('EnumIntegerString', 'full_polarization', 4, 'full_polarization')"),
 ('sar_channel_id', 'parse', 5, "tuple ('EnumInteger', '5', 5, 5)"),
 ('sar_channel_id', 'parse', 6, "tuple ('EnumInteger', '6', 6, 6)"),
 ('sar_channel_id', 'parse', 7, "tuple ('EnumInteger', '7', 7, 7)"),
 ('sar_channel_id', 'parse', 8, "tuple ('EnumInteger', '8', 8, 8)"),
 ('sar_channel_id', 'parse', 255, "tuple ('EnumInteger', '255', 255, 255)"),
 ('sar_channel_id', 'parse', 256, "tuple ('EnumInteger', '256', 256, 256)"),
 ('sar_channel_id', 'parse', 65535, "tuple ('EnumInteger', '65535', 65535, 65535)"),
 ('sar_channel_id',
  'parse short',
  b'',
  'raised construct.core.StreamError: Error in path (parsing)\n'
  'stream read less than specified amount, expected 2, found 0'),
 ('sar_channel_id',
  'parse short',
  b'\x00',
  'raised construct.core.StreamError: Error in path (parsing)\n'
  'stream read less than specified amount, expected 2, found 1'),
 ('sar_channel_id', 'parse short', b'\x00\x00\x00', 'EnumInteger 0'),
 ('sar_channel_id',
  'build',
  "'L'",
  'raised construct.core.MappingError: Error in path (building)\n'
  "building failed, no mapping for 'L'"),
 ('sar_channel_id',
  'build',
  "'S'",
  'raised construct.core.MappingError: Error in path (building)\n'
  "building failed, no mapping for 'S'"),
 ('sar_channel_id',
  'build',
  "'C'",
  'raised construct.core.MappingError: Error in path (building)\n'
  "building failed, no mapping for 'C'"),
 ('sar_channel_id',
  'build',
  "'X'",
  'raised construct.core.MappingError: Error in path (building)\n'
  "building failed, no mapping for 'X'"),
 ('sar_channel_id',
  'build',
  "'KU'",
  'raised construct.core.MappingError: Error in path (building)\n'
  "building failed, no mapping for 'KU'"),
 ('sar_channel_id',
  'build',
  "'KA'",
  'raised construct.core.MappingError: Error in path (building)\n'
  "building failed, no mapping for 'KA'"),
 ('sar_channel_id',
  'build',
  "'l'",
  'raised construct.core.MappingError: Error in path (building)\n'
  "building failed, no mapping for 'l'"),
 ('sar_channel_id',
  'build',
  "'Ku'",
  'raised construct.core.MappingError: Error in path (building)\n'
  "building failed, no mapping for 'Ku'"),
 ('sar_channel_id',
  'build',
  "'K'",
  'raised construct.core.MappingError: Error in path (building)\n'
  "building failed, no mapping for 'K'"),
 ('sar_channel_id',
  'build',
  "''",
  'raised construct.core.MappingError: Error in path (building)\n'
  "building failed, no mapping for ''"),
 ('sar_channel_id', 'build', "'single_polarization'", "bytes b'\\x00\\x01'"),
 ('sar_channel_id', 'build', "'dual_polarization'", "bytes b'\\x00\\x02'"),
 ('sar_channel_id', 'build', "'full_polarization'", "bytes b'\\x00\\x04'"),
 ('sar_channel_id',
  'build',
  "'horizontal'",
  'raised construct.core.MappingError: Error in path (building)\n'
  "building failed, no mapping for 'horizontal'"),
 ('sar_channel_id',
  'build',
  "'vertical'",
  'raised construct.core.MappingError: Error in path (building)\n'
  "building failed, no mapping for 'vertical'"),
 ('sar_channel_id',
  'build',
  "'linear_fm_chirp'",
  'raised construct.core.MappingError: Error in path (building)\n'
  "building failed, no mapping for 'linear_fm_chirp'"),
 ('sar_channel_id',
  'build',
  "'phase_modulators'",
  'raised construct.core.MappingError: Error in path (building)\n'
  "building failed, no mapping for 'phase_modulators'"),
 ('sar_channel_id',
  'build',
  "'repeat'",
  'raised construct.core.MappingError: Error in path (building)\n'
  "building failed, no mapping for 'repeat'"),
 ('sar_channel_id',
  'build',
  "'update'",
  'raised construct.core.MappingError: Error in path (building)\n'
  "building failed, no mapping for 'update'"),
 ('sar_channel_id', 'build', '0', "bytes b'\\x00\\x00'"),
 ('sar_channel_id', 'build', '1', "bytes b'\\x00\\x01'"),
 ('sar_channel_id', 'build', '2', "bytes b'\\x00\\x02'"),
 ('sar_channel_id', 'build', '3', "bytes b'\\x00\\x03'"),
 ('sar_channel_id', 'build', '4', "bytes b'\\x00\\x04'"),
 ('sar_channel_id', 'build', '5', "bytes b'\\x00\\x05'"),
 ('sar_channel_id', 'build', '6', "bytes b'\\x00\\x06'"),
 ('sar_channel_id', 'build', '7', "bytes b'\\x00\\x07'"),
 ('sar_channel_id', 'build', '65535', "bytes b'\\xff\\xff'"),
 ('sar_channel_id',
  'build',
  '65536',
  'raised construct.core.FormatFieldError: Error in path (building)\n'
  "struct '>H' error during building, given value 65536"),
 ('sar_channel_id',
  'build',
  '-1',
  'raised construct.core.FormatFieldError: Error in path (building)\n'
  "struct '>H' error during building, given value -1"),
 ('sar_channel_id',
  'build',
  'None',
  'raised construct.core.MappingError: Error in path (building)\n'
  'building failed, no mapping for None'),
 ('sar_channel_id',
  'build',
  '1.0',
  'raised construct.core.MappingError: Error in path (building)\n'
  'building failed, no mapping for 1.0'),
 ('sar_channel_id', 'getattr', 'L', 'raised builtins.AttributeError: '),
 ('sar_channel_id', 'getattr', 'S', 'raised builtins.AttributeError: '),
 ('sar_channel_id', 'getattr', 'C', 'raised builtins.AttributeError: '),
 ('sar_channel_id', 'getattr', 'X', 'raised builtins.AttributeError: '),
 ('sar_channel_id', 'getattr', 'KU', 'raised builtins.AttributeError: '),
 ('sar_channel_id', 'getattr', 'KA', 'raised builtins.AttributeError: '),
 ('sar_channel_id', 'getattr', 'horizontal', 'raised builtins.AttributeError: '),
 ('sar_channel_id', 'getattr', 'repeat', 'raised builtins.AttributeError: '),
 ('sar_channel_id', 'getattr', 'nope', 'raised builtins.AttributeError: '),
 ('sar_channel_id', 'getattr', '_bands', 'raised builtins.AttributeError: '),
 ('sar_channel_code', 'type', 'Enum', 'Int16ub', 2),
 ('sar_channel_code',
  'encmapping',
  [('EnumIntegerString', 'L', 0, 0),
   ('EnumIntegerString', 'S', 1, 1),
   ('EnumIntegerString', 'C', 2, 2),
   ('EnumIntegerString', 'X', 3, 3),
   ('EnumIntegerString', 'KU', 4, 4),
   ('EnumIntegerString', 'KA', 5, 5)]),
 ('sar_channel_code',
  'decmapping',
  [(0, 'EnumIntegerString', 'L', 0),
   (1, 'EnumIntegerString', 'S', 1),
   (2, 'EnumIntegerString', 'C', 2),
   (3, 'EnumIntegerString', 'X', 3),
   (4, 'EnumIntegerString', 'KU', 4),
   (5, 'EnumIntegerString', 'KA', 5)]),
 ('sar_channel_code', 'ksymapping', [(0, 'L'), (1, 'S'), (2, 'C'), (3, 'X'), (4, 'KU'), (5, 'KA')]),
 ('sar_channel_code', 'parse', 0, "tuple ('EnumIntegerString', 'L', 0, 'L')"),
 ('sar_channel_code', 'parse', 1, "tuple ('EnumIntegerString', 'S', 1, 'S')"),
 ('sar_channel_code', 'parse', 2, "tuple ('EnumIntegerString', 'C', 2, 'C')"),
 ('sar_channel_code', 'parse', 3, "tuple ('EnumIntegerString', 'X', 3, 'X')"),
 ('sar_channel_code', 'parse', 4, "tuple ('EnumIntegerString', 'KU', 4, 'KU')"),
 ('sar_channel_code', 'parse', 5, "tuple ('EnumIntegerString', 'KA', 5, 'KA')"),
 ('sar_channel_code', 'parse', 6, "tuple ('EnumInteger', '6', 6, 6)"),
 ('sar_channel_code', 'parse', 7, "tuple ('EnumInteger', '7', 7, 7)"),
 ('sar_channel_code', 'parse', 8, "tuple ('EnumInteger', '8', 8, 8)"),
 ('sar_channel_code', 'parse', 255, "tuple ('EnumInteger', '255', 255, 255)"),
 ('sar_channel_code', 'parse', 256, "tuple ('EnumInteger', '256', 256, 256)"),
 ('sar_channel_code', 'parse', 65535, "tuple ('EnumInteger', '65535', 65535, 65535)"),
 ('sar_channel_code',
  'parse short',
  b'',
  'raised construct.core.StreamError: Error in path (parsing)\n'
  'stream read less than specified amount, expected 2, found 0'),
 ('sar_channel_code',
  'parse short',
  b'\x00',
  'raised construct.core.StreamError: Error in path (parsing)\n'
  'stream read less than specified amount, expected 2, found 1'),
 ('sar_channel_code',
  'parse short',
  b'\x00\x00\x00',
  "EnumIntegerString EnumIntegerString.new(0, 'L')"),
 ('sar_channel_code', 'build', "'L'", "bytes b'\\x00\\x00'"),
 ('sar_channel_code', 'build', "'S'", "bytes b'\\x00\\x01'"),
 ('sar_channel_code', 'build', "'C'", "bytes b'\\x00\\x02'"),
 ('sar_channel_code', 'build', "'X'", "bytes b'\\x00\\x03'"),
 ('sar_channel_code', 'build', "'KU'", "bytes b'\\x00\\x04'"),
 ('sar_channel_code', 'build', "'KA'", "bytes b'\\x00\\x05'"),
 ('sar_channel_code',
  'build',
  "'l'",
  'raised construct.core.MappingError: Error in path (building)\n'
  "building failed, no mapping for 'l'"),
 ('sar_channel_code',
  'build',
  "'Ku'",
  'raised construct.core.MappingError: Error in path (building)\n'
  "building failed, no mapping for 'Ku'"),
 ('sar_channel_code',
  'build',
  "'K'",
  'raised construct.core.MappingError: Error in path (building)\n'
  "building failed, no mapping for 'K'"),
 ('sar_channel_code',
  'build',
  "''",
  'raised construct.core.MappingError: Error in path (building)\n'
  "building failed, no mapping for ''"),
 ('sar_channel_code',
  'build',
  "'single_polarization'",
  'raised construct.core.MappingError: Error in path (building)\n'
  "building failed, no mapping for 'single_polarization'"),
 ('sar_channel_code',
  'build',
  "'dual_polarization'",
  'raised construct.core.MappingError: Error in path (building)\n'
  "building failed, no mapping for 'dual_polarization'"),
 ('sar_channel_code',
  'build',
  "'full_polarization'",
  'raised construct.core.MappingError: Error in path (building)\n'
  "building failed, no mapping for 'full_polarization'"),
 ('sar_channel_code',
  'build',
  "'horizontal'",
  'raised construct.core.MappingError: Error in path (building)\n'
  "building failed, no mapping for 'horizontal'"),
 ('sar_channel_code',
  'build',
  "'vertical'",
  'raised construct.core.MappingError: Error in path (building)\n'
  "building failed, no mapping for 'vertical'"),
 ('sar_channel_code',
  'build',
  "'linear_fm_chirp'",
  'raised construct.core.MappingError: Error in path (building)\n'
  "building failed, no mapping for 'linear_fm_chirp'"),
 ('sar_channel_code',
  'build',
  "'phase_modulators'",
  'raised construct.core.MappingError: Error in path (building)\n'
  "building failed, no mapping for 'phase_modulators'"),
 ('sar_channel_code',
  'build',
  "'repeat'",
  'raised construct.core.MappingError: Error in path (building)\n'
  "building failed, no mapping for 'repeat'"),
 ('sar_channel_code',
  'build',
  "'update'",
  'raised construct.core.MappingError: Error in path (building)\n'
  "building failed, no mapping for 'update'"),
 ('sar_channel_code', 'build', '0', "bytes b'\\x00\\x00'"),
 ('sar_channel_code', 'build', '1', "bytes b'\\x00\\x01'"),
 ('sar_channel_code', 'build', '2', "bytes b'\\x00\\x02'"),
 ('sar_channel_code', 'build', '3', "bytes b'\\x00\\x03'"),
 ('sar_channel_code', 'build', '4', "bytes b'\\x00\\x04'"),
 ('sar_channel_code', 'build', '5', "bytes b'\\x00\\x05'"),
 ('sar_channel_code', 'build', '6', "bytes b'\\x00\\x06'"),
 ('sar_channel_code', 'build', '7', "bytes b'\\x00\\x07'"),
 ('sar_channel_code', 'build', '65535', "bytes b'\\xff\\xff'"),
 ('sar_channel_code',
  'build',
  '65536',
  'raised construct.core.FormatFieldError: Error in path (building)\n'
  "struct '>H' error during building, given value 65536"),
 ('sar_channel_code',
  'build',
  '-1',
  'raised construct.core.FormatFieldError: Error in path (building)\n'
  "struct '>H' error during building, given value -1"),
 ('sar_channel_code',
  'build',
  'None',
  'raised construct.core.MappingError: Error in path (building)\n'
  'building failed, no mapping for None'),
 ('sar_channel_code',
  'build',
  '1.0',
  'raised construct.core.MappingError: Error in path (building)\n'
  'building failed, no mapping for 1.0'),
 ('sar_channel_code', 'getattr', 'L', "tuple ('EnumIntegerString', 'L', 0)"),
 ('sar_channel_code', 'getattr', 'S', "tuple ('EnumIntegerString', 'S', 1)"),
 ('sar_channel_code', 'getattr', 'C', "tuple ('EnumIntegerString', 'C', 2)"),
 ('sar_channel_code', 'getattr', 'X', "tuple ('EnumIntegerString', 'X', 3)"),
 ('sar_channel_code', 'getattr', 'KU', "tuple ('EnumIntegerString', 'KU', 4)"),
 ('sar_channel_code', 'getattr', 'KA', "tuple ('EnumIntegerString', 'KA', 5)"),
 ('sar_channel_code', 'getattr', 'horizontal', 'raised builtins.AttributeError: '),
 ('sar_channel_code', 'getattr', 'repeat', 'raised builtins.AttributeError: '),
 ('sar_channel_code', 'getattr', 'nope', 'raised builtins.AttributeError: '),
 ('sar_channel_code', 'getattr', '_bands', 'raised builtins.AttributeError: '),
 ('pulse_polarization', 'type', 'Enum', 'Int16ub', 2),
 ('pulse_polarization',
  'encmapping',
  [('EnumIntegerString', 'horizontal', 0, 0), ('EnumIntegerString', 'vertical', 1, 1)]),
 ('pulse_polarization',
  'decmapping',
  [(0, 'EnumIntegerString', 'horizontal', 0), (1, 'EnumIntegerString', 'vertical', 1)]),
 ('pulse_polarization', 'ksymapping', [(0, 'horizontal'), (1, 'vertical')]),
 ('pulse_polarization', 'parse', 0, "tuple ('EnumIntegerString', 'horizontal', 0, 'horizontal')"),
 ('pulse_polarization', 'parse', 1, "tuple ('EnumIntegerString', 'vertical', 1, 'vertical')"),
 ('pulse_polarization', 'parse', 2, "tuple ('EnumInteger', '2', 2, 2)"),
 ('pulse_polarization', 'parse', 3, "tuple ('EnumInteger', '3', 3, 3)"),
 ('pulse_polarization', 'parse', 4, "tuple ('EnumInteger', '4', 4, 4)"),
 ('pulse_polarization', 'parse', 5, "tuple ('EnumInteger', '5', 5, 5)"),
 ('pulse_polarization', 'parse', 6, "tuple ('EnumInteger', '6', 6, 6)"),
 ('pulse_polarization', 'parse', 7, "tuple ('EnumInteger', '7', 7, 7)"),
 ('pulse_polarization', 'parse', 8, "tuple ('EnumInteger', '8', 8, 8)"),
 ('pulse_polarization', 'parse', 255, "tuple ('EnumInteger', '255', 255, 255)"),
 ('pulse_polarization', 'parse', 256, "tuple ('EnumInteger', '256', 256, 256)"),
 ('pulse_polarization', 'parse', 65535, "tuple ('EnumInteger', '65535', 65535, 65535)"),
 ('pulse_polarization',
  'parse short',
  b'',
  'raised construct.core.StreamError: Error in path (parsing)\n'
  'stream read less than specified amount, expected 2, found 0'),
 ('pulse_polarization',
  'parse short',
  b'\x00',
  'raised construct.core.StreamError: Error in path (parsing)\n'
  'stream read less than specified amount, expected 2, found 1'),
 ('pulse_polarization',
  'parse short',
  b'\x00\x00\x00',
  "EnumIntegerString EnumIntegerString.new(0, 'horizontal')"),
 ('pulse_polarization',
  'build',
  "'L'",
  'raised construct.core.MappingError: Error in path (building)\n'
  "building failed, no mapping for 'L'"),
 ('pulse_polarization',
  'build',
  "'S'",
  'raised construct.core.MappingError: Error in path (building)\n'
  "building failed, no mapping for 'S'"),
 ('pulse_polarization',
  'build',
  "'C'",
  'raised construct.core.MappingError: Error in path (building)\n'
  "building failed, no mapping for 'C'"),
 ('pulse_polarization',
  'build',
  "'X'",
  'raised construct.core.MappingError: Error in path (building)\n'
  "building failed, no mapping for 'X'"),
 ('pulse_polarization',
  'build',
  "'KU'",
  'raised construct.core.MappingError: Error in path (building)\n'
  "building failed, no mapping for 'KU'"),
 ('pulse_polarization',
  'build',
  "'KA'",
  'raised construct.core.MappingError: Error in path (building)\n'
  "building failed, no mapping for 'KA'"),
 ('pulse_polarization',
  'build',
  "'l'",
  'raised construct.core.MappingError: Error in path (building)\n'
  "building failed, no mapping for 'l'"),
 ('pulse_polarization',
  'build',
  "'Ku'",
  'raised construct.core.MappingError: Error in path (building)\n'
  "building failed, no mapping for 'Ku'"),
 ('pulse_polarization',
  'build',
  "'K'",
  'raised construct.core.MappingError: Error in path (building)\n'
  "building failed, no mapping for 'K'"),
 ('pulse_polarization',
  'build',
  "''",
  'raised construct.core.MappingError: Error in path (building)\n'
  "building failed, no mapping for ''"),
 ('pulse_polarization',
  'build',
  "'single_polarization'",
  'raised construct.core.MappingError: Error in path (building)\n'
  "building failed, no mapping for 'single_polarization'"),
 ('pulse_polarization',
  'build',
  "'dual_polarization'",
  'raised construct.core.MappingError: Error in path (building)\n'
  "building failed, no mapping for 'dual_polarization'"),
 ('pulse_polarization',
  'build',
  "'full_polarization'",
  'raised construct.core.MappingError: Error in path (building)\n'
  "building failed, no mapping for 'full_polarization'"),
 ('pulse_polarization', 'build', "'horizontal'", "bytes b'\\x00\\x00'"),
 ('pulse_polarization', 'build', "'vertical'", "bytes b'\\x00\\x01'"),
 ('pulse_polarization',
  'build',
  "'linear_fm_chirp'",
  'raised construct.core.MappingError: Error in path (building)\n'
  "building failed, no mapping for 'linear_fm_chirp'"),
 ('pulse_polarization',
  'build',
  "'phase_modulators'",
  'raised construct.core.MappingError: Error in path (building)\n'
  "building failed, no mapping for 'phase_modulators'"),
 ('pulse_polarization',
  'build',
  "'repeat'",
  'raised construct.core.MappingError: Error in path (building)\n'
  "building failed, no mapping for 'repeat'"),
 ('pulse_polarization',
  'build',
  "'update'",
  'raised construct.core.MappingError: Error in path (building)\n'
  "building failed, no mapping for 'update'"),
 ('pulse_polarization', 'build', '0', "bytes b'\\x00\\x00'"),
 ('pulse_polarization', 'build', '1', "bytes b'\\x00\\x01'"),
 ('pulse_polarization', 'build', '2', "bytes b'\\x00\\x02'"),
 ('pulse_polarization', 'build', '3', "bytes b'\\x00\\x03'"),
 ('pulse_polarization', 'build', '4', "bytes b'\\x00\\x04'"),
 ('pulse_polarization', 'build', '5', "bytes b'\\x00\\x05'"),
 ('pulse_polarization', 'build', '6', "bytes b'\\x00\\x06'"),
 ('pulse_polarization', 'build', '7', "bytes b'\\x00\\x07'"),
 ('pulse_polarization', 'build', '65535', "bytes b'\\xff\\xff'"),
 ('pulse_polarization',
  'build',
  '65536',
  'raised construct.core.FormatFieldError: Error in path (building)\n'
  "struct '>H' error during building, given value 65536"),
 ('pulse_polarization',
  'build',
  '-1',
  'raised construct.core.FormatFieldError: Error in path (building)\n'
  "struct '>H' error during building, given value -1"),
 ('pulse_polarization',
  'build',
  'None',
  'raised construct.core.MappingError: Error in path (building)\n'
  'building failed, no mapping for None'),
 ('pulse_polarization',
  'build',
  '1.0',
  'raised construct.core.MappingError: Error in path (building)\n'
  'building failed, no mapping for 1.0'),
 ('pulse_polarization', 'getattr', 'L', 'raised builtins.AttributeError: '),
 ('pulse_polarization', 'getattr', 'S', 'raised builtins.AttributeError: '),
 ('pulse_polarization', 'getattr', 'C', 'raised builtins.AttributeError: '),
 ('pulse_polarization', 'getattr', 'X', 'raised builtins.AttributeError: '),
 ('pulse_polarization', 'getattr', 'KU', 'raised builtins.AttributeError: '),
 ('pulse_polarization', 'getattr', 'KA', 'raised builtins.AttributeError: '),
 ('pulse_polarization', 'getattr', 'horizontal', "tuple ('EnumIntegerString', 'horizontal', 0)"),
 ('pulse_polarization', 'getattr', 'repeat', 'raised builtins.AttributeError: '),
 ('pulse_polarization', 'getattr', 'nope', 'raised builtins.AttributeError: '),
 ('pulse_polarization', 'getattr', '_bands', 'raised builtins.AttributeError: '),
 ('chirp_type_designator', 'type', 'Enum', 'Int16ub', 2),
 ('chirp_type_designator',
  'encmapping',
  [('EnumIntegerString', 'linear_fm_chirp', 0, 0),
   ('EnumIntegerString', 'phase_modulators', 1, 1)]),
 ('chirp_type_designator',
  'decmapping',
  [(0, 'EnumIntegerString', 'linear_fm_chirp', 0),
   (1, 'EnumIntegerString', 'phase_modulators', 1)]),
 ('chirp_type_designator', 'ksymapping', [(0, 'linear_fm_chirp'), (1, 'phase_modulators')]),
 ('chirp_type_designator',
  'parse',
  0,
  "tuple ('EnumIntegerString', 'linear_fm_chirp', 0, 'linear_fm_chirp')"),
 ('chirp_type_designator',
  'parse',
  1,
  "tuple ('EnumIntegerString', 'phase_modulators', 1, 'phase_modulators')"),
 ('chirp_type_designator', 'parse', 2, "tuple ('EnumInteger', '2', 2, 2)"),
 ('chirp_type_designator', 'parse', 3, "tuple ('EnumInteger', '3', 3, 3)"),
 ('chirp_type_designator', 'parse', 4, "tuple ('EnumInteger', '4', 4, 4)"),
 ('chirp_type_designator', 'parse', 5, "tuple ('EnumInteger', '5', 5, 5)"),
 ('chirp_type_designator', 'parse', 6, "tuple ('EnumInteger', '6', 6, 6)"),
 ('chirp_type_designator', 'parse', 7, "tuple ('EnumInteger', '7', 7, 7)"),
 ('chirp_type_designator', 'parse', 8, "tuple ('EnumInteger', '8', 8, 8)"),
 ('chirp_type_designator', 'parse', 255, "tuple ('EnumInteger', '255', 255, 255)"),
 ('chirp_type_designator', 'parse', 256, "tuple ('EnumInteger', '256', 256, 256)"),
 ('chirp_type_designator', 'parse', 65535, "tuple ('EnumInteger', '65535', 65535, 65535)"),
 ('chirp_type_designator',
  'parse short',
  b'',
  'raised construct.core.StreamError: Error in path (parsing)\n'
  'stream read less than specified amount, expected 2, found 0'),
 ('chirp_type_designator',
  'parse short',
  b'\x00',
  'raised construct.core.StreamError: Error in path (parsing)\n'
  'stream read less than specified amount, expected 2, found 1'),
 ('chirp_type_designator',
  'parse short',
  b'\x00\x00\x00',
  "EnumIntegerString EnumIntegerString.new(0, 'linear_fm_chirp')"),
 ('chirp_type_designator',
  'build',
  "'L'",
  'raised construct.core.MappingError: Error in path (building)\n'
  "building failed, no mapping for 'L'"),
 ('chirp_type_designator',
  'build',
  "'S'",
  'raised construct.core.MappingError: Error in path (building)\n'
  "building failed, no mapping for 'S'"),
 ('chirp_type_designator',
  'build',
  "'C'",
  'raised construct.core.MappingError: Error in path (building)\n'
  "building failed, no mapping for 'C'"),
 ('chirp_type_designator',
  'build',
  "'X'",
  'raised construct.core.MappingError: Error in path (building)\n'
  "building failed, no mapping for 'X'"),
 ('chirp_type_designator',
  'build',
  "'KU'",
  'raised construct.core.MappingError: Error in path (building)\n'
  "building failed, no mapping for 'KU'"),
 ('chirp_type_designator',
  'build',
  "'KA'",
  'raised construct.core.MappingError: Error in path (building)\n'
  "building failed, no mapping for 'KA'"),
 ('chirp_type_designator',
  'build',
  "'l'",
  'raised construct.core.MappingError: Error in path (building)\n'
  "building failed, no mapping for 'l'"),
 ('chirp_type_designator',
  'build',
  "'Ku'",
  'raised construct.core.MappingError: Error in path (building)\n'
  "building failed, no mapping for 'Ku'"),
 ('chirp_type_designator',
  'build',
  "'K'",
  'raised construct.core.MappingError: Error in path (building)\n'
  "building failed, no mapping for 'K'"),
 ('chirp_type_designator',
  'build',
  "''",
  'raised construct.core.MappingError: Error in path (building)\n'
  "building failed, no mapping for ''"),
 ('chirp_type_designator',
  'build',
  "'single_polarization'",
  'raised construct.core.MappingError: Error in path (building)\n'
  "building failed, no mapping for 'single_polarization'"),
 ('chirp_type_designator',
  'build',
  "'dual_polarization'",
  'raised construct.core.MappingError: Error in path (building)\n'
  "building failed, no mapping for 'dual_polarization'"),
 ('chirp_type_designator',
  'build',
  "'full_polarization'",
  'raised construct.core.MappingError: Error in path (building)\n'
  "building failed, no mapping for 'full_polarization'"),
 ('chirp_type_designator',
  'build',
  "'horizontal'",
  'raised construct.core.MappingError: Error in path (building)\n'
  "building failed, no mapping for 'horizontal'"),
 ('chirp_type_designator',
  'build',
  "'vertical'",
  'raised construct.core.MappingError: Error in path (building)\n'
  "building failed, no mapping for 'vertical'"),
 ('chirp_type_designator', 'build', "'linear_fm_chirp'", "bytes b'\\x00\\x00'"),
 ('chirp_type_designator', 'build', "'phase_modulators'", "bytes b'\\x00\\x01'"),
 ('chirp_type_designator',
  'build',
  "'repeat'",
  'raised construct.core.MappingError: Error in path (building)\n'
  "building failed, no mapping for 'repeat'"),
 ('chirp_type_designator',
  'build',
  "'update'",
  'raised construct.core.MappingError: Error in path (building)\n'
  "building failed, no mapping for 'update'"),
 ('chirp_type_designator', 'build', '0', "bytes b'\\x00\\x00'"),
 ('chirp_type_designator', 'build', '1', "bytes b'\\x00\\x01'"),
 ('chirp_type_designator', 'build', '2', "bytes b'\\x00\\x02'"),
 ('chirp_type_designator', 'build', '3', "bytes b'\\x00\\x03'"),
 ('chirp_type_designator', 'build', '4', "bytes b'\\x00\\x04'"),
 ('chirp_type_designator', 'build', '5', "bytes b'\\x00\\x05'"),
 ('chirp_type_designator', 'build', '6', "bytes b'\\x00\\x06'"),
 ('chirp_type_designator', 'build', '7', "bytes b'\\x00\\x07'"),
 ('chirp_type_designator', 'build', '65535', "bytes b'\\xff\\xff'"),
 ('chirp_type_designator',
  'build',
  '65536',
  'raised construct.core.FormatFieldError: Error in path (building)\n'
  "struct '>H' error during building, given value 65536"),
 ('chirp_type_designator',
  'build',
  '-1',
  'raised construct.core.FormatFieldError: Error in path (building)\n'
  "struct '>H' error during building, given value -1"),
 ('chirp_type_designator',
  'build',
  'None',
  'raised construct.core.MappingError: Error in path (building)\n'
  'building failed, no mapping for None'),
 ('chirp_type_designator',
  'build',
  '1.0',
  'raised construct.core.MappingError: Error in path (building)\n'
  'building failed, no mapping for 1.0'),
 ('chirp_type_designator', 'getattr', 'L', 'raised builtins.AttributeError: '),
 ('chirp_type_designator', 'getattr', 'S', 'raised builtins.AttributeError: '),
 ('chirp_type_designator', 'getattr', 'C', 'raised builtins.AttributeError: '),
 ('chirp_type_designator', 'getattr', 'X', 'raised builtins.AttributeError: '),
 ('chirp_type_designator', 'getattr', 'KU', 'raised builtins.AttributeError: '),
 ('chirp_type_designator', 'getattr', 'KA', 'raised builtins.AttributeError: '),
 ('chirp_type_designator', 'getattr', 'horizontal', 'raised builtins.AttributeError: '),
 ('chirp_type_designator', 'getattr', 'repeat', 'raised builtins.AttributeError: '),
 ('chirp_type_designator', 'getattr', 'nope', 'raised builtins.AttributeError: '),
 ('chirp_type_designator', 'getattr', '_bands', 'raised builtins.AttributeError: '),
 ('platform_position_parameters_update', 'type', 'Enum', 'Int32ub', 4),
 ('platform_position_parameters_update',
  'encmapping',
  [('EnumIntegerString', 'repeat', 0, 0), ('EnumIntegerString', 'update', 1, 1)]),
 ('platform_position_parameters_update',
  'decmapping',
  [(0, 'EnumIntegerString', 'repeat', 0), (1, 'EnumIntegerString', 'update', 1)]),
 ('platform_position_parameters_update', 'ksymapping', [(0, 'repeat'), (1, 'update')]),
 ('platform_position_parameters_update',
  'parse',
  0,
  "tuple ('EnumIntegerString', 'repeat', 0, 'repeat')"),
 ('platform_position_parameters_update',
  'parse',
  1,
  "tuple ('EnumIntegerString', 'update', 1, 'update')"),
 ('platform_position_parameters_update', 'parse', 2, "tuple ('EnumInteger', '2', 2, 2)"),
 ('platform_position_parameters_update', 'parse', 3, "tuple ('EnumInteger', '3', 3, 3)"),
 ('platform_position_parameters_update', 'parse', 4, "tuple ('EnumInteger', '4', 4, 4)"),
 ('platform_position_parameters_update', 'parse', 5, "tuple ('EnumInteger', '5', 5, 5)"),
 ('platform_position_parameters_update', 'parse', 6, "tuple ('EnumInteger', '6', 6, 6)"),
 ('platform_position_parameters_update', 'parse', 7, "tuple ('EnumInteger', '7', 7, 7)"),
 ('platform_position_parameters_update', 'parse', 8, "tuple ('EnumInteger', '8', 8, 8)"),
 ('platform_position_parameters_update', 'parse', 255, "tuple ('EnumInteger', '255', 255, 255)"),
 ('platform_position_parameters_update', 'parse', 256, "tuple ('EnumInteger', '256', 256, 256)"),
 ('platform_position_parameters_update',
  'parse',
  65535,
  "tuple ('EnumInteger', '65535', 65535, 65535)"),
 ('platform_position_parameters_update',
  'parse short',
  b'',
  'raised construct.core.StreamError: Error in path (parsing)\n'
  'stream read less than specified amount, expected 4, found 0'),
 ('platform_position_parameters_update',
  'parse short',
  b'\x00',
  'raised construct.core.StreamError: Error in path (parsing)\n'
  'stream read less than specified amount, expected 4, found 1'),
 ('platform_position_parameters_update',
  'parse short',
  b'\x00\x00\x00',
  'raised construct.core.StreamError: Error in path (parsing)\n'
  'stream read less than specified amount, expected 4, found 3'),
 ('platform_position_parameters_update',
  'build',
  "'L'",
  'raised construct.core.MappingError: Error in path (building)\n'
  "building failed, no mapping for 'L'"),
 ('platform_position_parameters_update',
  'build',
  "'S'",
  'raised construct.core.MappingError: Error in path (building)\n'
  "building failed, no mapping for 'S'"),
 ('platform_position_parameters_update',
  'build',
  "'C'",
  'raised construct.core.MappingError: Error in path (building)\n'
  "building failed, no mapping for 'C'"),
 ('platform_position_parameters_update',
  'build',
  "'X'",
  'raised construct.core.MappingError: Error in path (building)\n'
  "building failed, no mapping for 'X'"),
 ('platform_position_parameters_update',
  'build',
  "'KU'",
  'raised construct.core.MappingError: Error in path (building)\n'
  "building failed, no mapping for 'KU'"),
 ('platform_position_parameters_update',
  'build',
  "'KA'",
  'raised construct.core.MappingError: Error in path (building)\n'
  "building failed, no mapping for 'KA'"),
 ('platform_position_parameters_update',
  'build',
  "'l'",
  'raised construct.core.MappingError: Error in path (building)\n'
  "building failed, no mapping for 'l'"),
 ('platform_position_parameters_update',
  'build',
  "'Ku'",
  'raised construct.core.MappingError: Error in path (building)\n'
  "building failed, no mapping for 'Ku'"),
 ('platform_position_parameters_update',
  'build',
  "'K'",
  'raised construct.core.MappingError: Error in path (building)\n'
  "building failed, no mapping for 'K'"),
 ('platform_position_parameters_update',
  'build',
  "''",
  'raised construct.core.MappingError: Error in path (building)\n'
  "building failed, no mapping for ''"),
 ('platform_position_parameters_update',
  'build',
  "'single_polarization'",
  'raised construct.core.MappingError: Error in path (building)\n'
  "building failed, no mapping for 'single_polarization'"),
 ('platform_position_parameters_update',
  'build',
  "'dual_polarization'",
  'raised construct.core.MappingError: Error in path (building)\n'
  "building failed, no mapping for 'dual_polarization'"),
 ('platform_position_parameters_update',
  'build',
  "'full_polarization'",
  'raised construct.core.MappingError: Error in path (building)\n'
  "building failed, no mapping for 'full_polarization'"),
 ('platform_position_parameters_update',
  'build',
  "'horizontal'",
  'raised construct.core.MappingError: Error in path (building)\n'
  "building failed, no mapping for 'horizontal'"),
 ('platform_position_parameters_update',
  'build',
  "'vertical'",
  'raised construct.core.MappingError: Error in path (building)\n'
  "building failed, no mapping for 'vertical'"),
 ('platform_position_parameters_update',
  'build',
  "'linear_fm_chirp'",
  'raised construct.core.MappingError: Error in path (building)\n'
  "building failed, no mapping for 'linear_fm_chirp'"),
 ('platform_position_parameters_update',
  'build',
  "'phase_modulators'",
  'raised construct.core.MappingError: Error in path (building)\n'
  "building failed, no mapping for 'phase_modulators'"),
 ('platform_position_parameters_update', 'build', "'repeat'", "bytes b'\\x00\\x00\\x00\\x00'"),
 ('platform_position_parameters_update', 'build', "'update'", "bytes b'\\x00\\x00\\x00\\x01'"),
 ('platform_position_parameters_update', 'build', '0', "bytes b'\\x00\\x00\\x00\\x00'"),
 ('platform_position_parameters_update', 'build', '1', "bytes b'\\x00\\x00\\x00\\x01'"),
 ('platform_position_parameters_update', 'build', '2', "bytes b'\\x00\\x00\\x00\\x02'"),
 ('platform_position_parameters_update', 'build', '3', "bytes b'\\x00\\x00\\x00\\x03'"),
 ('platform_position_parameters_update', 'build', '4', "bytes b'\\x00\\x00\\x00\\x04'"),
 ('platform_position_parameters_update', 'build', '5', "bytes b'\\x00\\x00\\x00\\x05'"),
 ('platform_position_parameters_update', 'build', '6', "bytes b'\\x00\\x00\\x00\\x06'"),
 ('platform_position_parameters_update', 'build', '7', "bytes b'\\x00\\x00\\x00\\x07'"),
 ('platform_position_parameters_update', 'build', '65535', "bytes b'\\x00\\x00\\xff\\xff'"),
 ('platform_position_parameters_update', 'build', '65536', "bytes b'\\x00\\x01\\x00\\x00'"),
 ('platform_position_parameters_update',
  'build',
  '-1',
  'raised construct.core.FormatFieldError: Error in path (building)\n'
  "struct '>L' error during building, given value -1"),
 ('platform_position_parameters_update',
  'build',
  'None',
  'raised construct.core.MappingError: Error in path (building)\n'
  'building failed, no mapping for None'),
 ('platform_position_parameters_update',
  'build',
  '1.0',
  'raised construct.core.MappingError: Error in path (building)\n'
  'building failed, no mapping for 1.0'),
 ('platform_position_parameters_update', 'getattr', 'L', 'raised builtins.AttributeError: '),
 ('platform_position_parameters_update', 'getattr', 'S', 'raised builtins.AttributeError: '),
 ('platform_position_parameters_update', 'getattr', 'C', 'raised builtins.AttributeError: '),
 ('platform_position_parameters_update', 'getattr', 'X', 'raised builtins.AttributeError: '),
 ('platform_position_parameters_update', 'getattr', 'KU', 'raised builtins.AttributeError: '),
 ('platform_position_parameters_update', 'getattr', 'KA', 'raised builtins.AttributeError: '),
 ('platform_position_parameters_update',
  'getattr',
  'horizontal',
  'raised builtins.AttributeError: '),
 ('platform_position_parameters_update',
  'getattr',
  'repeat',
  "tuple ('EnumIntegerString', 'repeat', 0)"),
 ('platform_position_parameters_update', 'getattr', 'nope', 'raised builtins.AttributeError: '),
 ('platform_position_parameters_update', 'getattr', '_bands', 'raised builtins.AttributeError: '),
 ('public names',
  ['Adapter',
   'Enum',
   'Flag',
   'Int16ub',
   'Int32ub',
   'Int64ub',
   'Int8ub',
   'chirp_type_designator',
   'platform_position_parameters_update',
   'pulse_polarization',
   'sar_channel_code',
   'sar_channel_id']),
 ('construct', '2.10.70')]


def test_equivalence():
    observed = observe()
    assert len(observed) == len(EXPECTED)
    for actual, expected in zip(observed, EXPECTED):
        assert actual == expected
    assert observed == EXPECTED


if __name__ == "__main__":
    test_equivalence()
    print(f"ok: {len(EXPECTED)} observations identical")
