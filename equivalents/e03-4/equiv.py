"""Equivalence check for refactoring 4 (sar_image/__init__.py::open_image, sar_image/cli.py).

Run from the repository root:

    PYTHONPATH=. python _eq/4/equiv.py          # check against the recorded values
    PYTHONPATH=. python _eq/4/equiv.py --print  # print the observed values

The EXPECTED table was recorded with the unchanged code (clean HEAD); the
script has to pass both with and without patch.diff applied.

No real ALOS-2 image is needed: the two parsing stages used by ``open_image``
(``read_metadata`` and ``transform_metadata``, looked up as globals of
``ceos_alos2.sar_image``) are replaced by recording stubs; everything else
(cache lookup, cache creation, file access through fsspec, the CLI) is real
and works on temporary directories.
"""

import contextlib
import io
import json
import os
import pathlib
import shutil
import sys
import tempfile
import warnings

import fsspec
import numpy as np

import ceos_alos2.sar_image as sar_image
from ceos_alos2.array import Array
from ceos_alos2.hierarchy import Group, Variable
from ceos_alos2.sar_image import caching, cli

IMAGE = "IMG-HH-ALOS2225333100-180726-WWDR1.1__D-B3"
IMAGE2 = "IMG-HV-ALOS2290760600-191011-WWDR1.5RUA"
BYTE_RANGES = [(5, 10), (15, 20), (25, 30), (35, 40)]

LOG = []


def fake_read_metadata(*args, **kwargs):
    f, *rest = args
    content = f.read()
    LOG.append(("read_metadata", content, tuple(rest), kwargs))
    if content == b"unreadable":
        raise ValueError("fake: cannot parse the records")
    return content, [{"data": {"start": a, "stop": b}} for a, b in BYTE_RANGES]


def fake_transform_metadata(*args, **kwargs):
    header, metadata = args
    LOG.append(("transform_metadata", header, len(metadata), kwargs))
    if header == b"untransformable":
        raise ValueError("fake: unknown type code")
    group = Group(
        path=None,
        url=None,
        data={"line": Variable("rows", np.arange(4, dtype="int8"), {"u": (1, 2)})},
        attrs={"header": header.decode(), "coordinates": ["line"]},
    )
    array_metadata = {
        "type_code": "IU2",
        "shape": (4, 3),
        "dtype": "uint16",
        "byte_ranges": [(m["data"]["start"], m["data"]["stop"]) for m in metadata],
    }
    return group, array_metadata


def describe(obj):
    if isinstance(obj, Group):
        return {
            "Group": {
                "path": obj.path,
                "url": obj.url,
                "attrs": describe(obj.attrs),
                "data": {k: describe(v) for k, v in obj.data.items()},
            }
        }
    if isinstance(obj, Variable):
        return {"Variable": {"dims": obj.dims, "attrs": obj.attrs, "data": describe(obj.data)}}
    if isinstance(obj, Array):
        return {
            "Array": {
                "fs": f"{type(obj.fs).__name__}(path={obj.fs.path!r}, "
                f"fs={type(obj.fs.fs).__name__})",
                "url": obj.url,
                "byte_ranges": obj.byte_ranges,
                "shape": obj.shape,
                "dtype": obj.dtype,
                "type_code": obj.type_code,
                "records_per_chunk": obj.records_per_chunk,
            }
        }
    if isinstance(obj, np.ndarray):
        return {"ndarray": {"dtype": str(obj.dtype), "data": obj.tolist()}}
    if isinstance(obj, dict):
        return {k: describe(v) for k, v in obj.items()}
    if isinstance(obj, (list, tuple)):
        return type(obj)(describe(v) for v in obj)
    return obj


def cache_document(marker):
    """a cache file whose content is recognisably different from what the stubs produce"""
    return json.dumps(
        {
            "__type__": "group",
            "url": None,
            "data": {
                "data": {
                    "__type__": "variable",
                    "dims": ["rows", "columns"],
                    "data": {
                        "__type__": "backend_array",
                        "root": "memory:///path/to",
                        "url": marker,
                        "shape": {"__type__": "tuple", "data": [4, 3]},
                        "dtype": "uint16",
                        "byte_ranges": [{"__type__": "tuple", "data": list(r)} for r in BYTE_RANGES],
                        "type_code": "IU2",
                    },
                    "attrs": {},
                }
            },
            "path": marker,
            "attrs": {"from": marker},
        }
    )


class Env:
    def __init__(self):
        self.tmp = pathlib.Path(tempfile.mkdtemp(prefix="eq4-")).resolve()
        self.data = self.tmp / "data"
        self.data.mkdir()
        self.cache_root = self.tmp / "cache"
        self.mapper = fsspec.get_mapper(self.data.as_uri())
        self.saved = {
            "cache_root": caching.path.cache_root,
            "read_metadata": sar_image.read_metadata,
            "transform_metadata": sar_image.transform_metadata,
            "cwd": os.getcwd(),
            "argv": sys.argv,
            "columns": os.environ.get("COLUMNS"),
        }
        caching.path.cache_root = self.cache_root
        sar_image.read_metadata = fake_read_metadata
        sar_image.transform_metadata = fake_transform_metadata
        os.environ["COLUMNS"] = "80"
        LOG.clear()

    def image(self, name=IMAGE, content=b"header-bytes"):
        (self.data / name).write_bytes(content)
        return self.data / name

    def local(self, name):
        return caching.local_cache_location(self.mapper.root, name)

    def put_local(self, name, content):
        target = self.local(name)
        target.parent.mkdir(parents=True, exist_ok=True)
        target.write_text(content)

    def listing(self):
        hashed = caching.path.hashsum(self.mapper.root)
        result = {}
        for p in sorted(self.tmp.rglob("*")):
            rel = p.relative_to(self.tmp).as_posix().replace(hashed, "<hash>")
            result[rel] = "<dir>" if p.is_dir() else p.read_bytes()
        return result

    def scrub(self, text):
        return text.replace(str(self.tmp), "<tmp>")

    def close(self):
        caching.path.cache_root = self.saved["cache_root"]
        sar_image.read_metadata = self.saved["read_metadata"]
        sar_image.transform_metadata = self.saved["transform_metadata"]
        os.chdir(self.saved["cwd"])
        sys.argv = self.saved["argv"]
        if self.saved["columns"] is None:
            os.environ.pop("COLUMNS", None)
        else:
            os.environ["COLUMNS"] = self.saved["columns"]
        shutil.rmtree(self.tmp, ignore_errors=True)


def scenario(func):
    """run ``func(env)``; observe its result or exception, the stub log and the files"""

    def wrapper():
        env = Env()
        try:
            try:
                result = func(env)
            except BaseException as e:  # noqa: BLE001 - SystemExit is an expected observation
                context = e.__context__
                outcome = (
                    f"RAISES {type(e).__module__}.{type(e).__qualname__}: {e}"
                    f" [args={e.args!r}"
                    f" context={type(context).__qualname__ if context is not None else None}]"
                )
            else:
                outcome = f"{type(result).__name__}: {describe(result)!r}"
            observation = {"outcome": outcome, "log": list(LOG), "files": env.listing()}
            return env.scrub(repr(observation))
        finally:
            env.close()

    return wrapper


# ----------------------------------------------------------------------------------
# open_image


@scenario
def open_no_cache(env):
    env.image()
    return sar_image.open_image(env.mapper, IMAGE)


@scenario
def open_no_cache_rpc_2(env):
    env.image()
    return sar_image.open_image(env.mapper, IMAGE, records_per_chunk=2)


@scenario
def open_no_cache_rpc_auto(env):
    env.image(IMAGE2)
    return sar_image.open_image(env.mapper, IMAGE2, records_per_chunk="auto")


@scenario
def open_remote_cache_hit(env):
    env.image()
    env.image(f"{IMAGE}.index", cache_document("remote").encode())
    return sar_image.open_image(env.mapper, IMAGE, records_per_chunk=3)


@scenario
def open_local_cache_hit(env):
    env.image()
    env.put_local(IMAGE, cache_document("local"))
    env.image(f"{IMAGE}.index", cache_document("remote").encode())
    return sar_image.open_image(env.mapper, IMAGE, use_cache=True, records_per_chunk=None)


@scenario
def open_cache_hit_without_image(env):
    env.image(f"{IMAGE}.index", cache_document("remote").encode())
    return sar_image.open_image(env.mapper, IMAGE)


@scenario
def open_cache_hit_does_not_create(env):
    env.image()
    env.image(f"{IMAGE}.index", cache_document("remote").encode())
    return sar_image.open_image(env.mapper, IMAGE, create_cache=True)


@scenario
def open_cache_ignored(env):
    env.image()
    env.put_local(IMAGE, cache_document("local"))
    env.image(f"{IMAGE}.index", cache_document("remote").encode())
    return sar_image.open_image(env.mapper, IMAGE, use_cache=False, records_per_chunk=2)


@scenario
def open_broken_cache_falls_back(env):
    env.image()
    env.image(f"{IMAGE}.index", cache_document("remote").encode()[:40])
    return sar_image.open_image(env.mapper, IMAGE)


@scenario
def open_broken_local_cache_falls_back_and_is_rewritten(env):
    env.image()
    env.put_local(IMAGE, "{")
    return sar_image.open_image(env.mapper, IMAGE, create_cache=True, records_per_chunk=2)


@scenario
def open_undecodable_cache_propagates(env):
    env.image()
    env.image(f"{IMAGE}.index", b"null")
    return sar_image.open_image(env.mapper, IMAGE)


@scenario
def open_cache_invalid_utf8_propagates(env):
    env.image()
    env.image(f"{IMAGE}.index", b"\xff")
    return sar_image.open_image(env.mapper, IMAGE, create_cache=True)


@scenario
def open_create_cache(env):
    env.image()
    return sar_image.open_image(env.mapper, IMAGE, create_cache=True, records_per_chunk=2)


@scenario
def open_create_cache_without_lookup(env):
    env.image()
    env.put_local(IMAGE, "stale")
    return sar_image.open_image(env.mapper, IMAGE, use_cache=False, create_cache=True)


@scenario
def open_create_then_reopen(env):
    env.image()
    first = sar_image.open_image(env.mapper, IMAGE, create_cache=True, records_per_chunk=2)
    (env.data / IMAGE).unlink()
    second = sar_image.open_image(env.mapper, IMAGE, records_per_chunk=4)
    return first == second, second


@scenario
def open_missing_image(env):
    return sar_image.open_image(env.mapper, IMAGE, create_cache=True)


@scenario
def open_missing_image_no_cache_lookup(env):
    return sar_image.open_image(env.mapper, IMAGE, use_cache=False)


@scenario
def open_invalid_filename(env):
    env.image("not-an-alos2-name")
    return sar_image.open_image(env.mapper, "not-an-alos2-name", create_cache=True)


@scenario
def open_unreadable(env):
    env.image(content=b"unreadable")
    return sar_image.open_image(env.mapper, IMAGE, create_cache=True)


@scenario
def open_untransformable(env):
    env.image(content=b"untransformable")
    return sar_image.open_image(env.mapper, IMAGE, create_cache=True)


@scenario
def open_bad_rpc(env):
    env.image()
    return sar_image.open_image(env.mapper, IMAGE, create_cache=True, records_per_chunk="a lot")


@scenario
def open_options_are_keyword_only(env):
    env.image()
    return sar_image.open_image(env.mapper, IMAGE, False)


@scenario
def open_mapper_without_root(env):
    return sar_image.open_image({}, IMAGE, use_cache=False)


@scenario
def open_truthy_flags(env):
    env.image()
    return sar_image.open_image(env.mapper, IMAGE, use_cache=0, create_cache="yes")


# ----------------------------------------------------------------------------------
# cli.create_cache


@scenario
def cli_beside_image(env):
    return cli.create_cache(env.image(), None, 2)


@scenario
def cli_keyword_call(env):
    return cli.create_cache(image_path=env.image(), cache_root=None, records_per_chunk=None)


@scenario
def cli_explicit_root(env):
    target = env.tmp / "elsewhere"
    target.mkdir()
    return cli.create_cache(env.image(), target, 4096)


@scenario
def cli_existing_caches_are_ignored_and_overwritten(env):
    image = env.image()
    env.put_local(IMAGE, cache_document("local"))
    env.image(f"{IMAGE}.index", cache_document("remote").encode())
    return cli.create_cache(image, None, 2)


@scenario
def cli_missing_image(env):
    return cli.create_cache(env.data / IMAGE, None, 2)


@scenario
def cli_image_is_directory(env):
    return cli.create_cache(env.data, None, 2)


@scenario
def cli_missing_root(env):
    return cli.create_cache(env.image(), env.tmp / "missing", 2)


@scenario
def cli_root_is_file(env):
    image = env.image()
    return cli.create_cache(image, image, 2)


@scenario
def cli_missing_image_and_missing_root(env):
    return cli.create_cache(env.data / IMAGE, env.tmp / "missing", 2)


@scenario
def cli_relative_image_path(env):
    env.image()
    os.chdir(env.data)
    return cli.create_cache(pathlib.Path(IMAGE), None, 2)


@scenario
def cli_relative_image_path_explicit_root(env):
    env.image()
    os.chdir(env.data)
    return cli.create_cache(pathlib.Path(IMAGE), pathlib.Path("."), 2)


@scenario
def cli_invalid_filename(env):
    return cli.create_cache(env.image("image"), None, 2)


@scenario
def cli_str_paths(env):
    return cli.create_cache(str(env.image()), None, 2)


@scenario
def cli_root_without_is_dir(env):
    return cli.create_cache(env.image(), str(env.tmp), 2)


# ----------------------------------------------------------------------------------
# cli.main


def run_main(env, *argv):
    sys.argv = ["ceos-alos2-create-cache", *argv]
    out, err = io.StringIO(), io.StringIO()
    status = "returned"
    try:
        with contextlib.redirect_stdout(out), contextlib.redirect_stderr(err):
            result = cli.main()
    except SystemExit as e:
        status = f"SystemExit({e.code!r})"
        result = None
    return {"status": status, "result": result, "stdout": out.getvalue(), "stderr": err.getvalue()}


@scenario
def main_default(env):
    return run_main(env, str(env.image()))


@scenario
def main_rpc_and_root(env):
    target = env.tmp / "elsewhere"
    target.mkdir()
    return run_main(env, "--rpc", "2", str(env.image()), str(target))


@scenario
def main_rpc_equals(env):
    return run_main(env, "--rpc=3", str(env.image()))


@scenario
def main_rpc_without_value(env):
    return run_main(env, str(env.image()), "--rpc")


@scenario
def main_rpc_not_an_int(env):
    return run_main(env, "--rpc", "auto", str(env.image()))


@scenario
def main_rpc_swallows_path(env):
    return run_main(env, "--rpc", str(env.image()))


@scenario
def main_missing_image(env):
    return run_main(env, str(env.data / IMAGE))


@scenario
def main_missing_root(env):
    return run_main(env, str(env.image()), str(env.tmp / "missing"))


@scenario
def main_no_arguments(env):
    return run_main(env)


@scenario
def main_too_many_arguments(env):
    return run_main(env, "a", "b", "c")


@scenario
def main_unknown_option(env):
    return run_main(env, "--records-per-chunk", "2", "a")


@scenario
def main_help(env):
    return run_main(env, "--help")


@scenario
def main_relative_path_error_propagates(env):
    env.image()
    os.chdir(env.data)
    return run_main(env, IMAGE)


@scenario
def main_invalid_filename_error_propagates(env):
    return run_main(env, str(env.image("image")))


def parser_defaults():
    # independent of the refactoring: what ``main`` hands over for a minimal command line
    sys_argv = sys.argv
    sys.argv = ["prog", "some/image"]
    captured = {}
    original = cli.create_cache
    cli.create_cache = lambda *args, **kwargs: captured.update(args=args, kwargs=kwargs)
    try:
        cli.main()
    finally:
        cli.create_cache = original
        sys.argv = sys_argv
    # normalise how the third argument is passed (that is what the refactoring changes)
    values = list(captured["args"]) + [captured["kwargs"][k] for k in sorted(captured["kwargs"])]
    return repr(values)


CASES = {
    "open/no-cache": open_no_cache,
    "open/no-cache-rpc-2": open_no_cache_rpc_2,
    "open/no-cache-rpc-auto": open_no_cache_rpc_auto,
    "open/remote-cache-hit": open_remote_cache_hit,
    "open/local-cache-hit": open_local_cache_hit,
    "open/cache-hit-without-image": open_cache_hit_without_image,
    "open/cache-hit-does-not-create": open_cache_hit_does_not_create,
    "open/cache-ignored": open_cache_ignored,
    "open/broken-cache-falls-back": open_broken_cache_falls_back,
    "open/broken-local-cache-is-rewritten": open_broken_local_cache_falls_back_and_is_rewritten,
    "open/undecodable-cache-propagates": open_undecodable_cache_propagates,
    "open/cache-invalid-utf8-propagates": open_cache_invalid_utf8_propagates,
    "open/create-cache": open_create_cache,
    "open/create-cache-without-lookup": open_create_cache_without_lookup,
    "open/create-then-reopen": open_create_then_reopen,
    "open/missing-image": open_missing_image,
    "open/missing-image-no-cache-lookup": open_missing_image_no_cache_lookup,
    "open/invalid-filename": open_invalid_filename,
    "open/unreadable": open_unreadable,
    "open/untransformable": open_untransformable,
    "open/bad-rpc": open_bad_rpc,
    "open/options-are-keyword-only": open_options_are_keyword_only,
    "open/mapper-without-root": open_mapper_without_root,
    "open/truthy-flags": open_truthy_flags,
    "cli/beside-image": cli_beside_image,
    "cli/keyword-call": cli_keyword_call,
    "cli/explicit-root": cli_explicit_root,
    "cli/existing-caches-ignored-and-overwritten": cli_existing_caches_are_ignored_and_overwritten,
    "cli/missing-image": cli_missing_image,
    "cli/image-is-directory": cli_image_is_directory,
    "cli/missing-root": cli_missing_root,
    "cli/root-is-file": cli_root_is_file,
    "cli/missing-image-and-missing-root": cli_missing_image_and_missing_root,
    "cli/relative-image-path": cli_relative_image_path,
    "cli/relative-image-path-explicit-root": cli_relative_image_path_explicit_root,
    "cli/invalid-filename": cli_invalid_filename,
    "cli/str-paths": cli_str_paths,
    "cli/root-without-is_dir": cli_root_without_is_dir,
    "main/default": main_default,
    "main/rpc-and-root": main_rpc_and_root,
    "main/rpc-equals": main_rpc_equals,
    "main/rpc-without-value": main_rpc_without_value,
    "main/rpc-not-an-int": main_rpc_not_an_int,
    "main/rpc-swallows-path": main_rpc_swallows_path,
    "main/missing-image": main_missing_image,
    "main/missing-root": main_missing_root,
    "main/no-arguments": main_no_arguments,
    "main/too-many-arguments": main_too_many_arguments,
    "main/unknown-option": main_unknown_option,
    "main/help": main_help,
    "main/relative-path-error-propagates": main_relative_path_error_propagates,
    "main/invalid-filename-error-propagates": main_invalid_filename_error_propagates,
    "main/parser-defaults": parser_defaults,
}


EXPECTED = {
    'open/no-cache': (
        '{\'outcome\': \'Group: {\\\'Group\\\': {\\\'path\\\': \\\'HH_scan3\\\', \\\'url\\\': None, \\\'attrs\\\': {\\\'header\\\': \\\'header-bytes\\\', \\\'coordinates\\\': [\\\'line\\\']}, \\\'data\\\': {\\\'line\\\': {\\\'Variable\\\': {\\\'dims\\\': [\\\'rows\\\'], \\\'attrs\\\': {\\\'u\\\': (1, 2)}, \\\'data\\\': {\\\'ndarray\\\': {\\\'dtype\\\': \\\'int8\\\', \\\'data\\\': [0, 1, 2, 3]}}}}, \\\'data\\\': {\\\'Variable\\\': {\\\'dims\\\': [\\\'rows\\\', \\\'columns\\\'], \\\'attrs\\\': {}, \\\'data\\\': {\\\'Array\\\': {\\\'fs\\\': "DirFileSystem(path=\\\'<tmp>/data\\\', fs=LocalFileSystem)", \\\'url\\\': \\\'IMG-HH-ALOS2225333100-180726-WWDR1.1__D-B3\\\', \\\'byte_ranges\\\': [(5, 10), (15, 20), (25, 30), (35, 40)], \\\'shape\\\': (4, 3), \\\'dtype\\\': \\\'uint16\\\', \\\'type_code\\\': \\\'IU2\\\', \\\'records_per_chunk\\\': 1024}}}}}}}\', \'log\': [(\'read_metadata\', b\'header-bytes\', (None,), {}), (\'transform_metadata\', b\'header-bytes\', 4, {})], \'files\': {\'data\': \'<dir>\', \'data/IMG-HH-ALOS2225333100-180726-WWDR1.1__D-B3\': b\'header-bytes\'}}'
    ),
    'open/no-cache-rpc-2': (
        '{\'outcome\': \'Group: {\\\'Group\\\': {\\\'path\\\': \\\'HH_scan3\\\', \\\'url\\\': None, \\\'attrs\\\': {\\\'header\\\': \\\'header-bytes\\\', \\\'coordinates\\\': [\\\'line\\\']}, \\\'data\\\': {\\\'line\\\': {\\\'Variable\\\': {\\\'dims\\\': [\\\'rows\\\'], \\\'attrs\\\': {\\\'u\\\': (1, 2)}, \\\'data\\\': {\\\'ndarray\\\': {\\\'dtype\\\': \\\'int8\\\', \\\'data\\\': [0, 1, 2, 3]}}}}, \\\'data\\\': {\\\'Variable\\\': {\\\'dims\\\': [\\\'rows\\\', \\\'columns\\\'], \\\'attrs\\\': {}, \\\'data\\\': {\\\'Array\\\': {\\\'fs\\\': "DirFileSystem(path=\\\'<tmp>/data\\\', fs=LocalFileSystem)", \\\'url\\\': \\\'IMG-HH-ALOS2225333100-180726-WWDR1.1__D-B3\\\', \\\'byte_ranges\\\': [(5, 10), (15, 20), (25, 30), (35, 40)], \\\'shape\\\': (4, 3), \\\'dtype\\\': \\\'uint16\\\', \\\'type_code\\\': \\\'IU2\\\', \\\'records_per_chunk\\\': 2}}}}}}}\', \'log\': [(\'read_metadata\', b\'header-bytes\', (2,), {}), (\'transform_metadata\', b\'header-bytes\', 4, {})], \'files\': {\'data\': \'<dir>\', \'data/IMG-HH-ALOS2225333100-180726-WWDR1.1__D-B3\': b\'header-bytes\'}}'
    ),
    'open/no-cache-rpc-auto': (
        '{\'outcome\': \'Group: {\\\'Group\\\': {\\\'path\\\': \\\'HV\\\', \\\'url\\\': None, \\\'attrs\\\': {\\\'header\\\': \\\'header-bytes\\\', \\\'coordinates\\\': [\\\'line\\\']}, \\\'data\\\': {\\\'line\\\': {\\\'Variable\\\': {\\\'dims\\\': [\\\'rows\\\'], \\\'attrs\\\': {\\\'u\\\': (1, 2)}, \\\'data\\\': {\\\'ndarray\\\': {\\\'dtype\\\': \\\'int8\\\', \\\'data\\\': [0, 1, 2, 3]}}}}, \\\'data\\\': {\\\'Variable\\\': {\\\'dims\\\': [\\\'rows\\\', \\\'columns\\\'], \\\'attrs\\\': {}, \\\'data\\\': {\\\'Array\\\': {\\\'fs\\\': "DirFileSystem(path=\\\'<tmp>/data\\\', fs=LocalFileSystem)", \\\'url\\\': \\\'IMG-HV-ALOS2290760600-191011-WWDR1.5RUA\\\', \\\'byte_ranges\\\': [(5, 10), (15, 20), (25, 30), (35, 40)], \\\'shape\\\': (4, 3), \\\'dtype\\\': \\\'uint16\\\', \\\'type_code\\\': \\\'IU2\\\', \\\'records_per_chunk\\\': np.int64(4)}}}}}}}\', \'log\': [(\'read_metadata\', b\'header-bytes\', (\'auto\',), {}), (\'transform_metadata\', b\'header-bytes\', 4, {})], \'files\': {\'data\': \'<dir>\', \'data/IMG-HV-ALOS2290760600-191011-WWDR1.5RUA\': b\'header-bytes\'}}'
    ),
    'open/remote-cache-hit': (
        '{\'outcome\': \'Group: {\\\'Group\\\': {\\\'path\\\': \\\'remote\\\', \\\'url\\\': None, \\\'attrs\\\': {\\\'from\\\': \\\'remote\\\'}, \\\'data\\\': {\\\'data\\\': {\\\'Variable\\\': {\\\'dims\\\': [\\\'rows\\\', \\\'columns\\\'], \\\'attrs\\\': {}, \\\'data\\\': {\\\'Array\\\': {\\\'fs\\\': "DirFileSystem(path=\\\'/path/to\\\', fs=MemoryFileSystem)", \\\'url\\\': \\\'remote\\\', \\\'byte_ranges\\\': [(5, 10), (15, 20), (25, 30), (35, 40)], \\\'shape\\\': (4, 3), \\\'dtype\\\': \\\'uint16\\\', \\\'type_code\\\': \\\'IU2\\\', \\\'records_per_chunk\\\': 3}}}}}}}\', \'log\': [], \'files\': {\'data\': \'<dir>\', \'data/IMG-HH-ALOS2225333100-180726-WWDR1.1__D-B3\': b\'header-bytes\', \'data/IMG-HH-ALOS2225333100-180726-WWDR1.1__D-B3.index\': b\'{"__type__": "group", "url": null, "data": {"data": {"__type__": "variable", "dims": ["rows", "columns"], "data": {"__type__": "backend_array", "root": "memory:///path/to", "url": "remote", "shape": {"__type__": "tuple", "data": [4, 3]}, "dtype": "uint16", "byte_ranges": [{"__type__": "tuple", "data": [5, 10]}, {"__type__": "tuple", "data": [15, 20]}, {"__type__": "tuple", "data": [25, 30]}, {"__type__": "tuple", "data": [35, 40]}], "type_code": "IU2"}, "attrs": {}}}, "path": "remote", "attrs": {"from": "remote"}}\'}}'
    ),
    'open/local-cache-hit': (
        '{\'outcome\': \'Group: {\\\'Group\\\': {\\\'path\\\': \\\'local\\\', \\\'url\\\': None, \\\'attrs\\\': {\\\'from\\\': \\\'local\\\'}, \\\'data\\\': {\\\'data\\\': {\\\'Variable\\\': {\\\'dims\\\': [\\\'rows\\\', \\\'columns\\\'], \\\'attrs\\\': {}, \\\'data\\\': {\\\'Array\\\': {\\\'fs\\\': "DirFileSystem(path=\\\'/path/to\\\', fs=MemoryFileSystem)", \\\'url\\\': \\\'local\\\', \\\'byte_ranges\\\': [(5, 10), (15, 20), (25, 30), (35, 40)], \\\'shape\\\': (4, 3), \\\'dtype\\\': \\\'uint16\\\', \\\'type_code\\\': \\\'IU2\\\', \\\'records_per_chunk\\\': 1024}}}}}}}\', \'log\': [], \'files\': {\'cache\': \'<dir>\', \'cache/<hash>\': \'<dir>\', \'cache/<hash>/IMG-HH-ALOS2225333100-180726-WWDR1.1__D-B3.index\': b\'{"__type__": "group", "url": null, "data": {"data": {"__type__": "variable", "dims": ["rows", "columns"], "data": {"__type__": "backend_array", "root": "memory:///path/to", "url": "local", "shape": {"__type__": "tuple", "data": [4, 3]}, "dtype": "uint16", "byte_ranges": [{"__type__": "tuple", "data": [5, 10]}, {"__type__": "tuple", "data": [15, 20]}, {"__type__": "tuple", "data": [25, 30]}, {"__type__": "tuple", "data": [35, 40]}], "type_code": "IU2"}, "attrs": {}}}, "path": "local", "attrs": {"from": "local"}}\', \'data\': \'<dir>\', \'data/IMG-HH-ALOS2225333100-180726-WWDR1.1__D-B3\': b\'header-bytes\', \'data/IMG-HH-ALOS2225333100-180726-WWDR1.1__D-B3.index\': b\'{"__type__": "group", "url": null, "data": {"data": {"__type__": "variable", "dims": ["rows", "columns"], "data": {"__type__": "backend_array", "root": "memory:///path/to", "url": "remote", "shape": {"__type__": "tuple", "data": [4, 3]}, "dtype": "uint16", "byte_ranges": [{"__type__": "tuple", "data": [5, 10]}, {"__type__": "tuple", "data": [15, 20]}, {"__type__": "tuple", "data": [25, 30]}, {"__type__": "tuple", "data": [35, 40]}], "type_code": "IU2"}, "attrs": {}}}, "path": "remote", "attrs": {"from": "remote"}}\'}}'
    ),
    'open/cache-hit-without-image': (
        '{\'outcome\': \'Group: {\\\'Group\\\': {\\\'path\\\': \\\'remote\\\', \\\'url\\\': None, \\\'attrs\\\': {\\\'from\\\': \\\'remote\\\'}, \\\'data\\\': {\\\'data\\\': {\\\'Variable\\\': {\\\'dims\\\': [\\\'rows\\\', \\\'columns\\\'], \\\'attrs\\\': {}, \\\'data\\\': {\\\'Array\\\': {\\\'fs\\\': "DirFileSystem(path=\\\'/path/to\\\', fs=MemoryFileSystem)", \\\'url\\\': \\\'remote\\\', \\\'byte_ranges\\\': [(5, 10), (15, 20), (25, 30), (35, 40)], \\\'shape\\\': (4, 3), \\\'dtype\\\': \\\'uint16\\\', \\\'type_code\\\': \\\'IU2\\\', \\\'records_per_chunk\\\': 1024}}}}}}}\', \'log\': [], \'files\': {\'data\': \'<dir>\', \'data/IMG-HH-ALOS2225333100-180726-WWDR1.1__D-B3.index\': b\'{"__type__": "group", "url": null, "data": {"data": {"__type__": "variable", "dims": ["rows", "columns"], "data": {"__type__": "backend_array", "root": "memory:///path/to", "url": "remote", "shape": {"__type__": "tuple", "data": [4, 3]}, "dtype": "uint16", "byte_ranges": [{"__type__": "tuple", "data": [5, 10]}, {"__type__": "tuple", "data": [15, 20]}, {"__type__": "tuple", "data": [25, 30]}, {"__type__": "tuple", "data": [35, 40]}], "type_code": "IU2"}, "attrs": {}}}, "path": "remote", "attrs": {"from": "remote"}}\'}}'
    ),
    'open/cache-hit-does-not-create': (
        '{\'outcome\': \'Group: {\\\'Group\\\': {\\\'path\\\': \\\'remote\\\', \\\'url\\\': None, \\\'attrs\\\': {\\\'from\\\': \\\'remote\\\'}, \\\'data\\\': {\\\'data\\\': {\\\'Variable\\\': {\\\'dims\\\': [\\\'rows\\\', \\\'columns\\\'], \\\'attrs\\\': {}, \\\'data\\\': {\\\'Array\\\': {\\\'fs\\\': "DirFileSystem(path=\\\'/path/to\\\', fs=MemoryFileSystem)", \\\'url\\\': \\\'remote\\\', \\\'byte_ranges\\\': [(5, 10), (15, 20), (25, 30), (35, 40)], \\\'shape\\\': (4, 3), \\\'dtype\\\': \\\'uint16\\\', \\\'type_code\\\': \\\'IU2\\\', \\\'records_per_chunk\\\': 1024}}}}}}}\', \'log\': [], \'files\': {\'data\': \'<dir>\', \'data/IMG-HH-ALOS2225333100-180726-WWDR1.1__D-B3\': b\'header-bytes\', \'data/IMG-HH-ALOS2225333100-180726-WWDR1.1__D-B3.index\': b\'{"__type__": "group", "url": null, "data": {"data": {"__type__": "variable", "dims": ["rows", "columns"], "data": {"__type__": "backend_array", "root": "memory:///path/to", "url": "remote", "shape": {"__type__": "tuple", "data": [4, 3]}, "dtype": "uint16", "byte_ranges": [{"__type__": "tuple", "data": [5, 10]}, {"__type__": "tuple", "data": [15, 20]}, {"__type__": "tuple", "data": [25, 30]}, {"__type__": "tuple", "data": [35, 40]}], "type_code": "IU2"}, "attrs": {}}}, "path": "remote", "attrs": {"from": "remote"}}\'}}'
    ),
    'open/cache-ignored': (
        '{\'outcome\': \'Group: {\\\'Group\\\': {\\\'path\\\': \\\'HH_scan3\\\', \\\'url\\\': None, \\\'attrs\\\': {\\\'header\\\': \\\'header-bytes\\\', \\\'coordinates\\\': [\\\'line\\\']}, \\\'data\\\': {\\\'line\\\': {\\\'Variable\\\': {\\\'dims\\\': [\\\'rows\\\'], \\\'attrs\\\': {\\\'u\\\': (1, 2)}, \\\'data\\\': {\\\'ndarray\\\': {\\\'dtype\\\': \\\'int8\\\', \\\'data\\\': [0, 1, 2, 3]}}}}, \\\'data\\\': {\\\'Variable\\\': {\\\'dims\\\': [\\\'rows\\\', \\\'columns\\\'], \\\'attrs\\\': {}, \\\'data\\\': {\\\'Array\\\': {\\\'fs\\\': "DirFileSystem(path=\\\'<tmp>/data\\\', fs=LocalFileSystem)", \\\'url\\\': \\\'IMG-HH-ALOS2225333100-180726-WWDR1.1__D-B3\\\', \\\'byte_ranges\\\': [(5, 10), (15, 20), (25, 30), (35, 40)], \\\'shape\\\': (4, 3), \\\'dtype\\\': \\\'uint16\\\', \\\'type_code\\\': \\\'IU2\\\', \\\'records_per_chunk\\\': 2}}}}}}}\', \'log\': [(\'read_metadata\', b\'header-bytes\', (2,), {}), (\'transform_metadata\', b\'header-bytes\', 4, {})], \'files\': {\'cache\': \'<dir>\', \'cache/<hash>\': \'<dir>\', \'cache/<hash>/IMG-HH-ALOS2225333100-180726-WWDR1.1__D-B3.index\': b\'{"__type__": "group", "url": null, "data": {"data": {"__type__": "variable", "dims": ["rows", "columns"], "data": {"__type__": "backend_array", "root": "memory:///path/to", "url": "local", "shape": {"__type__": "tuple", "data": [4, 3]}, "dtype": "uint16", "byte_ranges": [{"__type__": "tuple", "data": [5, 10]}, {"__type__": "tuple", "data": [15, 20]}, {"__type__": "tuple", "data": [25, 30]}, {"__type__": "tuple", "data": [35, 40]}], "type_code": "IU2"}, "attrs": {}}}, "path": "local", "attrs": {"from": "local"}}\', \'data\': \'<dir>\', \'data/IMG-HH-ALOS2225333100-180726-WWDR1.1__D-B3\': b\'header-bytes\', \'data/IMG-HH-ALOS2225333100-180726-WWDR1.1__D-B3.index\': b\'{"__type__": "group", "url": null, "data": {"data": {"__type__": "variable", "dims": ["rows", "columns"], "data": {"__type__": "backend_array", "root": "memory:///path/to", "url": "remote", "shape": {"__type__": "tuple", "data": [4, 3]}, "dtype": "uint16", "byte_ranges": [{"__type__": "tuple", "data": [5, 10]}, {"__type__": "tuple", "data": [15, 20]}, {"__type__": "tuple", "data": [25, 30]}, {"__type__": "tuple", "data": [35, 40]}], "type_code": "IU2"}, "attrs": {}}}, "path": "remote", "attrs": {"from": "remote"}}\'}}'
    ),
    'open/broken-cache-falls-back': (
        '{\'outcome\': \'Group: {\\\'Group\\\': {\\\'path\\\': \\\'HH_scan3\\\', \\\'url\\\': None, \\\'attrs\\\': {\\\'header\\\': \\\'header-bytes\\\', \\\'coordinates\\\': [\\\'line\\\']}, \\\'data\\\': {\\\'line\\\': {\\\'Variable\\\': {\\\'dims\\\': [\\\'rows\\\'], \\\'attrs\\\': {\\\'u\\\': (1, 2)}, \\\'data\\\': {\\\'ndarray\\\': {\\\'dtype\\\': \\\'int8\\\', \\\'data\\\': [0, 1, 2, 3]}}}}, \\\'data\\\': {\\\'Variable\\\': {\\\'dims\\\': [\\\'rows\\\', \\\'columns\\\'], \\\'attrs\\\': {}, \\\'data\\\': {\\\'Array\\\': {\\\'fs\\\': "DirFileSystem(path=\\\'<tmp>/data\\\', fs=LocalFileSystem)", \\\'url\\\': \\\'IMG-HH-ALOS2225333100-180726-WWDR1.1__D-B3\\\', \\\'byte_ranges\\\': [(5, 10), (15, 20), (25, 30), (35, 40)], \\\'shape\\\': (4, 3), \\\'dtype\\\': \\\'uint16\\\', \\\'type_code\\\': \\\'IU2\\\', \\\'records_per_chunk\\\': 1024}}}}}}}\', \'log\': [(\'read_metadata\', b\'header-bytes\', (None,), {}), (\'transform_metadata\', b\'header-bytes\', 4, {})], \'files\': {\'data\': \'<dir>\', \'data/IMG-HH-ALOS2225333100-180726-WWDR1.1__D-B3\': b\'header-bytes\', \'data/IMG-HH-ALOS2225333100-180726-WWDR1.1__D-B3.index\': b\'{"__type__": "group", "url": null, "data\'}}'
    ),
    'open/broken-local-cache-is-rewritten': (
        '{\'outcome\': \'Group: {\\\'Group\\\': {\\\'path\\\': \\\'HH_scan3\\\', \\\'url\\\': None, \\\'attrs\\\': {\\\'header\\\': \\\'header-bytes\\\', \\\'coordinates\\\': [\\\'line\\\']}, \\\'data\\\': {\\\'line\\\': {\\\'Variable\\\': {\\\'dims\\\': [\\\'rows\\\'], \\\'attrs\\\': {\\\'u\\\': (1, 2)}, \\\'data\\\': {\\\'ndarray\\\': {\\\'dtype\\\': \\\'int8\\\', \\\'data\\\': [0, 1, 2, 3]}}}}, \\\'data\\\': {\\\'Variable\\\': {\\\'dims\\\': [\\\'rows\\\', \\\'columns\\\'], \\\'attrs\\\': {}, \\\'data\\\': {\\\'Array\\\': {\\\'fs\\\': "DirFileSystem(path=\\\'<tmp>/data\\\', fs=LocalFileSystem)", \\\'url\\\': \\\'IMG-HH-ALOS2225333100-180726-WWDR1.1__D-B3\\\', \\\'byte_ranges\\\': [(5, 10), (15, 20), (25, 30), (35, 40)], \\\'shape\\\': (4, 3), \\\'dtype\\\': \\\'uint16\\\', \\\'type_code\\\': \\\'IU2\\\', \\\'records_per_chunk\\\': 2}}}}}}}\', \'log\': [(\'read_metadata\', b\'header-bytes\', (2,), {}), (\'transform_metadata\', b\'header-bytes\', 4, {})], \'files\': {\'cache\': \'<dir>\', \'cache/<hash>\': \'<dir>\', \'cache/<hash>/IMG-HH-ALOS2225333100-180726-WWDR1.1__D-B3.index\': b\'{"__type__": "group", "url": null, "data": {"line": {"__type__": "variable", "dims": ["rows"], "data": {"__type__": "array", "dtype": "int8", "data": [0, 1, 2, 3], "encoding": {}}, "attrs": {"u": {"__type__": "tuple", "data": [1, 2]}}}, "data": {"__type__": "variable", "dims": ["rows", "columns"], "data": {"__type__": "backend_array", "root": "<tmp>/data", "url": "IMG-HH-ALOS2225333100-180726-WWDR1.1__D-B3", "shape": {"__type__": "tuple", "data": [4, 3]}, "dtype": "uint16", "byte_ranges": [{"__type__": "tuple", "data": [5, 10]}, {"__type__": "tuple", "data": [15, 20]}, {"__type__": "tuple", "data": [25, 30]}, {"__type__": "tuple", "data": [35, 40]}], "type_code": "IU2"}, "attrs": {}}}, "path": "HH_scan3", "attrs": {"header": "header-bytes", "coordinates": ["line"]}}\', \'data\': \'<dir>\', \'data/IMG-HH-ALOS2225333100-180726-WWDR1.1__D-B3\': b\'header-bytes\'}}'
    ),
    'open/undecodable-cache-propagates': (
        '{\'outcome\': \'RAISES builtins.AttributeError: \\\'NoneType\\\' object has no attribute \\\'get\\\' [args=("\\\'NoneType\\\' object has no attribute \\\'get\\\'",) context=None]\', \'log\': [], \'files\': {\'data\': \'<dir>\', \'data/IMG-HH-ALOS2225333100-180726-WWDR1.1__D-B3\': b\'header-bytes\', \'data/IMG-HH-ALOS2225333100-180726-WWDR1.1__D-B3.index\': b\'null\'}}'
    ),
    'open/cache-invalid-utf8-propagates': (
        '{\'outcome\': "RAISES builtins.UnicodeDecodeError: \'utf-8\' codec can\'t decode byte 0xff in position 0: invalid start byte [args=(\'utf-8\', b\'\\\\xff\', 0, 1, \'invalid start byte\') context=None]", \'log\': [], \'files\': {\'data\': \'<dir>\', \'data/IMG-HH-ALOS2225333100-180726-WWDR1.1__D-B3\': b\'header-bytes\', \'data/IMG-HH-ALOS2225333100-180726-WWDR1.1__D-B3.index\': b\'\\xff\'}}'
    ),
    'open/create-cache': (
        '{\'outcome\': \'Group: {\\\'Group\\\': {\\\'path\\\': \\\'HH_scan3\\\', \\\'url\\\': None, \\\'attrs\\\': {\\\'header\\\': \\\'header-bytes\\\', \\\'coordinates\\\': [\\\'line\\\']}, \\\'data\\\': {\\\'line\\\': {\\\'Variable\\\': {\\\'dims\\\': [\\\'rows\\\'], \\\'attrs\\\': {\\\'u\\\': (1, 2)}, \\\'data\\\': {\\\'ndarray\\\': {\\\'dtype\\\': \\\'int8\\\', \\\'data\\\': [0, 1, 2, 3]}}}}, \\\'data\\\': {\\\'Variable\\\': {\\\'dims\\\': [\\\'rows\\\', \\\'columns\\\'], \\\'attrs\\\': {}, \\\'data\\\': {\\\'Array\\\': {\\\'fs\\\': "DirFileSystem(path=\\\'<tmp>/data\\\', fs=LocalFileSystem)", \\\'url\\\': \\\'IMG-HH-ALOS2225333100-180726-WWDR1.1__D-B3\\\', \\\'byte_ranges\\\': [(5, 10), (15, 20), (25, 30), (35, 40)], \\\'shape\\\': (4, 3), \\\'dtype\\\': \\\'uint16\\\', \\\'type_code\\\': \\\'IU2\\\', \\\'records_per_chunk\\\': 2}}}}}}}\', \'log\': [(\'read_metadata\', b\'header-bytes\', (2,), {}), (\'transform_metadata\', b\'header-bytes\', 4, {})], \'files\': {\'cache\': \'<dir>\', \'cache/<hash>\': \'<dir>\', \'cache/<hash>/IMG-HH-ALOS2225333100-180726-WWDR1.1__D-B3.index\': b\'{"__type__": "group", "url": null, "data": {"line": {"__type__": "variable", "dims": ["rows"], "data": {"__type__": "array", "dtype": "int8", "data": [0, 1, 2, 3], "encoding": {}}, "attrs": {"u": {"__type__": "tuple", "data": [1, 2]}}}, "data": {"__type__": "variable", "dims": ["rows", "columns"], "data": {"__type__": "backend_array", "root": "<tmp>/data", "url": "IMG-HH-ALOS2225333100-180726-WWDR1.1__D-B3", "shape": {"__type__": "tuple", "data": [4, 3]}, "dtype": "uint16", "byte_ranges": [{"__type__": "tuple", "data": [5, 10]}, {"__type__": "tuple", "data": [15, 20]}, {"__type__": "tuple", "data": [25, 30]}, {"__type__": "tuple", "data": [35, 40]}], "type_code": "IU2"}, "attrs": {}}}, "path": "HH_scan3", "attrs": {"header": "header-bytes", "coordinates": ["line"]}}\', \'data\': \'<dir>\', \'data/IMG-HH-ALOS2225333100-180726-WWDR1.1__D-B3\': b\'header-bytes\'}}'
    ),
    'open/create-cache-without-lookup': (
        '{\'outcome\': \'Group: {\\\'Group\\\': {\\\'path\\\': \\\'HH_scan3\\\', \\\'url\\\': None, \\\'attrs\\\': {\\\'header\\\': \\\'header-bytes\\\', \\\'coordinates\\\': [\\\'line\\\']}, \\\'data\\\': {\\\'line\\\': {\\\'Variable\\\': {\\\'dims\\\': [\\\'rows\\\'], \\\'attrs\\\': {\\\'u\\\': (1, 2)}, \\\'data\\\': {\\\'ndarray\\\': {\\\'dtype\\\': \\\'int8\\\', \\\'data\\\': [0, 1, 2, 3]}}}}, \\\'data\\\': {\\\'Variable\\\': {\\\'dims\\\': [\\\'rows\\\', \\\'columns\\\'], \\\'attrs\\\': {}, \\\'data\\\': {\\\'Array\\\': {\\\'fs\\\': "DirFileSystem(path=\\\'<tmp>/data\\\', fs=LocalFileSystem)", \\\'url\\\': \\\'IMG-HH-ALOS2225333100-180726-WWDR1.1__D-B3\\\', \\\'byte_ranges\\\': [(5, 10), (15, 20), (25, 30), (35, 40)], \\\'shape\\\': (4, 3), \\\'dtype\\\': \\\'uint16\\\', \\\'type_code\\\': \\\'IU2\\\', \\\'records_per_chunk\\\': 1024}}}}}}}\', \'log\': [(\'read_metadata\', b\'header-bytes\', (None,), {}), (\'transform_metadata\', b\'header-bytes\', 4, {})], \'files\': {\'cache\': \'<dir>\', \'cache/<hash>\': \'<dir>\', \'cache/<hash>/IMG-HH-ALOS2225333100-180726-WWDR1.1__D-B3.index\': b\'{"__type__": "group", "url": null, "data": {"line": {"__type__": "variable", "dims": ["rows"], "data": {"__type__": "array", "dtype": "int8", "data": [0, 1, 2, 3], "encoding": {}}, "attrs": {"u": {"__type__": "tuple", "data": [1, 2]}}}, "data": {"__type__": "variable", "dims": ["rows", "columns"], "data": {"__type__": "backend_array", "root": "<tmp>/data", "url": "IMG-HH-ALOS2225333100-180726-WWDR1.1__D-B3", "shape": {"__type__": "tuple", "data": [4, 3]}, "dtype": "uint16", "byte_ranges": [{"__type__": "tuple", "data": [5, 10]}, {"__type__": "tuple", "data": [15, 20]}, {"__type__": "tuple", "data": [25, 30]}, {"__type__": "tuple", "data": [35, 40]}], "type_code": "IU2"}, "attrs": {}}}, "path": "HH_scan3", "attrs": {"header": "header-bytes", "coordinates": ["line"]}}\', \'data\': \'<dir>\', \'data/IMG-HH-ALOS2225333100-180726-WWDR1.1__D-B3\': b\'header-bytes\'}}'
    ),
    'open/create-then-reopen': (
        '{\'outcome\': \'tuple: (False, {\\\'Group\\\': {\\\'path\\\': \\\'HH_scan3\\\', \\\'url\\\': None, \\\'attrs\\\': {\\\'header\\\': \\\'header-bytes\\\', \\\'coordinates\\\': [\\\'line\\\']}, \\\'data\\\': {\\\'line\\\': {\\\'Variable\\\': {\\\'dims\\\': [\\\'rows\\\'], \\\'attrs\\\': {\\\'u\\\': (1, 2)}, \\\'data\\\': {\\\'ndarray\\\': {\\\'dtype\\\': \\\'int8\\\', \\\'data\\\': [0, 1, 2, 3]}}}}, \\\'data\\\': {\\\'Variable\\\': {\\\'dims\\\': [\\\'rows\\\', \\\'columns\\\'], \\\'attrs\\\': {}, \\\'data\\\': {\\\'Array\\\': {\\\'fs\\\': "DirFileSystem(path=\\\'<tmp>/data\\\', fs=LocalFileSystem)", \\\'url\\\': \\\'IMG-HH-ALOS2225333100-180726-WWDR1.1__D-B3\\\', \\\'byte_ranges\\\': [(5, 10), (15, 20), (25, 30), (35, 40)], \\\'shape\\\': (4, 3), \\\'dtype\\\': \\\'uint16\\\', \\\'type_code\\\': \\\'IU2\\\', \\\'records_per_chunk\\\': 4}}}}}}})\', \'log\': [(\'read_metadata\', b\'header-bytes\', (2,), {}), (\'transform_metadata\', b\'header-bytes\', 4, {})], \'files\': {\'cache\': \'<dir>\', \'cache/<hash>\': \'<dir>\', \'cache/<hash>/IMG-HH-ALOS2225333100-180726-WWDR1.1__D-B3.index\': b\'{"__type__": "group", "url": null, "data": {"line": {"__type__": "variable", "dims": ["rows"], "data": {"__type__": "array", "dtype": "int8", "data": [0, 1, 2, 3], "encoding": {}}, "attrs": {"u": {"__type__": "tuple", "data": [1, 2]}}}, "data": {"__type__": "variable", "dims": ["rows", "columns"], "data": {"__type__": "backend_array", "root": "<tmp>/data", "url": "IMG-HH-ALOS2225333100-180726-WWDR1.1__D-B3", "shape": {"__type__": "tuple", "data": [4, 3]}, "dtype": "uint16", "byte_ranges": [{"__type__": "tuple", "data": [5, 10]}, {"__type__": "tuple", "data": [15, 20]}, {"__type__": "tuple", "data": [25, 30]}, {"__type__": "tuple", "data": [35, 40]}], "type_code": "IU2"}, "attrs": {}}}, "path": "HH_scan3", "attrs": {"header": "header-bytes", "coordinates": ["line"]}}\', \'data\': \'<dir>\'}}'
    ),
    'open/missing-image': (
        '{\'outcome\': "RAISES builtins.FileNotFoundError: [Errno 2] No such file or directory: \'<tmp>/data/IMG-HH-ALOS2225333100-180726-WWDR1.1__D-B3\' [args=(2, \'No such file or directory\') context=None]", \'log\': [], \'files\': {\'data\': \'<dir>\'}}'
    ),
    'open/missing-image-no-cache-lookup': (
        '{\'outcome\': "RAISES builtins.FileNotFoundError: [Errno 2] No such file or directory: \'<tmp>/data/IMG-HH-ALOS2225333100-180726-WWDR1.1__D-B3\' [args=(2, \'No such file or directory\') context=None]", \'log\': [], \'files\': {\'data\': \'<dir>\'}}'
    ),
    'open/invalid-filename': (
        '{\'outcome\': "RAISES builtins.ValueError: invalid file name: not-an-alos2-name [args=(\'invalid file name: not-an-alos2-name\',) context=None]", \'log\': [(\'read_metadata\', b\'header-bytes\', (None,), {}), (\'transform_metadata\', b\'header-bytes\', 4, {})], \'files\': {\'data\': \'<dir>\', \'data/not-an-alos2-name\': b\'header-bytes\'}}'
    ),
    'open/unreadable': (
        '{\'outcome\': "RAISES builtins.ValueError: fake: cannot parse the records [args=(\'fake: cannot parse the records\',) context=None]", \'log\': [(\'read_metadata\', b\'unreadable\', (None,), {})], \'files\': {\'data\': \'<dir>\', \'data/IMG-HH-ALOS2225333100-180726-WWDR1.1__D-B3\': b\'unreadable\'}}'
    ),
    'open/untransformable': (
        '{\'outcome\': "RAISES builtins.ValueError: fake: unknown type code [args=(\'fake: unknown type code\',) context=None]", \'log\': [(\'read_metadata\', b\'untransformable\', (None,), {}), (\'transform_metadata\', b\'untransformable\', 4, {})], \'files\': {\'data\': \'<dir>\', \'data/IMG-HH-ALOS2225333100-180726-WWDR1.1__D-B3\': b\'untransformable\'}}'
    ),
    'open/bad-rpc': (
        '{\'outcome\': \'RAISES builtins.ValueError: Could not interpret \\\'alot\\\' as a byte unit [args=("Could not interpret \\\'alot\\\' as a byte unit",) context=KeyError]\', \'log\': [(\'read_metadata\', b\'header-bytes\', (\'a lot\',), {}), (\'transform_metadata\', b\'header-bytes\', 4, {})], \'files\': {\'data\': \'<dir>\', \'data/IMG-HH-ALOS2225333100-180726-WWDR1.1__D-B3\': b\'header-bytes\'}}'
    ),
    'open/options-are-keyword-only': (
        '{\'outcome\': "RAISES builtins.TypeError: open_image() takes 2 positional arguments but 3 were given [args=(\'open_image() takes 2 positional arguments but 3 were given\',) context=None]", \'log\': [], \'files\': {\'data\': \'<dir>\', \'data/IMG-HH-ALOS2225333100-180726-WWDR1.1__D-B3\': b\'header-bytes\'}}'
    ),
    'open/mapper-without-root': (
        '{\'outcome\': \'RAISES builtins.AttributeError: \\\'dict\\\' object has no attribute \\\'root\\\' [args=("\\\'dict\\\' object has no attribute \\\'root\\\'",) context=None]\', \'log\': [], \'files\': {\'data\': \'<dir>\'}}'
    ),
    'open/truthy-flags': (
        '{\'outcome\': \'Group: {\\\'Group\\\': {\\\'path\\\': \\\'HH_scan3\\\', \\\'url\\\': None, \\\'attrs\\\': {\\\'header\\\': \\\'header-bytes\\\', \\\'coordinates\\\': [\\\'line\\\']}, \\\'data\\\': {\\\'line\\\': {\\\'Variable\\\': {\\\'dims\\\': [\\\'rows\\\'], \\\'attrs\\\': {\\\'u\\\': (1, 2)}, \\\'data\\\': {\\\'ndarray\\\': {\\\'dtype\\\': \\\'int8\\\', \\\'data\\\': [0, 1, 2, 3]}}}}, \\\'data\\\': {\\\'Variable\\\': {\\\'dims\\\': [\\\'rows\\\', \\\'columns\\\'], \\\'attrs\\\': {}, \\\'data\\\': {\\\'Array\\\': {\\\'fs\\\': "DirFileSystem(path=\\\'<tmp>/data\\\', fs=LocalFileSystem)", \\\'url\\\': \\\'IMG-HH-ALOS2225333100-180726-WWDR1.1__D-B3\\\', \\\'byte_ranges\\\': [(5, 10), (15, 20), (25, 30), (35, 40)], \\\'shape\\\': (4, 3), \\\'dtype\\\': \\\'uint16\\\', \\\'type_code\\\': \\\'IU2\\\', \\\'records_per_chunk\\\': 1024}}}}}}}\', \'log\': [(\'read_metadata\', b\'header-bytes\', (None,), {}), (\'transform_metadata\', b\'header-bytes\', 4, {})], \'files\': {\'cache\': \'<dir>\', \'cache/<hash>\': \'<dir>\', \'cache/<hash>/IMG-HH-ALOS2225333100-180726-WWDR1.1__D-B3.index\': b\'{"__type__": "group", "url": null, "data": {"line": {"__type__": "variable", "dims": ["rows"], "data": {"__type__": "array", "dtype": "int8", "data": [0, 1, 2, 3], "encoding": {}}, "attrs": {"u": {"__type__": "tuple", "data": [1, 2]}}}, "data": {"__type__": "variable", "dims": ["rows", "columns"], "data": {"__type__": "backend_array", "root": "<tmp>/data", "url": "IMG-HH-ALOS2225333100-180726-WWDR1.1__D-B3", "shape": {"__type__": "tuple", "data": [4, 3]}, "dtype": "uint16", "byte_ranges": [{"__type__": "tuple", "data": [5, 10]}, {"__type__": "tuple", "data": [15, 20]}, {"__type__": "tuple", "data": [25, 30]}, {"__type__": "tuple", "data": [35, 40]}], "type_code": "IU2"}, "attrs": {}}}, "path": "HH_scan3", "attrs": {"header": "header-bytes", "coordinates": ["line"]}}\', \'data\': \'<dir>\', \'data/IMG-HH-ALOS2225333100-180726-WWDR1.1__D-B3\': b\'header-bytes\'}}'
    ),
    'cli/beside-image': (
        '{\'outcome\': \'NoneType: None\', \'log\': [(\'read_metadata\', b\'header-bytes\', (2,), {}), (\'transform_metadata\', b\'header-bytes\', 4, {})], \'files\': {\'data\': \'<dir>\', \'data/IMG-HH-ALOS2225333100-180726-WWDR1.1__D-B3\': b\'header-bytes\', \'data/IMG-HH-ALOS2225333100-180726-WWDR1.1__D-B3.index\': b\'{"__type__": "group", "url": null, "data": {"line": {"__type__": "variable", "dims": ["rows"], "data": {"__type__": "array", "dtype": "int8", "data": [0, 1, 2, 3], "encoding": {}}, "attrs": {"u": {"__type__": "tuple", "data": [1, 2]}}}, "data": {"__type__": "variable", "dims": ["rows", "columns"], "data": {"__type__": "backend_array", "root": "<tmp>/data", "url": "IMG-HH-ALOS2225333100-180726-WWDR1.1__D-B3", "shape": {"__type__": "tuple", "data": [4, 3]}, "dtype": "uint16", "byte_ranges": [{"__type__": "tuple", "data": [5, 10]}, {"__type__": "tuple", "data": [15, 20]}, {"__type__": "tuple", "data": [25, 30]}, {"__type__": "tuple", "data": [35, 40]}], "type_code": "IU2"}, "attrs": {}}}, "path": "HH_scan3", "attrs": {"header": "header-bytes", "coordinates": ["line"]}}\'}}'
    ),
    'cli/keyword-call': (
        '{\'outcome\': \'NoneType: None\', \'log\': [(\'read_metadata\', b\'header-bytes\', (None,), {}), (\'transform_metadata\', b\'header-bytes\', 4, {})], \'files\': {\'data\': \'<dir>\', \'data/IMG-HH-ALOS2225333100-180726-WWDR1.1__D-B3\': b\'header-bytes\', \'data/IMG-HH-ALOS2225333100-180726-WWDR1.1__D-B3.index\': b\'{"__type__": "group", "url": null, "data": {"line": {"__type__": "variable", "dims": ["rows"], "data": {"__type__": "array", "dtype": "int8", "data": [0, 1, 2, 3], "encoding": {}}, "attrs": {"u": {"__type__": "tuple", "data": [1, 2]}}}, "data": {"__type__": "variable", "dims": ["rows", "columns"], "data": {"__type__": "backend_array", "root": "<tmp>/data", "url": "IMG-HH-ALOS2225333100-180726-WWDR1.1__D-B3", "shape": {"__type__": "tuple", "data": [4, 3]}, "dtype": "uint16", "byte_ranges": [{"__type__": "tuple", "data": [5, 10]}, {"__type__": "tuple", "data": [15, 20]}, {"__type__": "tuple", "data": [25, 30]}, {"__type__": "tuple", "data": [35, 40]}], "type_code": "IU2"}, "attrs": {}}}, "path": "HH_scan3", "attrs": {"header": "header-bytes", "coordinates": ["line"]}}\'}}'
    ),
    'cli/explicit-root': (
        '{\'outcome\': \'NoneType: None\', \'log\': [(\'read_metadata\', b\'header-bytes\', (4096,), {}), (\'transform_metadata\', b\'header-bytes\', 4, {})], \'files\': {\'data\': \'<dir>\', \'data/IMG-HH-ALOS2225333100-180726-WWDR1.1__D-B3\': b\'header-bytes\', \'elsewhere\': \'<dir>\', \'elsewhere/IMG-HH-ALOS2225333100-180726-WWDR1.1__D-B3.index\': b\'{"__type__": "group", "url": null, "data": {"line": {"__type__": "variable", "dims": ["rows"], "data": {"__type__": "array", "dtype": "int8", "data": [0, 1, 2, 3], "encoding": {}}, "attrs": {"u": {"__type__": "tuple", "data": [1, 2]}}}, "data": {"__type__": "variable", "dims": ["rows", "columns"], "data": {"__type__": "backend_array", "root": "<tmp>/data", "url": "IMG-HH-ALOS2225333100-180726-WWDR1.1__D-B3", "shape": {"__type__": "tuple", "data": [4, 3]}, "dtype": "uint16", "byte_ranges": [{"__type__": "tuple", "data": [5, 10]}, {"__type__": "tuple", "data": [15, 20]}, {"__type__": "tuple", "data": [25, 30]}, {"__type__": "tuple", "data": [35, 40]}], "type_code": "IU2"}, "attrs": {}}}, "path": "HH_scan3", "attrs": {"header": "header-bytes", "coordinates": ["line"]}}\'}}'
    ),
    'cli/existing-caches-ignored-and-overwritten': (
        '{\'outcome\': \'NoneType: None\', \'log\': [(\'read_metadata\', b\'header-bytes\', (2,), {}), (\'transform_metadata\', b\'header-bytes\', 4, {})], \'files\': {\'cache\': \'<dir>\', \'cache/<hash>\': \'<dir>\', \'cache/<hash>/IMG-HH-ALOS2225333100-180726-WWDR1.1__D-B3.index\': b\'{"__type__": "group", "url": null, "data": {"data": {"__type__": "variable", "dims": ["rows", "columns"], "data": {"__type__": "backend_array", "root": "memory:///path/to", "url": "local", "shape": {"__type__": "tuple", "data": [4, 3]}, "dtype": "uint16", "byte_ranges": [{"__type__": "tuple", "data": [5, 10]}, {"__type__": "tuple", "data": [15, 20]}, {"__type__": "tuple", "data": [25, 30]}, {"__type__": "tuple", "data": [35, 40]}], "type_code": "IU2"}, "attrs": {}}}, "path": "local", "attrs": {"from": "local"}}\', \'data\': \'<dir>\', \'data/IMG-HH-ALOS2225333100-180726-WWDR1.1__D-B3\': b\'header-bytes\', \'data/IMG-HH-ALOS2225333100-180726-WWDR1.1__D-B3.index\': b\'{"__type__": "group", "url": null, "data": {"line": {"__type__": "variable", "dims": ["rows"], "data": {"__type__": "array", "dtype": "int8", "data": [0, 1, 2, 3], "encoding": {}}, "attrs": {"u": {"__type__": "tuple", "data": [1, 2]}}}, "data": {"__type__": "variable", "dims": ["rows", "columns"], "data": {"__type__": "backend_array", "root": "<tmp>/data", "url": "IMG-HH-ALOS2225333100-180726-WWDR1.1__D-B3", "shape": {"__type__": "tuple", "data": [4, 3]}, "dtype": "uint16", "byte_ranges": [{"__type__": "tuple", "data": [5, 10]}, {"__type__": "tuple", "data": [15, 20]}, {"__type__": "tuple", "data": [25, 30]}, {"__type__": "tuple", "data": [35, 40]}], "type_code": "IU2"}, "attrs": {}}}, "path": "HH_scan3", "attrs": {"header": "header-bytes", "coordinates": ["line"]}}\'}}'
    ),
    'cli/missing-image': (
        '{\'outcome\': "RAISES builtins.FileNotFoundError: Cannot find image file at given path: <tmp>/data/IMG-HH-ALOS2225333100-180726-WWDR1.1__D-B3 [args=(\'Cannot find image file at given path: <tmp>/data/IMG-HH-ALOS2225333100-180726-WWDR1.1__D-B3\',) context=None]", \'log\': [], \'files\': {\'data\': \'<dir>\'}}'
    ),
    'cli/image-is-directory': (
        '{\'outcome\': "RAISES builtins.FileNotFoundError: Cannot find image file at given path: <tmp>/data [args=(\'Cannot find image file at given path: <tmp>/data\',) context=None]", \'log\': [], \'files\': {\'data\': \'<dir>\'}}'
    ),
    'cli/missing-root': (
        '{\'outcome\': "RAISES builtins.OSError: Cannot find the target cache root: <tmp>/missing [args=(\'Cannot find the target cache root: <tmp>/missing\',) context=None]", \'log\': [], \'files\': {\'data\': \'<dir>\', \'data/IMG-HH-ALOS2225333100-180726-WWDR1.1__D-B3\': b\'header-bytes\'}}'
    ),
    'cli/root-is-file': (
        '{\'outcome\': "RAISES builtins.OSError: Cannot find the target cache root: <tmp>/data/IMG-HH-ALOS2225333100-180726-WWDR1.1__D-B3 [args=(\'Cannot find the target cache root: <tmp>/data/IMG-HH-ALOS2225333100-180726-WWDR1.1__D-B3\',) context=None]", \'log\': [], \'files\': {\'data\': \'<dir>\', \'data/IMG-HH-ALOS2225333100-180726-WWDR1.1__D-B3\': b\'header-bytes\'}}'
    ),
    'cli/missing-image-and-missing-root': (
        '{\'outcome\': "RAISES builtins.FileNotFoundError: Cannot find image file at given path: <tmp>/data/IMG-HH-ALOS2225333100-180726-WWDR1.1__D-B3 [args=(\'Cannot find image file at given path: <tmp>/data/IMG-HH-ALOS2225333100-180726-WWDR1.1__D-B3\',) context=None]", \'log\': [], \'files\': {\'data\': \'<dir>\'}}'
    ),
    'cli/relative-image-path': (
        '{\'outcome\': \'RAISES builtins.ValueError: relative path can\\\'t be expressed as a file URI [args=("relative path can\\\'t be expressed as a file URI",) context=None]\', \'log\': [], \'files\': {\'data\': \'<dir>\', \'data/IMG-HH-ALOS2225333100-180726-WWDR1.1__D-B3\': b\'header-bytes\'}}'
    ),
    'cli/relative-image-path-explicit-root': (
        '{\'outcome\': \'RAISES builtins.ValueError: relative path can\\\'t be expressed as a file URI [args=("relative path can\\\'t be expressed as a file URI",) context=None]\', \'log\': [], \'files\': {\'data\': \'<dir>\', \'data/IMG-HH-ALOS2225333100-180726-WWDR1.1__D-B3\': b\'header-bytes\'}}'
    ),
    'cli/invalid-filename': (
        '{\'outcome\': "RAISES builtins.ValueError: invalid file name: image [args=(\'invalid file name: image\',) context=None]", \'log\': [(\'read_metadata\', b\'header-bytes\', (2,), {}), (\'transform_metadata\', b\'header-bytes\', 4, {})], \'files\': {\'data\': \'<dir>\', \'data/image\': b\'header-bytes\'}}'
    ),
    'cli/str-paths': (
        '{\'outcome\': \'RAISES builtins.AttributeError: \\\'str\\\' object has no attribute \\\'is_file\\\' [args=("\\\'str\\\' object has no attribute \\\'is_file\\\'",) context=None]\', \'log\': [], \'files\': {\'data\': \'<dir>\', \'data/IMG-HH-ALOS2225333100-180726-WWDR1.1__D-B3\': b\'header-bytes\'}}'
    ),
    'cli/root-without-is_dir': (
        '{\'outcome\': \'RAISES builtins.AttributeError: \\\'str\\\' object has no attribute \\\'is_dir\\\' [args=("\\\'str\\\' object has no attribute \\\'is_dir\\\'",) context=None]\', \'log\': [], \'files\': {\'data\': \'<dir>\', \'data/IMG-HH-ALOS2225333100-180726-WWDR1.1__D-B3\': b\'header-bytes\'}}'
    ),
    'main/default': (
        '{\'outcome\': "dict: {\'status\': \'returned\', \'result\': None, \'stdout\': \'\', \'stderr\': \'\'}", \'log\': [(\'read_metadata\', b\'header-bytes\', (4096,), {}), (\'transform_metadata\', b\'header-bytes\', 4, {})], \'files\': {\'data\': \'<dir>\', \'data/IMG-HH-ALOS2225333100-180726-WWDR1.1__D-B3\': b\'header-bytes\', \'data/IMG-HH-ALOS2225333100-180726-WWDR1.1__D-B3.index\': b\'{"__type__": "group", "url": null, "data": {"line": {"__type__": "variable", "dims": ["rows"], "data": {"__type__": "array", "dtype": "int8", "data": [0, 1, 2, 3], "encoding": {}}, "attrs": {"u": {"__type__": "tuple", "data": [1, 2]}}}, "data": {"__type__": "variable", "dims": ["rows", "columns"], "data": {"__type__": "backend_array", "root": "<tmp>/data", "url": "IMG-HH-ALOS2225333100-180726-WWDR1.1__D-B3", "shape": {"__type__": "tuple", "data": [4, 3]}, "dtype": "uint16", "byte_ranges": [{"__type__": "tuple", "data": [5, 10]}, {"__type__": "tuple", "data": [15, 20]}, {"__type__": "tuple", "data": [25, 30]}, {"__type__": "tuple", "data": [35, 40]}], "type_code": "IU2"}, "attrs": {}}}, "path": "HH_scan3", "attrs": {"header": "header-bytes", "coordinates": ["line"]}}\'}}'
    ),
    'main/rpc-and-root': (
        '{\'outcome\': "dict: {\'status\': \'returned\', \'result\': None, \'stdout\': \'\', \'stderr\': \'\'}", \'log\': [(\'read_metadata\', b\'header-bytes\', (2,), {}), (\'transform_metadata\', b\'header-bytes\', 4, {})], \'files\': {\'data\': \'<dir>\', \'data/IMG-HH-ALOS2225333100-180726-WWDR1.1__D-B3\': b\'header-bytes\', \'elsewhere\': \'<dir>\', \'elsewhere/IMG-HH-ALOS2225333100-180726-WWDR1.1__D-B3.index\': b\'{"__type__": "group", "url": null, "data": {"line": {"__type__": "variable", "dims": ["rows"], "data": {"__type__": "array", "dtype": "int8", "data": [0, 1, 2, 3], "encoding": {}}, "attrs": {"u": {"__type__": "tuple", "data": [1, 2]}}}, "data": {"__type__": "variable", "dims": ["rows", "columns"], "data": {"__type__": "backend_array", "root": "<tmp>/data", "url": "IMG-HH-ALOS2225333100-180726-WWDR1.1__D-B3", "shape": {"__type__": "tuple", "data": [4, 3]}, "dtype": "uint16", "byte_ranges": [{"__type__": "tuple", "data": [5, 10]}, {"__type__": "tuple", "data": [15, 20]}, {"__type__": "tuple", "data": [25, 30]}, {"__type__": "tuple", "data": [35, 40]}], "type_code": "IU2"}, "attrs": {}}}, "path": "HH_scan3", "attrs": {"header": "header-bytes", "coordinates": ["line"]}}\'}}'
    ),
    'main/rpc-equals': (
        '{\'outcome\': "dict: {\'status\': \'returned\', \'result\': None, \'stdout\': \'\', \'stderr\': \'\'}", \'log\': [(\'read_metadata\', b\'header-bytes\', (3,), {}), (\'transform_metadata\', b\'header-bytes\', 4, {})], \'files\': {\'data\': \'<dir>\', \'data/IMG-HH-ALOS2225333100-180726-WWDR1.1__D-B3\': b\'header-bytes\', \'data/IMG-HH-ALOS2225333100-180726-WWDR1.1__D-B3.index\': b\'{"__type__": "group", "url": null, "data": {"line": {"__type__": "variable", "dims": ["rows"], "data": {"__type__": "array", "dtype": "int8", "data": [0, 1, 2, 3], "encoding": {}}, "attrs": {"u": {"__type__": "tuple", "data": [1, 2]}}}, "data": {"__type__": "variable", "dims": ["rows", "columns"], "data": {"__type__": "backend_array", "root": "<tmp>/data", "url": "IMG-HH-ALOS2225333100-180726-WWDR1.1__D-B3", "shape": {"__type__": "tuple", "data": [4, 3]}, "dtype": "uint16", "byte_ranges": [{"__type__": "tuple", "data": [5, 10]}, {"__type__": "tuple", "data": [15, 20]}, {"__type__": "tuple", "data": [25, 30]}, {"__type__": "tuple", "data": [35, 40]}], "type_code": "IU2"}, "attrs": {}}}, "path": "HH_scan3", "attrs": {"header": "header-bytes", "coordinates": ["line"]}}\'}}'
    ),
    'main/rpc-without-value': (
        '{\'outcome\': "dict: {\'status\': \'returned\', \'result\': None, \'stdout\': \'\', \'stderr\': \'\'}", \'log\': [(\'read_metadata\', b\'header-bytes\', (None,), {}), (\'transform_metadata\', b\'header-bytes\', 4, {})], \'files\': {\'data\': \'<dir>\', \'data/IMG-HH-ALOS2225333100-180726-WWDR1.1__D-B3\': b\'header-bytes\', \'data/IMG-HH-ALOS2225333100-180726-WWDR1.1__D-B3.index\': b\'{"__type__": "group", "url": null, "data": {"line": {"__type__": "variable", "dims": ["rows"], "data": {"__type__": "array", "dtype": "int8", "data": [0, 1, 2, 3], "encoding": {}}, "attrs": {"u": {"__type__": "tuple", "data": [1, 2]}}}, "data": {"__type__": "variable", "dims": ["rows", "columns"], "data": {"__type__": "backend_array", "root": "<tmp>/data", "url": "IMG-HH-ALOS2225333100-180726-WWDR1.1__D-B3", "shape": {"__type__": "tuple", "data": [4, 3]}, "dtype": "uint16", "byte_ranges": [{"__type__": "tuple", "data": [5, 10]}, {"__type__": "tuple", "data": [15, 20]}, {"__type__": "tuple", "data": [25, 30]}, {"__type__": "tuple", "data": [35, 40]}], "type_code": "IU2"}, "attrs": {}}}, "path": "HH_scan3", "attrs": {"header": "header-bytes", "coordinates": ["line"]}}\'}}'
    ),
    'main/rpc-not-an-int': (
        '{\'outcome\': \'dict: {\\\'status\\\': \\\'SystemExit(2)\\\', \\\'result\\\': None, \\\'stdout\\\': \\\'\\\', \\\'stderr\\\': "usage: ceos-alos2-create-cache [-h] [--rpc [RPC]] image_path [cache_root]\\\\nceos-alos2-create-cache: error: argument --rpc: invalid int value: \\\'auto\\\'\\\\n"}\', \'log\': [], \'files\': {\'data\': \'<dir>\', \'data/IMG-HH-ALOS2225333100-180726-WWDR1.1__D-B3\': b\'header-bytes\'}}'
    ),
    'main/rpc-swallows-path': (
        '{\'outcome\': \'dict: {\\\'status\\\': \\\'SystemExit(2)\\\', \\\'result\\\': None, \\\'stdout\\\': \\\'\\\', \\\'stderr\\\': "usage: ceos-alos2-create-cache [-h] [--rpc [RPC]] image_path [cache_root]\\\\nceos-alos2-create-cache: error: argument --rpc: invalid int value: \\\'<tmp>/data/IMG-HH-ALOS2225333100-180726-WWDR1.1__D-B3\\\'\\\\n"}\', \'log\': [], \'files\': {\'data\': \'<dir>\', \'data/IMG-HH-ALOS2225333100-180726-WWDR1.1__D-B3\': b\'header-bytes\'}}'
    ),
    'main/missing-image': (
        '{\'outcome\': "dict: {\'status\': \'SystemExit(1)\', \'result\': None, \'stdout\': \'\', \'stderr\': \'Cannot find image file at given path: <tmp>/data/IMG-HH-ALOS2225333100-180726-WWDR1.1__D-B3\\\\n\'}", \'log\': [], \'files\': {\'data\': \'<dir>\'}}'
    ),
    'main/missing-root': (
        '{\'outcome\': "dict: {\'status\': \'SystemExit(1)\', \'result\': None, \'stdout\': \'\', \'stderr\': \'Cannot find the target cache root: <tmp>/missing\\\\n\'}", \'log\': [], \'files\': {\'data\': \'<dir>\', \'data/IMG-HH-ALOS2225333100-180726-WWDR1.1__D-B3\': b\'header-bytes\'}}'
    ),
    'main/no-arguments': (
        '{\'outcome\': "dict: {\'status\': \'SystemExit(2)\', \'result\': None, \'stdout\': \'\', \'stderr\': \'usage: ceos-alos2-create-cache [-h] [--rpc [RPC]] image_path [cache_root]\\\\nceos-alos2-create-cache: error: the following arguments are required: image_path\\\\n\'}", \'log\': [], \'files\': {\'data\': \'<dir>\'}}'
    ),
    'main/too-many-arguments': (
        '{\'outcome\': "dict: {\'status\': \'SystemExit(2)\', \'result\': None, \'stdout\': \'\', \'stderr\': \'usage: ceos-alos2-create-cache [-h] [--rpc [RPC]] image_path [cache_root]\\\\nceos-alos2-create-cache: error: unrecognized arguments: c\\\\n\'}", \'log\': [], \'files\': {\'data\': \'<dir>\'}}'
    ),
    'main/unknown-option': (
        '{\'outcome\': "dict: {\'status\': \'SystemExit(2)\', \'result\': None, \'stdout\': \'\', \'stderr\': \'usage: ceos-alos2-create-cache [-h] [--rpc [RPC]] image_path [cache_root]\\\\nceos-alos2-create-cache: error: unrecognized arguments: --records-per-chunk\\\\n\'}", \'log\': [], \'files\': {\'data\': \'<dir>\'}}'
    ),
    'main/help': (
        '{\'outcome\': "dict: {\'status\': \'SystemExit(0)\', \'result\': None, \'stdout\': \'usage: ceos-alos2-create-cache [-h] [--rpc [RPC]] image_path [cache_root]\\\\n\\\\npositional arguments:\\\\n  image_path   image path to create a cache file for\\\\n  cache_root   Root path to the new cache file. By default, it is created in\\\\n               the same directory as the image file.\\\\n\\\\noptions:\\\\n  -h, --help   show this help message and exit\\\\n  --rpc [RPC]  records-per-chunk size used to create the cache files\\\\n\', \'stderr\': \'\'}", \'log\': [], \'files\': {\'data\': \'<dir>\'}}'
    ),
    'main/relative-path-error-propagates': (
        '{\'outcome\': \'RAISES builtins.ValueError: relative path can\\\'t be expressed as a file URI [args=("relative path can\\\'t be expressed as a file URI",) context=None]\', \'log\': [], \'files\': {\'data\': \'<dir>\', \'data/IMG-HH-ALOS2225333100-180726-WWDR1.1__D-B3\': b\'header-bytes\'}}'
    ),
    'main/invalid-filename-error-propagates': (
        '{\'outcome\': "RAISES builtins.ValueError: invalid file name: image [args=(\'invalid file name: image\',) context=None]", \'log\': [(\'read_metadata\', b\'header-bytes\', (4096,), {}), (\'transform_metadata\', b\'header-bytes\', 4, {})], \'files\': {\'data\': \'<dir>\', \'data/image\': b\'header-bytes\'}}'
    ),
    'main/parser-defaults': (
        "[PosixPath('some/image'), None, 4096]"
    ),
}


def main():
    warnings.simplefilter("ignore", DeprecationWarning)
    observed = {name: func() for name, func in CASES.items()}

    if "--print" in sys.argv[1:]:
        print("EXPECTED = {")
        for name, value in observed.items():
            print(f"    {name!r}: (\n        {value!r}\n    ),")
        print("}")
        return 0

    failures = 0
    assert set(observed) == set(EXPECTED), sorted(set(observed) ^ set(EXPECTED))
    for name, value in observed.items():
        if value != EXPECTED[name]:
            failures += 1
            print(f"MISMATCH {name}:\n  expected: {EXPECTED[name]}\n  observed: {value}")
    assert failures == 0, f"{failures} of {len(observed)} cases differ"
    print(f"OK: {len(observed)} cases identical to the recorded behaviour")
    return 0


if __name__ == "__main__":
    sys.exit(main())
