"""Equivalence check for refactoring 1 (array encoders of the image cache).

Run as

    cd /tmp/wt8/e63 && PYTHONPATH=/tmp/wt8/e63 /venv/bin/python _eq/1/equiv.py

The expected values in ``EXPECTED`` were recorded from the unchanged code
(``--record`` prints a fresh table). The script must pass with and without
``patch.diff`` applied. It can also be collected by pytest (``test_equiv``).
"""

import pprint
import sys
import warnings

import fsspec
import numpy as np

from ceos_alos2.array import Array
from ceos_alos2.hierarchy import Group, Variable
from ceos_alos2.sar_image.caching import encoders


def canon(obj):
    """type-preserving, order-preserving text form"""
    if isinstance(obj, dict):
        items = ", ".join(f"{canon(k)}: {canon(v)}" for k, v in obj.items())
        return f"{type(obj).__name__}{{{items}}}"
    if isinstance(obj, (list, tuple)):
        items = ", ".join(canon(v) for v in obj)
        return f"{type(obj).__name__}[{items}]"
    return f"{type(obj).__name__}:{obj!r}"


def run(func, *args, **kwargs):
    try:
        result = func(*args, **kwargs)
    except Exception as e:  # noqa: BLE001
        return f"raises {type(e).__name__}: {e}"
    return canon(result)


def make_array(shape=(4, 3), dtype="int16", type_code="IU2", url="file", path="/path/to"):
    byte_ranges = [(x * 10 + 5, (x + 1) * 10) for x in range(shape[0])]
    fs = fsspec.filesystem("memory")
    dirfs = fsspec.filesystem("dir", path=path, fs=fs)
    return Array(
        fs=dirfs,
        url=url,
        byte_ranges=byte_ranges,
        shape=shape,
        dtype=dtype,
        type_code=type_code,
        records_per_chunk=2,
    )


class SubArray(Array):
    pass


def partial_array(**attrs):
    # an Array whose dataclass fields are only partially set: shows the order
    # in which the encoder reads the attributes
    arr = object.__new__(Array)
    for name, value in attrs.items():
        object.__setattr__(arr, name, value)
    return arr


class FakeFs:
    path = "fake-root"


def collect():
    warnings.simplefilter("ignore", DeprecationWarning)
    results = {}

    td = {
        "ms": np.array([0, 10, 20, 30], dtype="timedelta64[ms]"),
        "s": np.array([0, 1, 7, 12, 13], dtype="timedelta64[s]"),
        "ns": np.array([-5, 0, 2**40], dtype="timedelta64[ns]"),
        "10ms": np.array([1, 2, 3], dtype="timedelta64[10ms]"),
        "D": np.array([1, 365], dtype="timedelta64[D]"),
        "generic": np.array([1, 2], dtype="timedelta64"),
        "2d": np.array([[1, 2], [3, 4]], dtype="timedelta64[us]"),
        "empty": np.array([], dtype="timedelta64[s]"),
        "nat": np.array(["NaT", 3], dtype="timedelta64[s]"),
        "0d": np.array(7, dtype="timedelta64[h]"),
        "int": np.array([1, 2, 3], dtype="int64"),
        "datetime": np.array(["2019-01-01"], dtype="datetime64[s]"),
    }
    for name, arr in td.items():
        results[f"timedelta/{name}"] = run(encoders.encode_timedelta, arr)
    results["timedelta/list"] = run(encoders.encode_timedelta, [1, 2])

    dt = {
        "ms": np.array(["2019-01-01 00:01:00", "2019-01-02 00:02:00"], dtype="datetime64[ms]"),
        "ns": np.array(["2019-01-01 00:00:00"], dtype="datetime64[ns]"),
        "s": np.array(["2019-01-01 00:00:00", "2020-01-01 00:00:00"], dtype="datetime64[s]"),
        "10s": np.array(["2019-01-01 00:00:00", "2019-01-01 00:01:40"], dtype="datetime64[10s]"),
        "25us": np.array([0, 4, 8], dtype="datetime64[25us]"),
        "D": np.array(["2019-01-01", "2018-12-31"], dtype="datetime64[D]"),
        "M": np.array(["2019-01", "2021-06"], dtype="datetime64[M]"),
        "2d": np.array([["2019-01-01", "2019-01-02"], ["2019-01-03", "2019-01-05"]], dtype="M8[D]"),
        "empty": np.array([], dtype="datetime64[s]"),
        "0d": np.array("2019-01-01", dtype="datetime64[s]"),
        "nat-first": np.array(["NaT", "2019-01-01"], dtype="datetime64[s]"),
        "nat-later": np.array(["2019-01-01", "NaT"], dtype="datetime64[s]"),
        "int": np.array([1, 2, 3], dtype="int64"),
        "timedelta": np.array([1, 2, 3], dtype="timedelta64[s]"),
    }
    for name, arr in dt.items():
        results[f"datetime/{name}"] = run(encoders.encode_datetime, arr)
    results["datetime/list"] = run(encoders.encode_datetime, [1, 2])

    arrays = {
        "int32": np.array([0, 1, 2], dtype="int32"),
        "uint8-2d": np.arange(6, dtype="uint8").reshape(2, 3),
        "float16": np.array([0.0, 1.0, 2.5], dtype="float16"),
        "float64-nan": np.array([np.nan, np.inf, -0.0]),
        "bool": np.array([True, False]),
        "complex": np.array([1 + 2j, 3j], dtype="complex64"),
        "str": np.array(["a", "bc"]),
        "bytes": np.array([b"a", b"bc"]),
        "object": np.array([1, "a", None], dtype=object),
        "empty": np.array([], dtype="float32"),
        "0d": np.array(5, dtype="int8"),
        "structured": np.array([(1, 2.0)], dtype=[("a", "i4"), ("b", "f8")]),
        "list": [1, 2, 3],
        "nested-list": [[1.5, 2], [3, 4]],
        "tuple": (1, 2),
        "scalar": 4,
        "float-scalar": 4.5,
        "string": "abc",
        "none": None,
        "np-scalar": np.int16(3),
        "datetime-scalar": np.datetime64("2019-01-01", "s"),
        "timedelta-scalar": np.timedelta64(5, "m"),
        "list-of-datetimes": [np.datetime64("2019-01-01", "s"), np.datetime64("2019-01-02", "s")],
    }
    arrays |= {f"timedelta-{name}": arr for name, arr in td.items()}
    arrays |= {f"datetime-{name}": arr for name, arr in dt.items()}
    for name, arr in arrays.items():
        results[f"array/{name}"] = run(encoders.encode_array, arr)

    backend = {
        "int16": make_array(),
        "int8-1d": make_array(shape=(4,), dtype="int8"),
        "np-dtype": make_array(shape=(2, 5), dtype=np.dtype("complex64"), type_code="C*8"),
        "other-url": make_array(shape=(1, 1), url="a/b/IMG-HH", path="/x"),
        "empty": make_array(shape=(0, 3)),
    }
    for name, arr in backend.items():
        results[f"backend/{name}"] = run(encoders.encode_array, arr)
    sub = SubArray(
        fs=FakeFs(), url="u", byte_ranges=[(0, 2)], shape=(1, 1), dtype="int16", type_code="IU2"
    )
    results["backend/subclass"] = run(encoders.encode_array, sub)

    fields = {
        "fs": FakeFs(),
        "url": "u",
        "shape": (1, 2),
        "dtype": "float32",
        "byte_ranges": [(0, 8)],
        "type_code": "F*4",
    }
    names = list(fields)
    for n in range(len(names) + 1):
        attrs = {name: fields[name] for name in names[:n]}
        results[f"backend/partial-{n}"] = run(encoders.encode_array, partial_array(**attrs))
    # everything but one
    for missing in names:
        attrs = {name: value for name, value in fields.items() if name != missing}
        results[f"backend/without-{missing}"] = run(encoders.encode_array, partial_array(**attrs))
    results["backend/fs-without-path"] = run(
        encoders.encode_array, partial_array(**(fields | {"fs": object()}))
    )

    # the result does not alias / the key order is fixed
    encoded = encoders.encode_array(backend["int16"])
    results["backend/keys"] = canon(list(encoded))
    results["backend/aliases"] = canon(
        [encoded["byte_ranges"] is backend["int16"].byte_ranges, type(encoded) is dict]
    )
    results["array/keys"] = canon(list(encoders.encode_array([1])))

    # the specific encoders are looked up by name in the module at call time
    calls = []

    def fake(name):
        def encoder(obj):
            calls.append((name, str(obj.dtype), type(obj).__name__))
            return f"{name}-data", {"by": name}

        return encoder

    originals = encoders.encode_timedelta, encoders.encode_datetime
    encoders.encode_timedelta = fake("td")
    encoders.encode_datetime = fake("dt")
    try:
        for name in ["int32", "timedelta-ms", "datetime-10s", "datetime-empty", "list", "bool"]:
            results[f"patched/{name}"] = run(encoders.encode_array, arrays[name])
    finally:
        encoders.encode_timedelta, encoders.encode_datetime = originals
    results["patched/calls"] = canon(calls)

    # through the callers
    variables = {
        "int": Variable("x", np.array([1, 2], dtype="int32"), {}),
        "2d": Variable(["x", "y"], np.array([[1, 2], [2, 3], [3, 4]], dtype="int32"), {"a": (1, 2)}),
        "backend": Variable("x", make_array(shape=(4,), dtype="int8"), {"b": 1}),
        "time": Variable("t", dt["10s"], {"units": "x"}),
        "delta": Variable("t", td["10ms"], {}),
        "list": Variable("t", [1.0, 2.0], {}),
    }
    for name, var in variables.items():
        results[f"variable/{name}"] = run(encoders.encode_variable, var)
    group = Group(
        path=None,
        url="s3://bucket/data",
        data={
            "time": variables["time"],
            "sub": Group(path=None, url=None, data={"d": variables["delta"]}, attrs={"n": 1}),
            "img": variables["backend"],
        },
        attrs={"k": [1, 2]},
    )
    results["group"] = run(encoders.encode_group, group)
    results["hierarchy/group"] = run(encoders.encode_hierarchy, group)
    results["hierarchy/preprocessed"] = run(
        lambda g: encoders.preprocess(encoders.encode_hierarchy(g)), group
    )

    return results


EXPECTED = None  # replaced below


def check():
    actual = collect()
    assert list(actual) == list(EXPECTED), "different set of cases"
    failures = [name for name in EXPECTED if actual[name] != EXPECTED[name]]
    for name in failures:
        print(f"MISMATCH {name}:\n  expected {EXPECTED[name]}\n  actual   {actual[name]}")
    assert not failures, failures
    return len(actual)


def test_equiv():
    check()


# EXPECTED-BEGIN
EXPECTED = {'timedelta/ms': "tuple[list[int:0, int:10, int:20, int:30], dict{str:'units': str:'ms'}]",
 'timedelta/s': "tuple[list[int:0, int:1, int:7, int:12, int:13], dict{str:'units': str:'s'}]",
 'timedelta/ns': "tuple[list[int:-5, int:0, int:1099511627776], dict{str:'units': str:'ns'}]",
 'timedelta/10ms': "tuple[list[int:1, int:2, int:3], dict{str:'units': str:'ms'}]",
 'timedelta/D': "tuple[list[int:1, int:365], dict{str:'units': str:'D'}]",
 'timedelta/generic': "tuple[list[int:1, int:2], dict{str:'units': str:'generic'}]",
 'timedelta/2d': "tuple[list[list[int:1, int:2], list[int:3, int:4]], dict{str:'units': str:'us'}]",
 'timedelta/empty': "tuple[list[], dict{str:'units': str:'s'}]",
 'timedelta/nat': "tuple[list[int:-9223372036854775808, int:3], dict{str:'units': str:'s'}]",
 'timedelta/0d': "tuple[int:7, dict{str:'units': str:'h'}]",
 'timedelta/int': 'raises TypeError: cannot get datetime metadata from non-datetime type',
 'timedelta/datetime': "tuple[list[int:1546300800], dict{str:'units': str:'s'}]",
 'timedelta/list': "raises AttributeError: 'list' object has no attribute 'dtype'",
 'datetime/ms': "tuple[list[int:0, int:86460000], dict{str:'reference': "
                "str:'2019-01-01T00:01:00.000', str:'units': str:'ms'}]",
 'datetime/ns': "tuple[list[int:0], dict{str:'reference': str:'2019-01-01T00:00:00.000000000', "
                "str:'units': str:'ns'}]",
 'datetime/s': "tuple[list[int:0, int:31536000], dict{str:'reference': str:'2019-01-01T00:00:00', "
               "str:'units': str:'s'}]",
 'datetime/10s': "tuple[list[int:0, int:10], dict{str:'reference': str:'2019-01-01T00:00:00', "
                 "str:'units': str:'10s'}]",
 'datetime/25us': "tuple[list[int:0, int:4, int:8], dict{str:'reference': "
                  "str:'1970-01-01T00:00:00.000000', str:'units': str:'25us'}]",
 'datetime/D': "tuple[list[int:0, int:-1], dict{str:'reference': str:'2019-01-01', str:'units': "
               "str:'D'}]",
 'datetime/M': "tuple[list[int:0, int:29], dict{str:'reference': str:'2019-01', str:'units': "
               "str:'M'}]",
 'datetime/2d': "tuple[list[list[int:0, int:0], list[int:2, int:3]], dict{str:'reference': "
                'str:"[\'2019-01-01\' \'2019-01-02\']", str:\'units\': str:\'D\'}]',
 'datetime/empty': 'raises IndexError: index 0 is out of bounds for axis 0 with size 0',
 'datetime/0d': 'raises IndexError: too many indices for array: array is 0-dimensional, but 1 were '
                'indexed',
 'datetime/nat-first': 'tuple[list[int:-9223372036854775808, int:-9223372036854775808], '
                       "dict{str:'reference': str:'NaT', str:'units': str:'s'}]",
 'datetime/nat-later': "tuple[list[int:0, int:-9223372036854775808], dict{str:'reference': "
                       "str:'2019-01-01T00:00:00', str:'units': str:'s'}]",
 'datetime/int': 'raises TypeError: cannot get datetime metadata from non-datetime type',
 'datetime/timedelta': "tuple[list[int:0, int:1, int:2], dict{str:'reference': str:'1 seconds', "
                       "str:'units': str:'s'}]",
 'datetime/list': "raises AttributeError: 'list' object has no attribute 'dtype'",
 'array/int32': "dict{str:'__type__': str:'array', str:'dtype': str:'int32', str:'data': "
                "list[int:0, int:1, int:2], str:'encoding': dict{}}",
 'array/uint8-2d': "dict{str:'__type__': str:'array', str:'dtype': str:'uint8', str:'data': "
                   "list[list[int:0, int:1, int:2], list[int:3, int:4, int:5]], str:'encoding': "
                   'dict{}}',
 'array/float16': "dict{str:'__type__': str:'array', str:'dtype': str:'float16', str:'data': "
                  "list[float:0.0, float:1.0, float:2.5], str:'encoding': dict{}}",
 'array/float64-nan': "dict{str:'__type__': str:'array', str:'dtype': str:'float64', str:'data': "
                      "list[float:nan, float:inf, float:-0.0], str:'encoding': dict{}}",
 'array/bool': "dict{str:'__type__': str:'array', str:'dtype': str:'bool', str:'data': "
               "list[bool:True, bool:False], str:'encoding': dict{}}",
 'array/complex': "dict{str:'__type__': str:'array', str:'dtype': str:'complex64', str:'data': "
                  "list[complex:(1+2j), complex:3j], str:'encoding': dict{}}",
 'array/str': "dict{str:'__type__': str:'array', str:'dtype': str:'<U2', str:'data': list[str:'a', "
              "str:'bc'], str:'encoding': dict{}}",
 'array/bytes': "dict{str:'__type__': str:'array', str:'dtype': str:'|S2', str:'data': "
                "list[bytes:b'a', bytes:b'bc'], str:'encoding': dict{}}",
 'array/object': "dict{str:'__type__': str:'array', str:'dtype': str:'object', str:'data': "
                 "list[int:1, str:'a', NoneType:None], str:'encoding': dict{}}",
 'array/empty': "dict{str:'__type__': str:'array', str:'dtype': str:'float32', str:'data': list[], "
                "str:'encoding': dict{}}",
 'array/0d': "dict{str:'__type__': str:'array', str:'dtype': str:'int8', str:'data': int:5, "
             "str:'encoding': dict{}}",
 'array/structured': 'dict{str:\'__type__\': str:\'array\', str:\'dtype\': str:"[(\'a\', \'<i4\'), '
                     '(\'b\', \'<f8\')]", str:\'data\': list[tuple[int:1, float:2.0]], '
                     "str:'encoding': dict{}}",
 'array/list': "dict{str:'__type__': str:'array', str:'dtype': str:'int64', str:'data': "
               "list[int:1, int:2, int:3], str:'encoding': dict{}}",
 'array/nested-list': "dict{str:'__type__': str:'array', str:'dtype': str:'float64', str:'data': "
                      'list[list[float:1.5, float:2.0], list[float:3.0, float:4.0]], '
                      "str:'encoding': dict{}}",
 'array/tuple': "dict{str:'__type__': str:'array', str:'dtype': str:'int64', str:'data': "
                "list[int:1, int:2], str:'encoding': dict{}}",
 'array/scalar': "dict{str:'__type__': str:'array', str:'dtype': str:'int64', str:'data': int:4, "
                 "str:'encoding': dict{}}",
 'array/float-scalar': "dict{str:'__type__': str:'array', str:'dtype': str:'float64', str:'data': "
                       "float:4.5, str:'encoding': dict{}}",
 'array/string': "dict{str:'__type__': str:'array', str:'dtype': str:'<U3', str:'data': str:'abc', "
                 "str:'encoding': dict{}}",
 'array/none': "dict{str:'__type__': str:'array', str:'dtype': str:'object', str:'data': "
               "NoneType:None, str:'encoding': dict{}}",
 'array/np-scalar': "dict{str:'__type__': str:'array', str:'dtype': str:'int16', str:'data': "
                    "int:3, str:'encoding': dict{}}",
 'array/datetime-scalar': 'raises IndexError: too many indices for array: array is 0-dimensional, '
                          'but 1 were indexed',
 'array/timedelta-scalar': "dict{str:'__type__': str:'array', str:'dtype': str:'timedelta64[m]', "
                           "str:'data': int:5, str:'encoding': dict{str:'units': str:'m'}}",
 'array/list-of-datetimes': "dict{str:'__type__': str:'array', str:'dtype': str:'datetime64[s]', "
                            "str:'data': list[int:0, int:86400], str:'encoding': "
                            "dict{str:'reference': str:'2019-01-01T00:00:00', str:'units': "
                            "str:'s'}}",
 'array/timedelta-ms': "dict{str:'__type__': str:'array', str:'dtype': str:'timedelta64[ms]', "
                       "str:'data': list[int:0, int:10, int:20, int:30], str:'encoding': "
                       "dict{str:'units': str:'ms'}}",
 'array/timedelta-s': "dict{str:'__type__': str:'array', str:'dtype': str:'timedelta64[s]', "
                      "str:'data': list[int:0, int:1, int:7, int:12, int:13], str:'encoding': "
                      "dict{str:'units': str:'s'}}",
 'array/timedelta-ns': "dict{str:'__type__': str:'array', str:'dtype': str:'timedelta64[ns]', "
                       "str:'data': list[int:-5, int:0, int:1099511627776], str:'encoding': "
                       "dict{str:'units': str:'ns'}}",
 'array/timedelta-10ms': "dict{str:'__type__': str:'array', str:'dtype': str:'timedelta64[10ms]', "
                         "str:'data': list[int:1, int:2, int:3], str:'encoding': dict{str:'units': "
                         "str:'ms'}}",
 'array/timedelta-D': "dict{str:'__type__': str:'array', str:'dtype': str:'timedelta64[D]', "
                      "str:'data': list[int:1, int:365], str:'encoding': dict{str:'units': "
                      "str:'D'}}",
 'array/timedelta-generic': "dict{str:'__type__': str:'array', str:'dtype': str:'timedelta64', "
                            "str:'data': list[int:1, int:2], str:'encoding': dict{str:'units': "
                            "str:'generic'}}",
 'array/timedelta-2d': "dict{str:'__type__': str:'array', str:'dtype': str:'timedelta64[us]', "
                       "str:'data': list[list[int:1, int:2], list[int:3, int:4]], str:'encoding': "
                       "dict{str:'units': str:'us'}}",
 'array/timedelta-empty': "dict{str:'__type__': str:'array', str:'dtype': str:'timedelta64[s]', "
                          "str:'data': list[], str:'encoding': dict{str:'units': str:'s'}}",
 'array/timedelta-nat': "dict{str:'__type__': str:'array', str:'dtype': str:'timedelta64[s]', "
                        "str:'data': list[int:-9223372036854775808, int:3], str:'encoding': "
                        "dict{str:'units': str:'s'}}",
 'array/timedelta-0d': "dict{str:'__type__': str:'array', str:'dtype': str:'timedelta64[h]', "
                       "str:'data': int:7, str:'encoding': dict{str:'units': str:'h'}}",
 'array/timedelta-int': "dict{str:'__type__': str:'array', str:'dtype': str:'int64', str:'data': "
                        "list[int:1, int:2, int:3], str:'encoding': dict{}}",
 'array/timedelta-datetime': "dict{str:'__type__': str:'array', str:'dtype': str:'datetime64[s]', "
                             "str:'data': list[int:0], str:'encoding': dict{str:'reference': "
                             "str:'2019-01-01T00:00:00', str:'units': str:'s'}}",
 'array/datetime-ms': "dict{str:'__type__': str:'array', str:'dtype': str:'datetime64[ms]', "
                      "str:'data': list[int:0, int:86460000], str:'encoding': "
                      "dict{str:'reference': str:'2019-01-01T00:01:00.000', str:'units': "
                      "str:'ms'}}",
 'array/datetime-ns': "dict{str:'__type__': str:'array', str:'dtype': str:'datetime64[ns]', "
                      "str:'data': list[int:0], str:'encoding': dict{str:'reference': "
                      "str:'2019-01-01T00:00:00.000000000', str:'units': str:'ns'}}",
 'array/datetime-s': "dict{str:'__type__': str:'array', str:'dtype': str:'datetime64[s]', "
                     "str:'data': list[int:0, int:31536000], str:'encoding': dict{str:'reference': "
                     "str:'2019-01-01T00:00:00', str:'units': str:'s'}}",
 'array/datetime-10s': "dict{str:'__type__': str:'array', str:'dtype': str:'datetime64[10s]', "
                       "str:'data': list[int:0, int:10], str:'encoding': dict{str:'reference': "
                       "str:'2019-01-01T00:00:00', str:'units': str:'10s'}}",
 'array/datetime-25us': "dict{str:'__type__': str:'array', str:'dtype': str:'datetime64[25us]', "
                        "str:'data': list[int:0, int:4, int:8], str:'encoding': "
                        "dict{str:'reference': str:'1970-01-01T00:00:00.000000', str:'units': "
                        "str:'25us'}}",
 'array/datetime-D': "dict{str:'__type__': str:'array', str:'dtype': str:'datetime64[D]', "
                     "str:'data': list[int:0, int:-1], str:'encoding': dict{str:'reference': "
                     "str:'2019-01-01', str:'units': str:'D'}}",
 'array/datetime-M': "dict{str:'__type__': str:'array', str:'dtype': str:'datetime64[M]', "
                     "str:'data': list[int:0, int:29], str:'encoding': dict{str:'reference': "
                     "str:'2019-01', str:'units': str:'M'}}",
 'array/datetime-2d': "dict{str:'__type__': str:'array', str:'dtype': str:'datetime64[D]', "
                      "str:'data': list[list[int:0, int:0], list[int:2, int:3]], str:'encoding': "
                      'dict{str:\'reference\': str:"[\'2019-01-01\' \'2019-01-02\']", '
                      "str:'units': str:'D'}}",
 'array/datetime-empty': 'raises IndexError: index 0 is out of bounds for axis 0 with size 0',
 'array/datetime-0d': 'raises IndexError: too many indices for array: array is 0-dimensional, but '
                      '1 were indexed',
 'array/datetime-nat-first': "dict{str:'__type__': str:'array', str:'dtype': str:'datetime64[s]', "
                             "str:'data': list[int:-9223372036854775808, "
                             "int:-9223372036854775808], str:'encoding': dict{str:'reference': "
                             "str:'NaT', str:'units': str:'s'}}",
 'array/datetime-nat-later': "dict{str:'__type__': str:'array', str:'dtype': str:'datetime64[s]', "
                             "str:'data': list[int:0, int:-9223372036854775808], str:'encoding': "
                             "dict{str:'reference': str:'2019-01-01T00:00:00', str:'units': "
                             "str:'s'}}",
 'array/datetime-int': "dict{str:'__type__': str:'array', str:'dtype': str:'int64', str:'data': "
                       "list[int:1, int:2, int:3], str:'encoding': dict{}}",
 'array/datetime-timedelta': "dict{str:'__type__': str:'array', str:'dtype': str:'timedelta64[s]', "
                             "str:'data': list[int:1, int:2, int:3], str:'encoding': "
                             "dict{str:'units': str:'s'}}",
 'backend/int16': "dict{str:'__type__': str:'backend_array', str:'root': str:'/path/to', "
                  "str:'url': str:'file', str:'shape': tuple[int:4, int:3], str:'dtype': "
                  "str:'int16', str:'byte_ranges': list[tuple[int:5, int:10], tuple[int:15, "
                  "int:20], tuple[int:25, int:30], tuple[int:35, int:40]], str:'type_code': "
                  "str:'IU2'}",
 'backend/int8-1d': "dict{str:'__type__': str:'backend_array', str:'root': str:'/path/to', "
                    "str:'url': str:'file', str:'shape': tuple[int:4], str:'dtype': str:'int8', "
                    "str:'byte_ranges': list[tuple[int:5, int:10], tuple[int:15, int:20], "
                    "tuple[int:25, int:30], tuple[int:35, int:40]], str:'type_code': str:'IU2'}",
 'backend/np-dtype': "dict{str:'__type__': str:'backend_array', str:'root': str:'/path/to', "
                     "str:'url': str:'file', str:'shape': tuple[int:2, int:5], str:'dtype': "
                     "str:'complex64', str:'byte_ranges': list[tuple[int:5, int:10], tuple[int:15, "
                     "int:20]], str:'type_code': str:'C*8'}",
 'backend/other-url': "dict{str:'__type__': str:'backend_array', str:'root': str:'/x', str:'url': "
                      "str:'a/b/IMG-HH', str:'shape': tuple[int:1, int:1], str:'dtype': "
                      "str:'int16', str:'byte_ranges': list[tuple[int:5, int:10]], "
                      "str:'type_code': str:'IU2'}",
 'backend/empty': "dict{str:'__type__': str:'backend_array', str:'root': str:'/path/to', "
                  "str:'url': str:'file', str:'shape': tuple[int:0, int:3], str:'dtype': "
                  "str:'int16', str:'byte_ranges': list[], str:'type_code': str:'IU2'}",
 'backend/subclass': "dict{str:'__type__': str:'backend_array', str:'root': str:'fake-root', "
                     "str:'url': str:'u', str:'shape': tuple[int:1, int:1], str:'dtype': "
                     "str:'int16', str:'byte_ranges': list[tuple[int:0, int:2]], str:'type_code': "
                     "str:'IU2'}",
 'backend/partial-0': "raises AttributeError: 'Array' object has no attribute 'fs'",
 'backend/partial-1': "raises AttributeError: 'Array' object has no attribute 'url'",
 'backend/partial-2': "raises AttributeError: 'Array' object has no attribute 'shape'",
 'backend/partial-3': "raises AttributeError: 'Array' object has no attribute 'dtype'",
 'backend/partial-4': "raises AttributeError: 'Array' object has no attribute 'byte_ranges'",
 'backend/partial-5': "raises AttributeError: 'Array' object has no attribute 'type_code'",
 'backend/partial-6': "dict{str:'__type__': str:'backend_array', str:'root': str:'fake-root', "
                      "str:'url': str:'u', str:'shape': tuple[int:1, int:2], str:'dtype': "
                      "str:'float32', str:'byte_ranges': list[tuple[int:0, int:8]], "
                      "str:'type_code': str:'F*4'}",
 'backend/without-fs': "raises AttributeError: 'Array' object has no attribute 'fs'",
 'backend/without-url': "raises AttributeError: 'Array' object has no attribute 'url'",
 'backend/without-shape': "raises AttributeError: 'Array' object has no attribute 'shape'",
 'backend/without-dtype': "raises AttributeError: 'Array' object has no attribute 'dtype'",
 'backend/without-byte_ranges': "raises AttributeError: 'Array' object has no attribute "
                                "'byte_ranges'",
 'backend/without-type_code': "raises AttributeError: 'Array' object has no attribute 'type_code'",
 'backend/fs-without-path': "raises AttributeError: 'object' object has no attribute 'path'",
 'backend/keys': "list[str:'__type__', str:'root', str:'url', str:'shape', str:'dtype', "
                 "str:'byte_ranges', str:'type_code']",
 'backend/aliases': 'list[bool:True, bool:True]',
 'array/keys': "list[str:'__type__', str:'dtype', str:'data', str:'encoding']",
 'patched/int32': "dict{str:'__type__': str:'array', str:'dtype': str:'int32', str:'data': "
                  "list[int:0, int:1, int:2], str:'encoding': dict{}}",
 'patched/timedelta-ms': "dict{str:'__type__': str:'array', str:'dtype': str:'timedelta64[ms]', "
                         "str:'data': str:'td-data', str:'encoding': dict{str:'by': str:'td'}}",
 'patched/datetime-10s': "dict{str:'__type__': str:'array', str:'dtype': str:'datetime64[10s]', "
                         "str:'data': str:'dt-data', str:'encoding': dict{str:'by': str:'dt'}}",
 'patched/datetime-empty': "dict{str:'__type__': str:'array', str:'dtype': str:'datetime64[s]', "
                           "str:'data': str:'dt-data', str:'encoding': dict{str:'by': str:'dt'}}",
 'patched/list': "dict{str:'__type__': str:'array', str:'dtype': str:'int64', str:'data': "
                 "list[int:1, int:2, int:3], str:'encoding': dict{}}",
 'patched/bool': "dict{str:'__type__': str:'array', str:'dtype': str:'bool', str:'data': "
                 "list[bool:True, bool:False], str:'encoding': dict{}}",
 'patched/calls': "list[tuple[str:'td', str:'timedelta64[ms]', str:'ndarray'], tuple[str:'dt', "
                  "str:'datetime64[10s]', str:'ndarray'], tuple[str:'dt', str:'datetime64[s]', "
                  "str:'ndarray']]",
 'variable/int': "dict{str:'__type__': str:'variable', str:'dims': list[str:'x'], str:'data': "
                 "dict{str:'__type__': str:'array', str:'dtype': str:'int32', str:'data': "
                 "list[int:1, int:2], str:'encoding': dict{}}, str:'attrs': dict{}}",
 'variable/2d': "dict{str:'__type__': str:'variable', str:'dims': list[str:'x', str:'y'], "
                "str:'data': dict{str:'__type__': str:'array', str:'dtype': str:'int32', "
                "str:'data': list[list[int:1, int:2], list[int:2, int:3], list[int:3, int:4]], "
                "str:'encoding': dict{}}, str:'attrs': dict{str:'a': tuple[int:1, int:2]}}",
 'variable/backend': "dict{str:'__type__': str:'variable', str:'dims': list[str:'x'], str:'data': "
                     "dict{str:'__type__': str:'backend_array', str:'root': str:'/path/to', "
                     "str:'url': str:'file', str:'shape': tuple[int:4], str:'dtype': str:'int8', "
                     "str:'byte_ranges': list[tuple[int:5, int:10], tuple[int:15, int:20], "
                     "tuple[int:25, int:30], tuple[int:35, int:40]], str:'type_code': str:'IU2'}, "
                     "str:'attrs': dict{str:'b': int:1}}",
 'variable/time': "dict{str:'__type__': str:'variable', str:'dims': list[str:'t'], str:'data': "
                  "dict{str:'__type__': str:'array', str:'dtype': str:'datetime64[10s]', "
                  "str:'data': list[int:0, int:10], str:'encoding': dict{str:'reference': "
                  "str:'2019-01-01T00:00:00', str:'units': str:'10s'}}, str:'attrs': "
                  "dict{str:'units': str:'x'}}",
 'variable/delta': "dict{str:'__type__': str:'variable', str:'dims': list[str:'t'], str:'data': "
                   "dict{str:'__type__': str:'array', str:'dtype': str:'timedelta64[10ms]', "
                   "str:'data': list[int:1, int:2, int:3], str:'encoding': dict{str:'units': "
                   "str:'ms'}}, str:'attrs': dict{}}",
 'variable/list': "dict{str:'__type__': str:'variable', str:'dims': list[str:'t'], str:'data': "
                  "dict{str:'__type__': str:'array', str:'dtype': str:'float64', str:'data': "
                  "list[float:1.0, float:2.0], str:'encoding': dict{}}, str:'attrs': dict{}}",
 'group': "dict{str:'__type__': str:'group', str:'url': str:'s3://bucket/data', str:'data': "
          "dict{str:'time': dict{str:'__type__': str:'variable', str:'dims': list[str:'t'], "
          "str:'data': dict{str:'__type__': str:'array', str:'dtype': str:'datetime64[10s]', "
          "str:'data': list[int:0, int:10], str:'encoding': dict{str:'reference': "
          "str:'2019-01-01T00:00:00', str:'units': str:'10s'}}, str:'attrs': dict{str:'units': "
          "str:'x'}}, str:'sub': dict{str:'__type__': str:'group', str:'url': "
          "str:'s3://bucket/data', str:'data': dict{str:'d': dict{str:'__type__': str:'variable', "
          "str:'dims': list[str:'t'], str:'data': dict{str:'__type__': str:'array', str:'dtype': "
          "str:'timedelta64[10ms]', str:'data': list[int:1, int:2, int:3], str:'encoding': "
          "dict{str:'units': str:'ms'}}, str:'attrs': dict{}}}, str:'path': str:'/sub', "
          "str:'attrs': dict{str:'n': int:1}}, str:'img': dict{str:'__type__': str:'variable', "
          "str:'dims': list[str:'x'], str:'data': dict{str:'__type__': str:'backend_array', "
          "str:'root': str:'/path/to', str:'url': str:'file', str:'shape': tuple[int:4], "
          "str:'dtype': str:'int8', str:'byte_ranges': list[tuple[int:5, int:10], tuple[int:15, "
          "int:20], tuple[int:25, int:30], tuple[int:35, int:40]], str:'type_code': str:'IU2'}, "
          "str:'attrs': dict{str:'b': int:1}}}, str:'path': str:'/', str:'attrs': dict{str:'k': "
          'list[int:1, int:2]}}',
 'hierarchy/group': "dict{str:'__type__': str:'group', str:'url': str:'s3://bucket/data', "
                    "str:'data': dict{str:'time': dict{str:'__type__': str:'variable', str:'dims': "
                    "list[str:'t'], str:'data': dict{str:'__type__': str:'array', str:'dtype': "
                    "str:'datetime64[10s]', str:'data': list[int:0, int:10], str:'encoding': "
                    "dict{str:'reference': str:'2019-01-01T00:00:00', str:'units': str:'10s'}}, "
                    "str:'attrs': dict{str:'units': str:'x'}}, str:'sub': dict{str:'__type__': "
                    "str:'group', str:'url': str:'s3://bucket/data', str:'data': dict{str:'d': "
                    "dict{str:'__type__': str:'variable', str:'dims': list[str:'t'], str:'data': "
                    "dict{str:'__type__': str:'array', str:'dtype': str:'timedelta64[10ms]', "
                    "str:'data': list[int:1, int:2, int:3], str:'encoding': dict{str:'units': "
                    "str:'ms'}}, str:'attrs': dict{}}}, str:'path': str:'/sub', str:'attrs': "
                    "dict{str:'n': int:1}}, str:'img': dict{str:'__type__': str:'variable', "
                    "str:'dims': list[str:'x'], str:'data': dict{str:'__type__': "
                    "str:'backend_array', str:'root': str:'/path/to', str:'url': str:'file', "
                    "str:'shape': tuple[int:4], str:'dtype': str:'int8', str:'byte_ranges': "
                    'list[tuple[int:5, int:10], tuple[int:15, int:20], tuple[int:25, int:30], '
                    "tuple[int:35, int:40]], str:'type_code': str:'IU2'}, str:'attrs': "
                    "dict{str:'b': int:1}}}, str:'path': str:'/', str:'attrs': dict{str:'k': "
                    'list[int:1, int:2]}}',
 'hierarchy/preprocessed': "dict{str:'__type__': str:'group', str:'url': str:'s3://bucket/data', "
                           "str:'data': dict{str:'time': dict{str:'__type__': str:'variable', "
                           "str:'dims': list[str:'t'], str:'data': dict{str:'__type__': "
                           "str:'array', str:'dtype': str:'datetime64[10s]', str:'data': "
                           "list[int:0, int:10], str:'encoding': dict{str:'reference': "
                           "str:'2019-01-01T00:00:00', str:'units': str:'10s'}}, str:'attrs': "
                           "dict{str:'units': str:'x'}}, str:'sub': dict{str:'__type__': "
                           "str:'group', str:'url': str:'s3://bucket/data', str:'data': "
                           "dict{str:'d': dict{str:'__type__': str:'variable', str:'dims': "
                           "list[str:'t'], str:'data': dict{str:'__type__': str:'array', "
                           "str:'dtype': str:'timedelta64[10ms]', str:'data': list[int:1, int:2, "
                           "int:3], str:'encoding': dict{str:'units': str:'ms'}}, str:'attrs': "
                           "dict{}}}, str:'path': str:'/sub', str:'attrs': dict{str:'n': int:1}}, "
                           "str:'img': dict{str:'__type__': str:'variable', str:'dims': "
                           "list[str:'x'], str:'data': dict{str:'__type__': str:'backend_array', "
                           "str:'root': str:'/path/to', str:'url': str:'file', str:'shape': "
                           "dict{str:'__type__': str:'tuple', str:'data': list[int:4]}, "
                           "str:'dtype': str:'int8', str:'byte_ranges': list[dict{str:'__type__': "
                           "str:'tuple', str:'data': list[int:5, int:10]}, dict{str:'__type__': "
                           "str:'tuple', str:'data': list[int:15, int:20]}, dict{str:'__type__': "
                           "str:'tuple', str:'data': list[int:25, int:30]}, dict{str:'__type__': "
                           "str:'tuple', str:'data': list[int:35, int:40]}], str:'type_code': "
                           "str:'IU2'}, str:'attrs': dict{str:'b': int:1}}}, str:'path': str:'/', "
                           "str:'attrs': dict{str:'k': list[int:1, int:2]}}"}
# EXPECTED-END

if __name__ == "__main__":
    if "--record" in sys.argv:
        print("EXPECTED = " + pprint.pformat(collect(), width=100, sort_dicts=False))
    else:
        n = check()
        print(f"ok: {n} cases identical to the recorded results")
