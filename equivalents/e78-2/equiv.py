"""Equivalence check for refactoring 2 (ceos_alos2.dicttoolz: copy_items, move_items, key_exists).

Run as `python equiv.py` (or through pytest).  `python equiv.py --record` prints
the outcomes of the code currently importable, which is how EXPECTED was produced
from the unchanged code.
"""

import copy
import pprint
import re
import sys

from ceos_alos2 import dicttoolz
from ceos_alos2.dicttoolz import copy_items, key_exists, move_items

LOG = []


class LoggingDict(dict):
    """dict that records every item access, to compare the order of lookups"""

    def __init__(self, name, *args, **kwargs):
        super().__init__(*args, **kwargs)
        self.name = name

    def __getitem__(self, key):
        LOG.append((self.name, "getitem", key))
        return super().__getitem__(key)

    def __deepcopy__(self, memo):
        LOG.append((self.name, "deepcopy"))
        return LoggingDict(self.name + "'", {k: copy.deepcopy(v, memo) for k, v in dict.items(self)})

    def pop(self, *args):
        LOG.append((self.name, "pop", args))
        return super().pop(*args)


class Instructions(dict):
    """instruction table that records when it is iterated"""

    def items(self):
        LOG.append(("instructions", "items"))
        for item in super().items():
            LOG.append(("instructions", "next item", item[0]))
            yield item

    def values(self):
        LOG.append(("instructions", "values"))
        for value in super().values():
            LOG.append(("instructions", "next value", value))
            yield value


def show(obj):
    # memory addresses (of the module's marker object) differ between runs
    return re.sub(r" at 0x[0-9a-f]+>", " at 0x...>", repr(obj))


def describe_exception(exc):
    cause = exc.__cause__
    return (
        "raises",
        type(exc).__name__,
        show(str(exc)),
        None if cause is None else (type(cause).__name__, show(str(cause))),
        exc.__suppress_context__,
    )


def outcome(func, *args):
    before = copy.deepcopy(args)
    try:
        result = func(*args)
    except BaseException as exc:  # noqa: B902
        return describe_exception(exc) + (("args unchanged", show(before) == show(args)),)
    return (
        "returns",
        type(result).__name__,
        show(result),
        ("args unchanged", show(before) == show(args)),
        ("is mapping", result is args[-1]),
    )


def nested():
    return {
        "a": {"b": {"c": 1, "d": None}, "e": [10, 20, {"f": 30}]},
        "g": 2,
        "h": {},
        "i": "text",
        "j.k": 3,
        "": {"": 4},
        0: {1: "ints"},
        None: 5,
    }


COPY_CASES = [
    ({}, {}),
    ({}, nested()),
    ({("x",): ["g"]}, nested()),
    ({("x", "y"): ["g"]}, nested()),
    ({("a", "b", "c"): ["g"]}, nested()),
    ({("g",): ["a", "b"]}, nested()),
    ({("x",): ["missing"]}, nested()),
    ({("x",): ["a", "missing"], ("y",): ["a", "b", "c"]}, nested()),
    ({("x",): ["a", "b", "c"], ("y",): ["x"]}, nested()),  # lookups use the original mapping
    ({("y",): ["x"], ("x",): ["a", "b", "c"]}, nested()),
    ({("x",): ["a", "b", "d"]}, nested()),  # a None value is still a value
    ({("x",): ["a", "e", 1]}, nested()),  # list index
    ({("x",): ["a", "e", 5]}, nested()),  # IndexError counts as missing
    ({("x",): ["a", "e", "f"]}, nested()),  # TypeError counts as missing
    ({("x",): ["a", "e", 2, "f"]}, nested()),
    ({("x",): ["g", "deeper"]}, nested()),
    ({("x",): ["i", 0]}, nested()),  # strings can be indexed
    ({("x",): []}, nested()),  # empty source: the mapping itself
    ({("x",): ()}, {"q": 1}),
    ({("x",): "g"}, nested()),  # a string is a sequence of keys
    ({("x",): "ab"}, {"a": {"b": 7}}),
    ({"xy": ["g"]}, nested()),  # string destination: one key per character
    ({("x",): [""]}, nested()),
    ({("x",): ["", ""]}, nested()),
    ({("x",): [0, 1]}, nested()),
    ({("x",): [None]}, nested()),
    ({("x",): [[1]]}, nested()),  # unhashable key: TypeError counts as missing
    ({("g", "z"): ["g"]}, nested()),  # destination runs through a non-mapping
    ({(): ["g"]}, nested()),  # empty destination
    ({5: ["g"]}, nested()),  # destination that cannot be listed
    ({("x",): 5}, nested()),  # source that cannot be iterated
    ({("x",): None}, nested()),
    ({("x",): ["g"], 5: ["g"], ("y",): ["g"]}, nested()),
    ({("x",): ["g"]}, [1, 2]),  # mapping that is a list
    ({(0,): [1]}, [1, 2]),
    ({("x",): ["g"]}, None),
    ([("x", ["g"])], nested()),  # instructions without .items
    (None, nested()),
    ({("x",): [dicttoolz.sentinel]}, {dicttoolz.sentinel: 1}),
    ({("x",): ["s"]}, {"s": dicttoolz.sentinel}),  # the marker itself is treated as missing
]

MOVE_CASES = COPY_CASES + [
    ({("x",): ["a", "b", "c"], ("y",): ["a", "b", "d"]}, nested()),
    ({("x",): ["a", "b"], ("y",): ["a", "b", "c"]}, nested()),
    ({("a", "b", "c"): ["a", "b", "c"]}, nested()),  # moved onto itself
    ({("a", "b"): ["a", "b", "c"]}, nested()),
    ({("x",): ["a", "e", 0]}, nested()),  # parent is a list: pop(tail, None) is refused
    ({("x",): ["i", 0]}, nested()),  # parent is a string
    ({("x",): ["missing", "c"]}, nested()),  # parent missing
    ({("x",): ["a", "b", "missing"]}, nested()),  # parent present, key missing
    ({("x",): ["g"], ("y",): ["g"]}, nested()),  # the same source twice
    ({("x",): ["h"]}, nested()),
    ({("x", "y", "z"): ["a"]}, nested()),
]

KEY_CASES = [
    ("g", nested()),
    ("missing", nested()),
    ("a.b", nested()),
    ("a.b.c", nested()),
    ("a.b.d", nested()),
    ("a.b.c.x", nested()),
    ("a.x", nested()),
    ("j.k", nested()),  # dotted names are always split
    ("a.e.0", nested()),  # indices stay strings after splitting
    (".", nested()),
    ("", nested()),
    ("a.", nested()),
    (".a", nested()),
    ("a..b", nested()),
    ("i.0", nested()),
    (["a", "b", "c"], nested()),
    (["a", "e", 2, "f"], nested()),
    (["a", "e", 3], nested()),
    (["j.k"], nested()),
    ([], nested()),
    (["."], nested()),  # "." in a list is a membership test
    (["a", "."], nested()),
    (("a", "b"), nested()),  # tuples are single keys
    ((".",), nested()),
    (("g",), {("g",): 1}),
    (0, nested()),  # "." in 0 is refused
    (None, nested()),
    (1.5, nested()),
    (b"a.b", nested()),
    (frozenset("."), nested()),
    (frozenset("g"), {frozenset("g"): 1}),
    ({"g": 1}, nested()),
    ({".": 1}, nested()),
    ("g", []),
    ("g", None),
    ("0", [1]),
    ([0], [1]),
    ([1], [1]),
    ("s", {"s": dicttoolz.sentinel}),
    ("g", {"g": None}),
    ("g", {"g": False}),
]


def logged_run():
    """the order of lookups, copies and pops, on a mapping that records them"""
    results = []
    for func in (copy_items, move_items):
        del LOG[:]
        inner = LoggingDict("inner", {"c": 1, "d": 2})
        outer = LoggingDict("outer", {"b": inner, "g": 3})
        instructions = Instructions(
            {("x",): ["b", "c"], ("y",): ["nope", "c"], ("z", "w"): ["g"], ("v",): ["b", "e"]}
        )
        result = func(instructions, outer)
        results.append((func.__name__, show(result), type(result).__name__, list(LOG)))
    return results


def run():
    return {
        "copy_items": [outcome(copy_items, *case) for case in COPY_CASES],
        "move_items": [outcome(move_items, *case) for case in MOVE_CASES],
        "key_exists": [outcome(key_exists, *case) for case in KEY_CASES],
        "logged": logged_run(),
    }


# recorded from the unchanged code (HEAD) with `python equiv.py --record`
EXPECTED = {'copy_items': [('returns', 'dict', '{}', ('args unchanged', True), ('is mapping', True)),
                ('returns',
                 'dict',
                 "{'a': {'b': {'c': 1, 'd': None}, 'e': [10, 20, {'f': 30}]}, 'g': 2, 'h': {}, "
                 "'i': 'text', 'j.k': 3, '': {'': 4}, 0: {1: 'ints'}, None: 5}",
                 ('args unchanged', True),
                 ('is mapping', True)),
                ('returns',
                 'dict',
                 "{'a': {'b': {'c': 1, 'd': None}, 'e': [10, 20, {'f': 30}]}, 'g': 2, 'h': {}, "
                 "'i': 'text', 'j.k': 3, '': {'': 4}, 0: {1: 'ints'}, None: 5, 'x': 2}",
                 ('args unchanged', True),
                 ('is mapping', False)),
                ('returns',
                 'dict',
                 "{'a': {'b': {'c': 1, 'd': None}, 'e': [10, 20, {'f': 30}]}, 'g': 2, 'h': {}, "
                 "'i': 'text', 'j.k': 3, '': {'': 4}, 0: {1: 'ints'}, None: 5, 'x': {'y': 2}}",
                 ('args unchanged', True),
                 ('is mapping', False)),
                ('returns',
                 'dict',
                 "{'a': {'b': {'c': 2, 'd': None}, 'e': [10, 20, {'f': 30}]}, 'g': 2, 'h': {}, "
                 "'i': 'text', 'j.k': 3, '': {'': 4}, 0: {1: 'ints'}, None: 5}",
                 ('args unchanged', True),
                 ('is mapping', False)),
                ('returns',
                 'dict',
                 "{'a': {'b': {'c': 1, 'd': None}, 'e': [10, 20, {'f': 30}]}, 'g': {'c': 1, 'd': "
                 "None}, 'h': {}, 'i': 'text', 'j.k': 3, '': {'': 4}, 0: {1: 'ints'}, None: 5}",
                 ('args unchanged', True),
                 ('is mapping', False)),
                ('returns',
                 'dict',
                 "{'a': {'b': {'c': 1, 'd': None}, 'e': [10, 20, {'f': 30}]}, 'g': 2, 'h': {}, "
                 "'i': 'text', 'j.k': 3, '': {'': 4}, 0: {1: 'ints'}, None: 5}",
                 ('args unchanged', True),
                 ('is mapping', True)),
                ('returns',
                 'dict',
                 "{'a': {'b': {'c': 1, 'd': None}, 'e': [10, 20, {'f': 30}]}, 'g': 2, 'h': {}, "
                 "'i': 'text', 'j.k': 3, '': {'': 4}, 0: {1: 'ints'}, None: 5, 'y': 1}",
                 ('args unchanged', True),
                 ('is mapping', False)),
                ('returns',
                 'dict',
                 "{'a': {'b': {'c': 1, 'd': None}, 'e': [10, 20, {'f': 30}]}, 'g': 2, 'h': {}, "
                 "'i': 'text', 'j.k': 3, '': {'': 4}, 0: {1: 'ints'}, None: 5, 'x': 1}",
                 ('args unchanged', True),
                 ('is mapping', False)),
                ('returns',
                 'dict',
                 "{'a': {'b': {'c': 1, 'd': None}, 'e': [10, 20, {'f': 30}]}, 'g': 2, 'h': {}, "
                 "'i': 'text', 'j.k': 3, '': {'': 4}, 0: {1: 'ints'}, None: 5, 'x': 1}",
                 ('args unchanged', True),
                 ('is mapping', False)),
                ('returns',
                 'dict',
                 "{'a': {'b': {'c': 1, 'd': None}, 'e': [10, 20, {'f': 30}]}, 'g': 2, 'h': {}, "
                 "'i': 'text', 'j.k': 3, '': {'': 4}, 0: {1: 'ints'}, None: 5, 'x': None}",
                 ('args unchanged', True),
                 ('is mapping', False)),
                ('returns',
                 'dict',
                 "{'a': {'b': {'c': 1, 'd': None}, 'e': [10, 20, {'f': 30}]}, 'g': 2, 'h': {}, "
                 "'i': 'text', 'j.k': 3, '': {'': 4}, 0: {1: 'ints'}, None: 5, 'x': 20}",
                 ('args unchanged', True),
                 ('is mapping', False)),
                ('returns',
                 'dict',
                 "{'a': {'b': {'c': 1, 'd': None}, 'e': [10, 20, {'f': 30}]}, 'g': 2, 'h': {}, "
                 "'i': 'text', 'j.k': 3, '': {'': 4}, 0: {1: 'ints'}, None: 5}",
                 ('args unchanged', True),
                 ('is mapping', True)),
                ('returns',
                 'dict',
                 "{'a': {'b': {'c': 1, 'd': None}, 'e': [10, 20, {'f': 30}]}, 'g': 2, 'h': {}, "
                 "'i': 'text', 'j.k': 3, '': {'': 4}, 0: {1: 'ints'}, None: 5}",
                 ('args unchanged', True),
                 ('is mapping', True)),
                ('returns',
                 'dict',
                 "{'a': {'b': {'c': 1, 'd': None}, 'e': [10, 20, {'f': 30}]}, 'g': 2, 'h': {}, "
                 "'i': 'text', 'j.k': 3, '': {'': 4}, 0: {1: 'ints'}, None: 5, 'x': 30}",
                 ('args unchanged', True),
                 ('is mapping', False)),
                ('returns',
                 'dict',
                 "{'a': {'b': {'c': 1, 'd': None}, 'e': [10, 20, {'f': 30}]}, 'g': 2, 'h': {}, "
                 "'i': 'text', 'j.k': 3, '': {'': 4}, 0: {1: 'ints'}, None: 5}",
                 ('args unchanged', True),
                 ('is mapping', True)),
                ('returns',
                 'dict',
                 "{'a': {'b': {'c': 1, 'd': None}, 'e': [10, 20, {'f': 30}]}, 'g': 2, 'h': {}, "
                 "'i': 'text', 'j.k': 3, '': {'': 4}, 0: {1: 'ints'}, None: 5, 'x': 't'}",
                 ('args unchanged', True),
                 ('is mapping', False)),
                ('returns',
                 'dict',
                 "{'a': {'b': {'c': 1, 'd': None}, 'e': [10, 20, {'f': 30}]}, 'g': 2, 'h': {}, "
                 "'i': 'text', 'j.k': 3, '': {'': 4}, 0: {1: 'ints'}, None: 5, 'x': {'a': {'b': "
                 "{'c': 1, 'd': None}, 'e': [10, 20, {'f': 30}]}, 'g': 2, 'h': {}, 'i': 'text', "
                 "'j.k': 3, '': {'': 4}, 0: {1: 'ints'}, None: 5}}",
                 ('args unchanged', True),
                 ('is mapping', False)),
                ('returns',
                 'dict',
                 "{'q': 1, 'x': {'q': 1}}",
                 ('args unchanged', True),
                 ('is mapping', False)),
                ('returns',
                 'dict',
                 "{'a': {'b': {'c': 1, 'd': None}, 'e': [10, 20, {'f': 30}]}, 'g': 2, 'h': {}, "
                 "'i': 'text', 'j.k': 3, '': {'': 4}, 0: {1: 'ints'}, None: 5, 'x': 2}",
                 ('args unchanged', True),
                 ('is mapping', False)),
                ('returns',
                 'dict',
                 "{'a': {'b': 7}, 'x': 7}",
                 ('args unchanged', True),
                 ('is mapping', False)),
                ('returns',
                 'dict',
                 "{'a': {'b': {'c': 1, 'd': None}, 'e': [10, 20, {'f': 30}]}, 'g': 2, 'h': {}, "
                 "'i': 'text', 'j.k': 3, '': {'': 4}, 0: {1: 'ints'}, None: 5, 'x': {'y': 2}}",
                 ('args unchanged', True),
                 ('is mapping', False)),
                ('returns',
                 'dict',
                 "{'a': {'b': {'c': 1, 'd': None}, 'e': [10, 20, {'f': 30}]}, 'g': 2, 'h': {}, "
                 "'i': 'text', 'j.k': 3, '': {'': 4}, 0: {1: 'ints'}, None: 5, 'x': {'': 4}}",
                 ('args unchanged', True),
                 ('is mapping', False)),
                ('returns',
                 'dict',
                 "{'a': {'b': {'c': 1, 'd': None}, 'e': [10, 20, {'f': 30}]}, 'g': 2, 'h': {}, "
                 "'i': 'text', 'j.k': 3, '': {'': 4}, 0: {1: 'ints'}, None: 5, 'x': 4}",
                 ('args unchanged', True),
                 ('is mapping', False)),
                ('returns',
                 'dict',
                 "{'a': {'b': {'c': 1, 'd': None}, 'e': [10, 20, {'f': 30}]}, 'g': 2, 'h': {}, "
                 "'i': 'text', 'j.k': 3, '': {'': 4}, 0: {1: 'ints'}, None: 5, 'x': 'ints'}",
                 ('args unchanged', True),
                 ('is mapping', False)),
                ('returns',
                 'dict',
                 "{'a': {'b': {'c': 1, 'd': None}, 'e': [10, 20, {'f': 30}]}, 'g': 2, 'h': {}, "
                 "'i': 'text', 'j.k': 3, '': {'': 4}, 0: {1: 'ints'}, None: 5, 'x': 5}",
                 ('args unchanged', True),
                 ('is mapping', False)),
                ('returns',
                 'dict',
                 "{'a': {'b': {'c': 1, 'd': None}, 'e': [10, 20, {'f': 30}]}, 'g': 2, 'h': {}, "
                 "'i': 'text', 'j.k': 3, '': {'': 4}, 0: {1: 'ints'}, None: 5}",
                 ('args unchanged', True),
                 ('is mapping', True)),
                ('raises',
                 'TypeError',
                 '"\'int\' object is not iterable"',
                 None,
                 False,
                 ('args unchanged', True)),
                ('raises', 'StopIteration', "''", None, False, ('args unchanged', True)),
                ('raises',
                 'TypeError',
                 '"\'int\' object is not iterable"',
                 None,
                 False,
                 ('args unchanged', True)),
                ('returns',
                 'dict',
                 "{'a': {'b': {'c': 1, 'd': None}, 'e': [10, 20, {'f': 30}]}, 'g': 2, 'h': {}, "
                 "'i': 'text', 'j.k': 3, '': {'': 4}, 0: {1: 'ints'}, None: 5}",
                 ('args unchanged', True),
                 ('is mapping', True)),
                ('returns',
                 'dict',
                 "{'a': {'b': {'c': 1, 'd': None}, 'e': [10, 20, {'f': 30}]}, 'g': 2, 'h': {}, "
                 "'i': 'text', 'j.k': 3, '': {'': 4}, 0: {1: 'ints'}, None: 5}",
                 ('args unchanged', True),
                 ('is mapping', True)),
                ('raises',
                 'TypeError',
                 '"\'int\' object is not iterable"',
                 None,
                 False,
                 ('args unchanged', True)),
                ('returns', 'list', '[1, 2]', ('args unchanged', True), ('is mapping', True)),
                ('raises',
                 'TypeError',
                 "'cannot convert dictionary update sequence element #0 to a sequence'",
                 None,
                 False,
                 ('args unchanged', True)),
                ('returns', 'NoneType', 'None', ('args unchanged', True), ('is mapping', True)),
                ('raises',
                 'AttributeError',
                 '"\'list\' object has no attribute \'items\'"',
                 None,
                 False,
                 ('args unchanged', True)),
                ('raises',
                 'AttributeError',
                 '"\'NoneType\' object has no attribute \'items\'"',
                 None,
                 False,
                 ('args unchanged', True)),
                ('returns',
                 'dict',
                 "{<object object at 0x...>: 1, 'x': 1}",
                 ('args unchanged', True),
                 ('is mapping', False)),
                ('returns',
                 'dict',
                 "{'s': <object object at 0x...>}",
                 ('args unchanged', True),
                 ('is mapping', True))],
 'key_exists': [('returns', 'bool', 'True', ('args unchanged', True), ('is mapping', False)),
                ('returns', 'bool', 'False', ('args unchanged', True), ('is mapping', False)),
                ('returns', 'bool', 'True', ('args unchanged', True), ('is mapping', False)),
                ('returns', 'bool', 'True', ('args unchanged', True), ('is mapping', False)),
                ('returns', 'bool', 'True', ('args unchanged', True), ('is mapping', False)),
                ('returns', 'bool', 'False', ('args unchanged', True), ('is mapping', False)),
                ('returns', 'bool', 'False', ('args unchanged', True), ('is mapping', False)),
                ('returns', 'bool', 'False', ('args unchanged', True), ('is mapping', False)),
                ('returns', 'bool', 'False', ('args unchanged', True), ('is mapping', False)),
                ('returns', 'bool', 'True', ('args unchanged', True), ('is mapping', False)),
                ('returns', 'bool', 'True', ('args unchanged', True), ('is mapping', False)),
                ('returns', 'bool', 'False', ('args unchanged', True), ('is mapping', False)),
                ('returns', 'bool', 'False', ('args unchanged', True), ('is mapping', False)),
                ('returns', 'bool', 'False', ('args unchanged', True), ('is mapping', False)),
                ('returns', 'bool', 'False', ('args unchanged', True), ('is mapping', False)),
                ('returns', 'bool', 'True', ('args unchanged', True), ('is mapping', False)),
                ('returns', 'bool', 'True', ('args unchanged', True), ('is mapping', False)),
                ('returns', 'bool', 'False', ('args unchanged', True), ('is mapping', False)),
                ('returns', 'bool', 'True', ('args unchanged', True), ('is mapping', False)),
                ('returns', 'bool', 'True', ('args unchanged', True), ('is mapping', False)),
                ('raises',
                 'AttributeError',
                 '"\'list\' object has no attribute \'split\'"',
                 None,
                 False,
                 ('args unchanged', True)),
                ('raises',
                 'AttributeError',
                 '"\'list\' object has no attribute \'split\'"',
                 None,
                 False,
                 ('args unchanged', True)),
                ('returns', 'bool', 'False', ('args unchanged', True), ('is mapping', False)),
                ('raises',
                 'AttributeError',
                 '"\'tuple\' object has no attribute \'split\'"',
                 None,
                 False,
                 ('args unchanged', True)),
                ('returns', 'bool', 'True', ('args unchanged', True), ('is mapping', False)),
                ('raises',
                 'TypeError',
                 '"argument of type \'int\' is not iterable"',
                 None,
                 False,
                 ('args unchanged', True)),
                ('raises',
                 'TypeError',
                 '"argument of type \'NoneType\' is not iterable"',
                 None,
                 False,
                 ('args unchanged', True)),
                ('raises',
                 'TypeError',
                 '"argument of type \'float\' is not iterable"',
                 None,
                 False,
                 ('args unchanged', True)),
                ('raises',
                 'TypeError',
                 '"a bytes-like object is required, not \'str\'"',
                 None,
                 False,
                 ('args unchanged', True)),
                ('raises',
                 'AttributeError',
                 '"\'frozenset\' object has no attribute \'split\'"',
                 None,
                 False,
                 ('args unchanged', True)),
                ('returns', 'bool', 'True', ('args unchanged', True), ('is mapping', False)),
                ('returns', 'bool', 'False', ('args unchanged', True), ('is mapping', False)),
                ('raises',
                 'AttributeError',
                 '"\'dict\' object has no attribute \'split\'"',
                 None,
                 False,
                 ('args unchanged', True)),
                ('returns', 'bool', 'False', ('args unchanged', True), ('is mapping', False)),
                ('returns', 'bool', 'False', ('args unchanged', True), ('is mapping', False)),
                ('returns', 'bool', 'False', ('args unchanged', True), ('is mapping', False)),
                ('returns', 'bool', 'True', ('args unchanged', True), ('is mapping', False)),
                ('returns', 'bool', 'False', ('args unchanged', True), ('is mapping', False)),
                ('returns', 'bool', 'False', ('args unchanged', True), ('is mapping', False)),
                ('returns', 'bool', 'True', ('args unchanged', True), ('is mapping', False)),
                ('returns', 'bool', 'True', ('args unchanged', True), ('is mapping', False))],
 'logged': [('copy_items',
             "{'b': {'c': 1, 'd': 2}, 'g': 3, 'x': 1, 'z': {'w': 3}}",
             'dict',
             [('instructions', 'items'),
              ('instructions', 'next item', ('x',)),
              ('outer', 'getitem', 'b'),
              ('inner', 'getitem', 'c'),
              ('instructions', 'next item', ('y',)),
              ('outer', 'getitem', 'nope'),
              ('instructions', 'next item', ('z', 'w')),
              ('outer', 'getitem', 'g'),
              ('instructions', 'next item', ('v',)),
              ('outer', 'getitem', 'b'),
              ('inner', 'getitem', 'e')]),
            ('move_items',
             "{'b': {'d': 2}, 'x': 1, 'z': {'w': 3}}",
             'dict',
             [('instructions', 'items'),
              ('instructions', 'next item', ('x',)),
              ('outer', 'getitem', 'b'),
              ('inner', 'getitem', 'c'),
              ('instructions', 'next item', ('y',)),
              ('outer', 'getitem', 'nope'),
              ('instructions', 'next item', ('z', 'w')),
              ('outer', 'getitem', 'g'),
              ('instructions', 'next item', ('v',)),
              ('outer', 'getitem', 'b'),
              ('inner', 'getitem', 'e'),
              ('inner', 'deepcopy'),
              ('instructions', 'values'),
              ('instructions', 'next value', ['b', 'c']),
              ("inner'", 'pop', ('c', None)),
              ('instructions', 'next value', ['nope', 'c']),
              ('instructions', 'next value', ['g']),
              ('instructions', 'next value', ['b', 'e']),
              ("inner'", 'pop', ('e', None))])],
 'move_items': [('returns', 'dict', '{}', ('args unchanged', True), ('is mapping', False)),
                ('returns',
                 'dict',
                 "{'a': {'b': {'c': 1, 'd': None}, 'e': [10, 20, {'f': 30}]}, 'g': 2, 'h': {}, "
                 "'i': 'text', 'j.k': 3, '': {'': 4}, 0: {1: 'ints'}, None: 5}",
                 ('args unchanged', True),
                 ('is mapping', False)),
                ('returns',
                 'dict',
                 "{'a': {'b': {'c': 1, 'd': None}, 'e': [10, 20, {'f': 30}]}, 'h': {}, 'i': "
                 "'text', 'j.k': 3, '': {'': 4}, 0: {1: 'ints'}, None: 5, 'x': 2}",
                 ('args unchanged', True),
                 ('is mapping', False)),
                ('returns',
                 'dict',
                 "{'a': {'b': {'c': 1, 'd': None}, 'e': [10, 20, {'f': 30}]}, 'h': {}, 'i': "
                 "'text', 'j.k': 3, '': {'': 4}, 0: {1: 'ints'}, None: 5, 'x': {'y': 2}}",
                 ('args unchanged', True),
                 ('is mapping', False)),
                ('returns',
                 'dict',
                 "{'a': {'b': {'c': 2, 'd': None}, 'e': [10, 20, {'f': 30}]}, 'h': {}, 'i': "
                 "'text', 'j.k': 3, '': {'': 4}, 0: {1: 'ints'}, None: 5}",
                 ('args unchanged', True),
                 ('is mapping', False)),
                ('returns',
                 'dict',
                 "{'a': {'e': [10, 20, {'f': 30}]}, 'g': {'c': 1, 'd': None}, 'h': {}, 'i': "
                 "'text', 'j.k': 3, '': {'': 4}, 0: {1: 'ints'}, None: 5}",
                 ('args unchanged', True),
                 ('is mapping', False)),
                ('returns',
                 'dict',
                 "{'a': {'b': {'c': 1, 'd': None}, 'e': [10, 20, {'f': 30}]}, 'g': 2, 'h': {}, "
                 "'i': 'text', 'j.k': 3, '': {'': 4}, 0: {1: 'ints'}, None: 5}",
                 ('args unchanged', True),
                 ('is mapping', False)),
                ('returns',
                 'dict',
                 "{'a': {'b': {'d': None}, 'e': [10, 20, {'f': 30}]}, 'g': 2, 'h': {}, 'i': "
                 "'text', 'j.k': 3, '': {'': 4}, 0: {1: 'ints'}, None: 5, 'y': 1}",
                 ('args unchanged', True),
                 ('is mapping', False)),
                ('returns',
                 'dict',
                 "{'a': {'b': {'d': None}, 'e': [10, 20, {'f': 30}]}, 'g': 2, 'h': {}, 'i': "
                 "'text', 'j.k': 3, '': {'': 4}, 0: {1: 'ints'}, None: 5}",
                 ('args unchanged', True),
                 ('is mapping', False)),
                ('returns',
                 'dict',
                 "{'a': {'b': {'d': None}, 'e': [10, 20, {'f': 30}]}, 'g': 2, 'h': {}, 'i': "
                 "'text', 'j.k': 3, '': {'': 4}, 0: {1: 'ints'}, None: 5}",
                 ('args unchanged', True),
                 ('is mapping', False)),
                ('returns',
                 'dict',
                 "{'a': {'b': {'c': 1}, 'e': [10, 20, {'f': 30}]}, 'g': 2, 'h': {}, 'i': 'text', "
                 "'j.k': 3, '': {'': 4}, 0: {1: 'ints'}, None: 5, 'x': None}",
                 ('args unchanged', True),
                 ('is mapping', False)),
                ('raises',
                 'TypeError',
                 "'pop expected at most 1 argument, got 2'",
                 None,
                 False,
                 ('args unchanged', True)),
                ('raises',
                 'TypeError',
                 "'pop expected at most 1 argument, got 2'",
                 None,
                 False,
                 ('args unchanged', True)),
                ('raises',
                 'TypeError',
                 "'pop expected at most 1 argument, got 2'",
                 None,
                 False,
                 ('args unchanged', True)),
                ('returns',
                 'dict',
                 "{'a': {'b': {'c': 1, 'd': None}, 'e': [10, 20, {}]}, 'g': 2, 'h': {}, 'i': "
                 "'text', 'j.k': 3, '': {'': 4}, 0: {1: 'ints'}, None: 5, 'x': 30}",
                 ('args unchanged', True),
                 ('is mapping', False)),
                ('raises',
                 'AttributeError',
                 '"\'int\' object has no attribute \'pop\'"',
                 None,
                 False,
                 ('args unchanged', True)),
                ('raises',
                 'AttributeError',
                 '"\'str\' object has no attribute \'pop\'"',
                 None,
                 False,
                 ('args unchanged', True)),
                ('raises',
                 'ValueError',
                 "'not enough values to unpack (expected at least 1, got 0)'",
                 None,
                 False,
                 ('args unchanged', True)),
                ('raises',
                 'ValueError',
                 "'not enough values to unpack (expected at least 1, got 0)'",
                 None,
                 False,
                 ('args unchanged', True)),
                ('returns',
                 'dict',
                 "{'a': {'b': {'c': 1, 'd': None}, 'e': [10, 20, {'f': 30}]}, 'h': {}, 'i': "
                 "'text', 'j.k': 3, '': {'': 4}, 0: {1: 'ints'}, None: 5, 'x': 2}",
                 ('args unchanged', True),
                 ('is mapping', False)),
                ('returns',
                 'dict',
                 "{'a': {}, 'x': 7}",
                 ('args unchanged', True),
                 ('is mapping', False)),
                ('returns',
                 'dict',
                 "{'a': {'b': {'c': 1, 'd': None}, 'e': [10, 20, {'f': 30}]}, 'h': {}, 'i': "
                 "'text', 'j.k': 3, '': {'': 4}, 0: {1: 'ints'}, None: 5, 'x': {'y': 2}}",
                 ('args unchanged', True),
                 ('is mapping', False)),
                ('returns',
                 'dict',
                 "{'a': {'b': {'c': 1, 'd': None}, 'e': [10, 20, {'f': 30}]}, 'g': 2, 'h': {}, "
                 "'i': 'text', 'j.k': 3, 0: {1: 'ints'}, None: 5, 'x': {'': 4}}",
                 ('args unchanged', True),
                 ('is mapping', False)),
                ('returns',
                 'dict',
                 "{'a': {'b': {'c': 1, 'd': None}, 'e': [10, 20, {'f': 30}]}, 'g': 2, 'h': {}, "
                 "'i': 'text', 'j.k': 3, '': {}, 0: {1: 'ints'}, None: 5, 'x': 4}",
                 ('args unchanged', True),
                 ('is mapping', False)),
                ('returns',
                 'dict',
                 "{'a': {'b': {'c': 1, 'd': None}, 'e': [10, 20, {'f': 30}]}, 'g': 2, 'h': {}, "
                 "'i': 'text', 'j.k': 3, '': {'': 4}, 0: {}, None: 5, 'x': 'ints'}",
                 ('args unchanged', True),
                 ('is mapping', False)),
                ('returns',
                 'dict',
                 "{'a': {'b': {'c': 1, 'd': None}, 'e': [10, 20, {'f': 30}]}, 'g': 2, 'h': {}, "
                 "'i': 'text', 'j.k': 3, '': {'': 4}, 0: {1: 'ints'}, 'x': 5}",
                 ('args unchanged', True),
                 ('is mapping', False)),
                ('raises',
                 'TypeError',
                 '"unhashable type: \'list\'"',
                 None,
                 False,
                 ('args unchanged', True)),
                ('raises',
                 'TypeError',
                 '"\'int\' object is not iterable"',
                 None,
                 False,
                 ('args unchanged', True)),
                ('raises', 'StopIteration', "''", None, False, ('args unchanged', True)),
                ('raises',
                 'TypeError',
                 '"\'int\' object is not iterable"',
                 None,
                 False,
                 ('args unchanged', True)),
                ('raises',
                 'TypeError',
                 "'cannot unpack non-iterable int object'",
                 None,
                 False,
                 ('args unchanged', True)),
                ('raises',
                 'TypeError',
                 "'cannot unpack non-iterable NoneType object'",
                 None,
                 False,
                 ('args unchanged', True)),
                ('raises',
                 'TypeError',
                 '"\'int\' object is not iterable"',
                 None,
                 False,
                 ('args unchanged', True)),
                ('raises',
                 'TypeError',
                 "'pop expected at most 1 argument, got 2'",
                 None,
                 False,
                 ('args unchanged', True)),
                ('raises',
                 'TypeError',
                 "'cannot convert dictionary update sequence element #0 to a sequence'",
                 None,
                 False,
                 ('args unchanged', True)),
                ('raises',
                 'AttributeError',
                 '"\'NoneType\' object has no attribute \'pop\'"',
                 None,
                 False,
                 ('args unchanged', True)),
                ('raises',
                 'AttributeError',
                 '"\'list\' object has no attribute \'items\'"',
                 None,
                 False,
                 ('args unchanged', True)),
                ('raises',
                 'AttributeError',
                 '"\'NoneType\' object has no attribute \'items\'"',
                 None,
                 False,
                 ('args unchanged', True)),
                ('returns',
                 'dict',
                 "{<object object at 0x...>: 1, 'x': 1}",
                 ('args unchanged', True),
                 ('is mapping', False)),
                ('returns', 'dict', '{}', ('args unchanged', True), ('is mapping', False)),
                ('returns',
                 'dict',
                 "{'a': {'b': {}, 'e': [10, 20, {'f': 30}]}, 'g': 2, 'h': {}, 'i': 'text', 'j.k': "
                 "3, '': {'': 4}, 0: {1: 'ints'}, None: 5, 'x': 1, 'y': None}",
                 ('args unchanged', True),
                 ('is mapping', False)),
                ('returns',
                 'dict',
                 "{'a': {'e': [10, 20, {'f': 30}]}, 'g': 2, 'h': {}, 'i': 'text', 'j.k': 3, '': "
                 "{'': 4}, 0: {1: 'ints'}, None: 5, 'x': {'c': 1, 'd': None}, 'y': 1}",
                 ('args unchanged', True),
                 ('is mapping', False)),
                ('returns',
                 'dict',
                 "{'a': {'b': {'d': None}, 'e': [10, 20, {'f': 30}]}, 'g': 2, 'h': {}, 'i': "
                 "'text', 'j.k': 3, '': {'': 4}, 0: {1: 'ints'}, None: 5}",
                 ('args unchanged', True),
                 ('is mapping', False)),
                ('raises',
                 'AttributeError',
                 '"\'int\' object has no attribute \'pop\'"',
                 None,
                 False,
                 ('args unchanged', True)),
                ('raises',
                 'TypeError',
                 "'pop expected at most 1 argument, got 2'",
                 None,
                 False,
                 ('args unchanged', True)),
                ('raises',
                 'AttributeError',
                 '"\'str\' object has no attribute \'pop\'"',
                 None,
                 False,
                 ('args unchanged', True)),
                ('returns',
                 'dict',
                 "{'a': {'b': {'c': 1, 'd': None}, 'e': [10, 20, {'f': 30}]}, 'g': 2, 'h': {}, "
                 "'i': 'text', 'j.k': 3, '': {'': 4}, 0: {1: 'ints'}, None: 5}",
                 ('args unchanged', True),
                 ('is mapping', False)),
                ('returns',
                 'dict',
                 "{'a': {'b': {'c': 1, 'd': None}, 'e': [10, 20, {'f': 30}]}, 'g': 2, 'h': {}, "
                 "'i': 'text', 'j.k': 3, '': {'': 4}, 0: {1: 'ints'}, None: 5}",
                 ('args unchanged', True),
                 ('is mapping', False)),
                ('returns',
                 'dict',
                 "{'a': {'b': {'c': 1, 'd': None}, 'e': [10, 20, {'f': 30}]}, 'h': {}, 'i': "
                 "'text', 'j.k': 3, '': {'': 4}, 0: {1: 'ints'}, None: 5, 'x': 2, 'y': 2}",
                 ('args unchanged', True),
                 ('is mapping', False)),
                ('returns',
                 'dict',
                 "{'a': {'b': {'c': 1, 'd': None}, 'e': [10, 20, {'f': 30}]}, 'g': 2, 'i': 'text', "
                 "'j.k': 3, '': {'': 4}, 0: {1: 'ints'}, None: 5, 'x': {}}",
                 ('args unchanged', True),
                 ('is mapping', False)),
                ('returns',
                 'dict',
                 "{'g': 2, 'h': {}, 'i': 'text', 'j.k': 3, '': {'': 4}, 0: {1: 'ints'}, None: 5, "
                 "'x': {'y': {'z': {'b': {'c': 1, 'd': None}, 'e': [10, 20, {'f': 30}]}}}}",
                 ('args unchanged', True),
                 ('is mapping', False))]}


def test_equivalence():
    actual = run()
    assert sorted(actual) == sorted(EXPECTED)
    cases = {"copy_items": COPY_CASES, "move_items": MOVE_CASES, "key_exists": KEY_CASES}
    for name, inputs in cases.items():
        assert len(actual[name]) == len(EXPECTED[name]) == len(inputs)
        for case, got, want in zip(inputs, actual[name], EXPECTED[name]):
            assert got == want, f"{name}{case!r}: {got!r} != {want!r}"
    assert actual["logged"] == EXPECTED["logged"]


def test_move_items_never_shares_state_with_the_input():
    mapping = nested()
    moved = move_items({("x",): ["a", "b"]}, mapping)
    assert moved["x"] == {"c": 1, "d": None}
    assert moved["x"] is not mapping["a"]["b"]
    assert "b" not in moved["a"] and "b" in mapping["a"]
    assert moved["a"]["e"] is not mapping["a"]["e"]


def test_copy_items_shares_untouched_parts():
    mapping = nested()
    copied = copy_items({("x",): ["a", "b"]}, mapping)
    assert copied is not mapping
    assert copied["x"] is mapping["a"]["b"]
    assert copied["a"] is mapping["a"]
    assert "x" not in mapping


def test_public_names():
    names = (
        "sentinel itemsplit valsplit keysplit assoc dissoc zip_default apply_to_items"
        " copy_items move_items key_exists assoc_ assoc_in get_in keyfilter passthrough"
        " concat groupby unique copy"
    )
    for name in names.split():
        assert hasattr(dicttoolz, name), name
    assert type(dicttoolz.sentinel) is object


if __name__ == "__main__":
    if "--record" in sys.argv:
        pprint.pprint(run(), width=100)
        sys.exit(0)
    test_equivalence()
    test_move_items_never_shares_state_with_the_input()
    test_copy_items_shares_untouched_parts()
    test_public_names()
    print(f"ok: {len(COPY_CASES)} + {len(MOVE_CASES)} + {len(KEY_CASES)} cases")
