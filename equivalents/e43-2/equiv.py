"""Equivalence check for refactoring 2 (caching/encoders.py: encode_group,
encode_hierarchy, preprocess).

Run: cd /tmp/wt6/e43 && PYTHONPATH=/tmp/wt6/e43 /venv/bin/python _eq/2/equiv.py
The expectations in EXPECTED were recorded from the unchanged code (HEAD); the
script must pass both with and without patch.diff applied.
"""
import collections
import json
import pathlib
import sys
import warnings

import numpy as np

warnings.simplefilter("ignore")


def canon(obj):
    """Deterministic, type-aware description of a result."""
    from ceos_alos2.array import Array
    from ceos_alos2.hierarchy import Group, Variable

    if isinstance(obj, Group):
        return [
            "Group",
            canon(obj.path),
            canon(obj.url),
            canon(obj.attrs),
            [type(obj.data).__name__, [[canon(k), canon(v)] for k, v in obj.data.items()]],
        ]
    if isinstance(obj, Variable):
        return ["Variable", canon(obj.dims), canon(obj.data), canon(obj.attrs)]
    if isinstance(obj, Array):
        return [
            "Array",
            type(obj.fs).__name__,
            canon(getattr(obj.fs, "path", None)),
            type(getattr(obj.fs, "fs", None)).__name__,
            canon(obj.url),
            canon(obj.byte_ranges),
            canon(obj.shape),
            canon(obj.dtype),
            canon(obj.type_code),
            canon(obj.records_per_chunk),
            canon(obj.chunk_offsets),
        ]
    if isinstance(obj, np.ndarray):
        flat = obj.ravel()
        if obj.dtype.kind in "mM":
            items = [[str(v), int(v.astype("int64"))] for v in flat]
        else:
            items = [canon(v) for v in flat.tolist()]
        return ["ndarray", str(obj.dtype), list(obj.shape), items]
    if isinstance(obj, np.generic):
        return [type(obj).__name__, str(obj)]
    if isinstance(obj, dict):
        return [type(obj).__name__, [[canon(k), canon(v)] for k, v in obj.items()]]
    if isinstance(obj, (list, tuple)):
        return [type(obj).__name__, [canon(v) for v in obj]]
    if isinstance(obj, pathlib.PurePath):
        return [type(obj).__name__, str(obj)]
    if isinstance(obj, BaseException):
        return ["exc", type(obj).__name__, str(obj)]
    if obj is None or isinstance(obj, (bool, int, float, str, bytes)):
        return [type(obj).__name__, repr(obj)]
    return ["other", type(obj).__name__, repr(obj)]


def outcome(thunk):
    try:
        result = thunk()
    except BaseException as e:  # noqa: B902
        chain = []
        cur = e
        while cur is not None:
            chain.append([type(cur).__name__, str(cur)])
            cur = cur.__cause__
        return ["raised", chain]
    return ["returned", canon(result)]


def main(cases, expected_text):
    actual = {name: outcome(thunk) for name, thunk in cases().items()}
    if "--record" in sys.argv:
        lines = [f" {json.dumps(name)}: {json.dumps(actual[name])}" for name in sorted(actual)]
        print("{\n" + ",\n".join(lines) + "\n}")
        return
    expected = json.loads(expected_text)
    assert sorted(actual) == sorted(expected), (sorted(actual), sorted(expected))
    failures = [name for name in actual if json.loads(json.dumps(actual[name])) != expected[name]]
    for name in failures:
        print("MISMATCH", name, "\n  expected:", expected[name], "\n  actual:  ", actual[name])
    assert not failures, failures
    print(f"OK: {len(actual)} cases identical to the recorded behaviour")


def make_array(shape=(4, 3), dtype="int16", type_code="IU2", rpc=2, root="/path/to", url="file"):
    from fsspec.implementations.dirfs import DirFileSystem
    from fsspec.implementations.local import LocalFileSystem

    from ceos_alos2.array import Array

    fs = DirFileSystem(fs=LocalFileSystem(), path=root)
    byte_ranges = [(x * 10 + 5, (x + 1) * 10) for x in range(shape[0])]
    return Array(
        fs=fs,
        url=url,
        byte_ranges=byte_ranges,
        shape=shape,
        dtype=dtype,
        type_code=type_code,
        records_per_chunk=rpc,
    )


Point = collections.namedtuple("Point", ["x", "y"])


class MyDict(dict):
    pass


class MyList(list):
    pass


class Opaque:
    def __repr__(self):
        return "Opaque()"


def cases():
    from ceos_alos2.hierarchy import Group, Variable
    from ceos_alos2.sar_image import caching
    from ceos_alos2.sar_image.caching import encoders as enc

    def var(data=None, dims="x", attrs=None):
        if data is None:
            data = np.array([1, 2, 3], dtype="int8")
        return Variable(dims, data, attrs if attrs is not None else {})

    def tree():
        return Group(
            path=None,
            url="s3://bucket/scene",
            data={
                "b": var(attrs={"units": "m", "range": (0, 1)}),
                "a": var(np.array(["2020-01-01", "2020-01-02"], dtype="datetime64[s]"), "t"),
                "imagery": Group(
                    path="ignored",
                    url=None,
                    data={
                        "data": Variable(["rows", "cols"], make_array(), {"pol": "HH"}),
                        "dt": var(np.array([0, 5], dtype="timedelta64[ms]"), ["rows"]),
                        "deeper": Group(path=None, url="other", data={}, attrs={"n": (1, (2, 3))}),
                    },
                    attrs={"k": [1, (2, 3), {"z": (4,)}]},
                ),
                "z": var(np.arange(4.0).reshape(2, 2), ["p", "q"], {"a": None}),
            },
            attrs={"title": "scene", "shape": (2, 3), "nested": {"t": (1, 2), "l": [(), [()]]}},
        )

    c = {}

    # encode_group
    c["group-empty"] = lambda: enc.encode_group(Group(path=None, url=None, data={}, attrs={}))
    c["group-empty-path"] = lambda: enc.encode_group(
        Group(path="/a/b", url="u", data={}, attrs={"x": 1})
    )
    c["group-vars-only"] = lambda: enc.encode_group(
        Group(path="p", url="u", data={"y": var(), "x": var(dims=["x"])}, attrs={})
    )
    c["group-tree"] = lambda: enc.encode_group(tree())
    c["group-subtree"] = lambda: enc.encode_group(tree()["imagery"])
    c["group-order"] = lambda: [
        list(enc.encode_group(tree())),
        list(enc.encode_group(tree())["data"]),
        list(enc.encode_group(tree())["data"]["imagery"]["data"]),
    ]

    def group_with_foreign_entry(value):
        g = Group(path=None, url="u", data={"v": var()}, attrs={})
        g.data["odd"] = value
        return enc.encode_group(g)

    c["group-entry-int"] = lambda: group_with_foreign_entry(1)
    c["group-entry-none"] = lambda: group_with_foreign_entry(None)
    c["group-entry-dict"] = lambda: group_with_foreign_entry({"__type__": "variable"})
    c["group-entry-ndarray"] = lambda: group_with_foreign_entry(np.array([1, 2]))
    c["group-entry-opaque"] = lambda: group_with_foreign_entry(Opaque())

    def group_with_odd_data(data):
        g = Group(path=None, url="u", data={}, attrs={})
        g.data = data
        return enc.encode_group(g)

    c["group-data-list"] = lambda: group_with_odd_data([var()])
    c["group-data-none"] = lambda: group_with_odd_data(None)
    c["group-data-ordered"] = lambda: group_with_odd_data(
        collections.OrderedDict([("q", var()), ("p", var(dims="y"))])
    )
    c["group-on-variable"] = lambda: enc.encode_group(var())
    c["group-on-none"] = lambda: enc.encode_group(None)
    c["group-on-dict"] = lambda: enc.encode_group({"data": {}})
    c["group-on-int"] = lambda: enc.encode_group(3)

    # encode_hierarchy
    c["hierarchy-group"] = lambda: enc.encode_hierarchy(tree())
    c["hierarchy-variable"] = lambda: enc.encode_hierarchy(var(attrs={"a": (1, 2)}))
    c["hierarchy-backend-variable"] = lambda: enc.encode_hierarchy(
        Variable(["r", "c"], make_array(shape=(2, 2), dtype="complex64", type_code="C*8"), {})
    )
    for name, value in {
        "int": 1,
        "str": "abc",
        "none": None,
        "dict": {"a": (1, 2)},
        "list": [1, (2,)],
        "tuple": (1, 2),
        "ndarray": np.array([1, 2]),
        "opaque": Opaque(),
    }.items():
        c[f"hierarchy-passthrough-{name}"] = lambda value=value: enc.encode_hierarchy(value)

    def passthrough_identity():
        o = Opaque()
        d = {"a": 1}
        return [enc.encode_hierarchy(o) is o, enc.encode_hierarchy(d) is d]

    c["hierarchy-passthrough-identity"] = passthrough_identity

    # preprocess
    values = {
        "scalar-int": 1,
        "scalar-float": 1.5,
        "scalar-str": "abc",
        "scalar-none": None,
        "scalar-bool": True,
        "scalar-bytes": b"ab",
        "empty-dict": {},
        "empty-list": [],
        "empty-tuple": (),
        "flat-dict": {"b": 1, "a": "x"},
        "flat-list": [1, "a", None],
        "flat-tuple": (1, "a", None),
        "tuple-in-dict": {"a": (1, 2), "b": {"c": (3, (4, 5))}},
        "tuple-in-list": [(1, 2), [(), (3,)]],
        "list-in-tuple": ([1, 2], {"k": (1,)}, ((), [()])),
        "dict-in-tuple": ({"a": 1}, {"b": (2,)}),
        "non-str-keys": {1: (1,), (1, 2): "tuple-key", None: [()]},
        "type-key-clash": {"__type__": "tuple", "data": (1, 2)},
        "namedtuple": Point(1, (2, 3)),
        "dict-subclass": MyDict(a=(1,), b=MyDict()),
        "list-subclass": MyList([(1,), MyList()]),
        "ordered-dict": collections.OrderedDict([("z", (1,)), ("a", [2])]),
        "defaultdict": collections.defaultdict(list, {"k": (1, 2)}),
        "counter": collections.Counter("aab"),
        "set": {1},
        "frozenset": frozenset([1]),
        "ndarray": np.array([1, 2]),
        "ndarray-in-list": [np.array([1, 2]), (np.float32(1.5),)],
        "generator-free-range": range(3),
        "opaque": Opaque(),
        "deep": [[[[((((1,),),),)]]]],
    }
    for name, value in values.items():
        c[f"preprocess-{name}"] = lambda value=value: enc.preprocess(value)

    def preprocess_does_not_mutate():
        data = {"a": (1, [2, (3,)]), "b": [(), {}]}
        before = repr(data)
        result = enc.preprocess(data)
        return [repr(data) == before, result is data, result["b"] is data["b"], result]

    c["preprocess-no-mutation"] = preprocess_does_not_mutate

    def preprocess_leaf_identity():
        leaf = Opaque()
        out = enc.preprocess({"a": [leaf, (leaf,)]})
        return [out["a"][0] is leaf, out["a"][1]["data"][0] is leaf]

    c["preprocess-leaf-identity"] = preprocess_leaf_identity

    c["preprocess-mixed"] = lambda: enc.preprocess([1, (2,), 3])

    # end to end through the public entry point
    c["encode-tree"] = lambda: caching.encode(tree())
    c["encode-variable"] = lambda: caching.encode(var(attrs={"t": (1, (2,))}))
    c["encode-plain"] = lambda: caching.encode({"a": (1, 2)})
    c["encode-roundtrip"] = lambda: caching.decode(caching.encode(tree()), records_per_chunk=3)
    c["preprocess-encoded-tree"] = lambda: enc.preprocess(enc.encode_hierarchy(tree()))

    return c


EXPECTED = r'''
{
 "encode-plain": ["returned", ["str", "'{\"a\": {\"__type__\": \"tuple\", \"data\": [1, 2]}}'"]],
 "encode-roundtrip": ["returned", ["Group", ["str", "'/'"], ["str", "'s3://bucket/scene'"], ["dict", [[["str", "'title'"], ["str", "'scene'"]], [["str", "'shape'"], ["tuple", [["int", "2"], ["int", "3"]]]], [["str", "'nested'"], ["dict", [[["str", "'t'"], ["tuple", [["int", "1"], ["int", "2"]]]], [["str", "'l'"], ["list", [["tuple", []], ["list", [["tuple", []]]]]]]]]]]], ["dict", [[["str", "'b'"], ["Variable", ["list", [["str", "'x'"]]], ["ndarray", "int8", [3], [["int", "1"], ["int", "2"], ["int", "3"]]], ["dict", [[["str", "'units'"], ["str", "'m'"]], [["str", "'range'"], ["tuple", [["int", "0"], ["int", "1"]]]]]]]], [["str", "'a'"], ["Variable", ["list", [["str", "'t'"]]], ["ndarray", "datetime64[s]", [2], [["2020-01-01T00:00:00", 1577836800], ["2020-01-02T00:00:00", 1577923200]]], ["dict", []]]], [["str", "'imagery'"], ["Group", ["str", "'/imagery'"], ["str", "'s3://bucket/scene'"], ["dict", [[["str", "'k'"], ["list", [["int", "1"], ["tuple", [["int", "2"], ["int", "3"]]], ["dict", [[["str", "'z'"], ["tuple", [["int", "4"]]]]]]]]]]], ["dict", [[["str", "'data'"], ["Variable", ["list", [["str", "'rows'"], ["str", "'cols'"]]], ["Array", "DirFileSystem", ["str", "'/path/to'"], "LocalFileSystem", ["str", "'file'"], ["list", [["tuple", [["int", "5"], ["int", "10"]]], ["tuple", [["int", "15"], ["int", "20"]]], ["tuple", [["int", "25"], ["int", "30"]]], ["tuple", [["int", "35"], ["int", "40"]]]]], ["tuple", [["int", "4"], ["int", "3"]]], ["str", "'int16'"], ["str", "'IU2'"], ["int", "3"], ["dict", [[["int", "0"], ["dict", [[["str", "'offset'"], ["int", "5"]], [["str", "'size'"], ["int", "25"]]]]], [["int", "1"], ["dict", [[["str", "'offset'"], ["int", "35"]], [["str", "'size'"], ["int", "5"]]]]]]]], ["dict", [[["str", "'pol'"], ["str", "'HH'"]]]]]], [["str", "'dt'"], ["Variable", ["list", [["str", "'rows'"]]], ["ndarray", "timedelta64[ms]", [2], [["0 milliseconds", 0], ["5 milliseconds", 5]]], ["dict", []]]], [["str", "'deeper'"], ["Group", ["str", "'/imagery/deeper'"], ["str", "'other'"], ["dict", [[["str", "'n'"], ["tuple", [["int", "1"], ["tuple", [["int", "2"], ["int", "3"]]]]]]]], ["dict", []]]]]]]], [["str", "'z'"], ["Variable", ["list", [["str", "'p'"], ["str", "'q'"]]], ["ndarray", "float64", [2, 2], [["float", "0.0"], ["float", "1.0"], ["float", "2.0"], ["float", "3.0"]]], ["dict", [[["str", "'a'"], ["NoneType", "None"]]]]]]]]]],
 "encode-tree": ["returned", ["str", "'{\"__type__\": \"group\", \"url\": \"s3://bucket/scene\", \"data\": {\"b\": {\"__type__\": \"variable\", \"dims\": [\"x\"], \"data\": {\"__type__\": \"array\", \"dtype\": \"int8\", \"data\": [1, 2, 3], \"encoding\": {}}, \"attrs\": {\"units\": \"m\", \"range\": {\"__type__\": \"tuple\", \"data\": [0, 1]}}}, \"a\": {\"__type__\": \"variable\", \"dims\": [\"t\"], \"data\": {\"__type__\": \"array\", \"dtype\": \"datetime64[s]\", \"data\": [0, 86400], \"encoding\": {\"reference\": \"2020-01-01T00:00:00\", \"units\": \"s\"}}, \"attrs\": {}}, \"imagery\": {\"__type__\": \"group\", \"url\": \"s3://bucket/scene\", \"data\": {\"data\": {\"__type__\": \"variable\", \"dims\": [\"rows\", \"cols\"], \"data\": {\"__type__\": \"backend_array\", \"root\": \"/path/to\", \"url\": \"file\", \"shape\": {\"__type__\": \"tuple\", \"data\": [4, 3]}, \"dtype\": \"int16\", \"byte_ranges\": [{\"__type__\": \"tuple\", \"data\": [5, 10]}, {\"__type__\": \"tuple\", \"data\": [15, 20]}, {\"__type__\": \"tuple\", \"data\": [25, 30]}, {\"__type__\": \"tuple\", \"data\": [35, 40]}], \"type_code\": \"IU2\"}, \"attrs\": {\"pol\": \"HH\"}}, \"dt\": {\"__type__\": \"variable\", \"dims\": [\"rows\"], \"data\": {\"__type__\": \"array\", \"dtype\": \"timedelta64[ms]\", \"data\": [0, 5], \"encoding\": {\"units\": \"ms\"}}, \"attrs\": {}}, \"deeper\": {\"__type__\": \"group\", \"url\": \"other\", \"data\": {}, \"path\": \"/imagery/deeper\", \"attrs\": {\"n\": {\"__type__\": \"tuple\", \"data\": [1, {\"__type__\": \"tuple\", \"data\": [2, 3]}]}}}}, \"path\": \"/imagery\", \"attrs\": {\"k\": [1, {\"__type__\": \"tuple\", \"data\": [2, 3]}, {\"z\": {\"__type__\": \"tuple\", \"data\": [4]}}]}}, \"z\": {\"__type__\": \"variable\", \"dims\": [\"p\", \"q\"], \"data\": {\"__type__\": \"array\", \"dtype\": \"float64\", \"data\": [[0.0, 1.0], [2.0, 3.0]], \"encoding\": {}}, \"attrs\": {\"a\": null}}}, \"path\": \"/\", \"attrs\": {\"title\": \"scene\", \"shape\": {\"__type__\": \"tuple\", \"data\": [2, 3]}, \"nested\": {\"t\": {\"__type__\": \"tuple\", \"data\": [1, 2]}, \"l\": [{\"__type__\": \"tuple\", \"data\": []}, [{\"__type__\": \"tuple\", \"data\": []}]]}}}'"]],
 "encode-variable": ["returned", ["str", "'{\"__type__\": \"variable\", \"dims\": [\"x\"], \"data\": {\"__type__\": \"array\", \"dtype\": \"int8\", \"data\": [1, 2, 3], \"encoding\": {}}, \"attrs\": {\"t\": {\"__type__\": \"tuple\", \"data\": [1, {\"__type__\": \"tuple\", \"data\": [2]}]}}}'"]],
 "group-data-list": ["raised", [["AttributeError", "'list' object has no attribute 'keys'"]]],
 "group-data-none": ["raised", [["AttributeError", "'NoneType' object has no attribute 'keys'"]]],
 "group-data-ordered": ["returned", ["dict", [[["str", "'__type__'"], ["str", "'group'"]], [["str", "'url'"], ["str", "'u'"]], [["str", "'data'"], ["dict", [[["str", "'q'"], ["dict", [[["str", "'__type__'"], ["str", "'variable'"]], [["str", "'dims'"], ["list", [["str", "'x'"]]]], [["str", "'data'"], ["dict", [[["str", "'__type__'"], ["str", "'array'"]], [["str", "'dtype'"], ["str", "'int8'"]], [["str", "'data'"], ["list", [["int", "1"], ["int", "2"], ["int", "3"]]]], [["str", "'encoding'"], ["dict", []]]]]], [["str", "'attrs'"], ["dict", []]]]]], [["str", "'p'"], ["dict", [[["str", "'__type__'"], ["str", "'variable'"]], [["str", "'dims'"], ["list", [["str", "'y'"]]]], [["str", "'data'"], ["dict", [[["str", "'__type__'"], ["str", "'array'"]], [["str", "'dtype'"], ["str", "'int8'"]], [["str", "'data'"], ["list", [["int", "1"], ["int", "2"], ["int", "3"]]]], [["str", "'encoding'"], ["dict", []]]]]], [["str", "'attrs'"], ["dict", []]]]]]]]], [["str", "'path'"], ["str", "'/'"]], [["str", "'attrs'"], ["dict", []]]]]],
 "group-empty": ["returned", ["dict", [[["str", "'__type__'"], ["str", "'group'"]], [["str", "'url'"], ["NoneType", "None"]], [["str", "'data'"], ["dict", []]], [["str", "'path'"], ["str", "'/'"]], [["str", "'attrs'"], ["dict", []]]]]],
 "group-empty-path": ["returned", ["dict", [[["str", "'__type__'"], ["str", "'group'"]], [["str", "'url'"], ["str", "'u'"]], [["str", "'data'"], ["dict", []]], [["str", "'path'"], ["str", "'/a/b'"]], [["str", "'attrs'"], ["dict", [[["str", "'x'"], ["int", "1"]]]]]]]],
 "group-entry-dict": ["raised", [["AttributeError", "'dict' object has no attribute 'data'"]]],
 "group-entry-int": ["raised", [["AttributeError", "'int' object has no attribute 'data'"]]],
 "group-entry-ndarray": ["raised", [["AttributeError", "'numpy.ndarray' object has no attribute 'dims'"]]],
 "group-entry-none": ["raised", [["AttributeError", "'NoneType' object has no attribute 'data'"]]],
 "group-entry-opaque": ["raised", [["AttributeError", "'Opaque' object has no attribute 'data'"]]],
 "group-on-dict": ["raised", [["AttributeError", "'dict' object has no attribute 'data'"]]],
 "group-on-int": ["raised", [["AttributeError", "'int' object has no attribute 'data'"]]],
 "group-on-none": ["raised", [["AttributeError", "'NoneType' object has no attribute 'data'"]]],
 "group-on-variable": ["raised", [["AttributeError", "'numpy.ndarray' object has no attribute 'keys'"]]],
 "group-order": ["returned", ["list", [["list", [["str", "'__type__'"], ["str", "'url'"], ["str", "'data'"], ["str", "'path'"], ["str", "'attrs'"]]], ["list", [["str", "'b'"], ["str", "'a'"], ["str", "'imagery'"], ["str", "'z'"]]], ["list", [["str", "'data'"], ["str", "'dt'"], ["str", "'deeper'"]]]]]],
 "group-subtree": ["returned", ["dict", [[["str", "'__type__'"], ["str", "'group'"]], [["str", "'url'"], ["str", "'s3://bucket/scene'"]], [["str", "'data'"], ["dict", [[["str", "'data'"], ["dict", [[["str", "'__type__'"], ["str", "'variable'"]], [["str", "'dims'"], ["list", [["str", "'rows'"], ["str", "'cols'"]]]], [["str", "'data'"], ["dict", [[["str", "'__type__'"], ["str", "'backend_array'"]], [["str", "'root'"], ["str", "'/path/to'"]], [["str", "'url'"], ["str", "'file'"]], [["str", "'shape'"], ["tuple", [["int", "4"], ["int", "3"]]]], [["str", "'dtype'"], ["str", "'int16'"]], [["str", "'byte_ranges'"], ["list", [["tuple", [["int", "5"], ["int", "10"]]], ["tuple", [["int", "15"], ["int", "20"]]], ["tuple", [["int", "25"], ["int", "30"]]], ["tuple", [["int", "35"], ["int", "40"]]]]]], [["str", "'type_code'"], ["str", "'IU2'"]]]]], [["str", "'attrs'"], ["dict", [[["str", "'pol'"], ["str", "'HH'"]]]]]]]], [["str", "'dt'"], ["dict", [[["str", "'__type__'"], ["str", "'variable'"]], [["str", "'dims'"], ["list", [["str", "'rows'"]]]], [["str", "'data'"], ["dict", [[["str", "'__type__'"], ["str", "'array'"]], [["str", "'dtype'"], ["str", "'timedelta64[ms]'"]], [["str", "'data'"], ["list", [["int", "0"], ["int", "5"]]]], [["str", "'encoding'"], ["dict", [[["str", "'units'"], ["str", "'ms'"]]]]]]]], [["str", "'attrs'"], ["dict", []]]]]], [["str", "'deeper'"], ["dict", [[["str", "'__type__'"], ["str", "'group'"]], [["str", "'url'"], ["str", "'other'"]], [["str", "'data'"], ["dict", []]], [["str", "'path'"], ["str", "'/imagery/deeper'"]], [["str", "'attrs'"], ["dict", [[["str", "'n'"], ["tuple", [["int", "1"], ["tuple", [["int", "2"], ["int", "3"]]]]]]]]]]]]]]], [["str", "'path'"], ["str", "'/imagery'"]], [["str", "'attrs'"], ["dict", [[["str", "'k'"], ["list", [["int", "1"], ["tuple", [["int", "2"], ["int", "3"]]], ["dict", [[["str", "'z'"], ["tuple", [["int", "4"]]]]]]]]]]]]]]],
 "group-tree": ["returned", ["dict", [[["str", "'__type__'"], ["str", "'group'"]], [["str", "'url'"], ["str", "'s3://bucket/scene'"]], [["str", "'data'"], ["dict", [[["str", "'b'"], ["dict", [[["str", "'__type__'"], ["str", "'variable'"]], [["str", "'dims'"], ["list", [["str", "'x'"]]]], [["str", "'data'"], ["dict", [[["str", "'__type__'"], ["str", "'array'"]], [["str", "'dtype'"], ["str", "'int8'"]], [["str", "'data'"], ["list", [["int", "1"], ["int", "2"], ["int", "3"]]]], [["str", "'encoding'"], ["dict", []]]]]], [["str", "'attrs'"], ["dict", [[["str", "'units'"], ["str", "'m'"]], [["str", "'range'"], ["tuple", [["int", "0"], ["int", "1"]]]]]]]]]], [["str", "'a'"], ["dict", [[["str", "'__type__'"], ["str", "'variable'"]], [["str", "'dims'"], ["list", [["str", "'t'"]]]], [["str", "'data'"], ["dict", [[["str", "'__type__'"], ["str", "'array'"]], [["str", "'dtype'"], ["str", "'datetime64[s]'"]], [["str", "'data'"], ["list", [["int", "0"], ["int", "86400"]]]], [["str", "'encoding'"], ["dict", [[["str", "'reference'"], ["str", "'2020-01-01T00:00:00'"]], [["str", "'units'"], ["str", "'s'"]]]]]]]], [["str", "'attrs'"], ["dict", []]]]]], [["str", "'imagery'"], ["dict", [[["str", "'__type__'"], ["str", "'group'"]], [["str", "'url'"], ["str", "'s3://bucket/scene'"]], [["str", "'data'"], ["dict", [[["str", "'data'"], ["dict", [[["str", "'__type__'"], ["str", "'variable'"]], [["str", "'dims'"], ["list", [["str", "'rows'"], ["str", "'cols'"]]]], [["str", "'data'"], ["dict", [[["str", "'__type__'"], ["str", "'backend_array'"]], [["str", "'root'"], ["str", "'/path/to'"]], [["str", "'url'"], ["str", "'file'"]], [["str", "'shape'"], ["tuple", [["int", "4"], ["int", "3"]]]], [["str", "'dtype'"], ["str", "'int16'"]], [["str", "'byte_ranges'"], ["list", [["tuple", [["int", "5"], ["int", "10"]]], ["tuple", [["int", "15"], ["int", "20"]]], ["tuple", [["int", "25"], ["int", "30"]]], ["tuple", [["int", "35"], ["int", "40"]]]]]], [["str", "'type_code'"], ["str", "'IU2'"]]]]], [["str", "'attrs'"], ["dict", [[["str", "'pol'"], ["str", "'HH'"]]]]]]]], [["str", "'dt'"], ["dict", [[["str", "'__type__'"], ["str", "'variable'"]], [["str", "'dims'"], ["list", [["str", "'rows'"]]]], [["str", "'data'"], ["dict", [[["str", "'__type__'"], ["str", "'array'"]], [["str", "'dtype'"], ["str", "'timedelta64[ms]'"]], [["str", "'data'"], ["list", [["int", "0"], ["int", "5"]]]], [["str", "'encoding'"], ["dict", [[["str", "'units'"], ["str", "'ms'"]]]]]]]], [["str", "'attrs'"], ["dict", []]]]]], [["str", "'deeper'"], ["dict", [[["str", "'__type__'"], ["str", "'group'"]], [["str", "'url'"], ["str", "'other'"]], [["str", "'data'"], ["dict", []]], [["str", "'path'"], ["str", "'/imagery/deeper'"]], [["str", "'attrs'"], ["dict", [[["str", "'n'"], ["tuple", [["int", "1"], ["tuple", [["int", "2"], ["int", "3"]]]]]]]]]]]]]]], [["str", "'path'"], ["str", "'/imagery'"]], [["str", "'attrs'"], ["dict", [[["str", "'k'"], ["list", [["int", "1"], ["tuple", [["int", "2"], ["int", "3"]]], ["dict", [[["str", "'z'"], ["tuple", [["int", "4"]]]]]]]]]]]]]]], [["str", "'z'"], ["dict", [[["str", "'__type__'"], ["str", "'variable'"]], [["str", "'dims'"], ["list", [["str", "'p'"], ["str", "'q'"]]]], [["str", "'data'"], ["dict", [[["str", "'__type__'"], ["str", "'array'"]], [["str", "'dtype'"], ["str", "'float64'"]], [["str", "'data'"], ["list", [["list", [["float", "0.0"], ["float", "1.0"]]], ["list", [["float", "2.0"], ["float", "3.0"]]]]]], [["str", "'encoding'"], ["dict", []]]]]], [["str", "'attrs'"], ["dict", [[["str", "'a'"], ["NoneType", "None"]]]]]]]]]]], [["str", "'path'"], ["str", "'/'"]], [["str", "'attrs'"], ["dict", [[["str", "'title'"], ["str", "'scene'"]], [["str", "'shape'"], ["tuple", [["int", "2"], ["int", "3"]]]], [["str", "'nested'"], ["dict", [[["str", "'t'"], ["tuple", [["int", "1"], ["int", "2"]]]], [["str", "'l'"], ["list", [["tuple", []], ["list", [["tuple", []]]]]]]]]]]]]]]],
 "group-vars-only": ["returned", ["dict", [[["str", "'__type__'"], ["str", "'group'"]], [["str", "'url'"], ["str", "'u'"]], [["str", "'data'"], ["dict", [[["str", "'y'"], ["dict", [[["str", "'__type__'"], ["str", "'variable'"]], [["str", "'dims'"], ["list", [["str", "'x'"]]]], [["str", "'data'"], ["dict", [[["str", "'__type__'"], ["str", "'array'"]], [["str", "'dtype'"], ["str", "'int8'"]], [["str", "'data'"], ["list", [["int", "1"], ["int", "2"], ["int", "3"]]]], [["str", "'encoding'"], ["dict", []]]]]], [["str", "'attrs'"], ["dict", []]]]]], [["str", "'x'"], ["dict", [[["str", "'__type__'"], ["str", "'variable'"]], [["str", "'dims'"], ["list", [["str", "'x'"]]]], [["str", "'data'"], ["dict", [[["str", "'__type__'"], ["str", "'array'"]], [["str", "'dtype'"], ["str", "'int8'"]], [["str", "'data'"], ["list", [["int", "1"], ["int", "2"], ["int", "3"]]]], [["str", "'encoding'"], ["dict", []]]]]], [["str", "'attrs'"], ["dict", []]]]]]]]], [["str", "'path'"], ["str", "'p'"]], [["str", "'attrs'"], ["dict", []]]]]],
 "hierarchy-backend-variable": ["returned", ["dict", [[["str", "'__type__'"], ["str", "'variable'"]], [["str", "'dims'"], ["list", [["str", "'r'"], ["str", "'c'"]]]], [["str", "'data'"], ["dict", [[["str", "'__type__'"], ["str", "'backend_array'"]], [["str", "'root'"], ["str", "'/path/to'"]], [["str", "'url'"], ["str", "'file'"]], [["str", "'shape'"], ["tuple", [["int", "2"], ["int", "2"]]]], [["str", "'dtype'"], ["str", "'complex64'"]], [["str", "'byte_ranges'"], ["list", [["tuple", [["int", "5"], ["int", "10"]]], ["tuple", [["int", "15"], ["int", "20"]]]]]], [["str", "'type_code'"], ["str", "'C*8'"]]]]], [["str", "'attrs'"], ["dict", []]]]]],
 "hierarchy-group": ["returned", ["dict", [[["str", "'__type__'"], ["str", "'group'"]], [["str", "'url'"], ["str", "'s3://bucket/scene'"]], [["str", "'data'"], ["dict", [[["str", "'b'"], ["dict", [[["str", "'__type__'"], ["str", "'variable'"]], [["str", "'dims'"], ["list", [["str", "'x'"]]]], [["str", "'data'"], ["dict", [[["str", "'__type__'"], ["str", "'array'"]], [["str", "'dtype'"], ["str", "'int8'"]], [["str", "'data'"], ["list", [["int", "1"], ["int", "2"], ["int", "3"]]]], [["str", "'encoding'"], ["dict", []]]]]], [["str", "'attrs'"], ["dict", [[["str", "'units'"], ["str", "'m'"]], [["str", "'range'"], ["tuple", [["int", "0"], ["int", "1"]]]]]]]]]], [["str", "'a'"], ["dict", [[["str", "'__type__'"], ["str", "'variable'"]], [["str", "'dims'"], ["list", [["str", "'t'"]]]], [["str", "'data'"], ["dict", [[["str", "'__type__'"], ["str", "'array'"]], [["str", "'dtype'"], ["str", "'datetime64[s]'"]], [["str", "'data'"], ["list", [["int", "0"], ["int", "86400"]]]], [["str", "'encoding'"], ["dict", [[["str", "'reference'"], ["str", "'2020-01-01T00:00:00'"]], [["str", "'units'"], ["str", "'s'"]]]]]]]], [["str", "'attrs'"], ["dict", []]]]]], [["str", "'imagery'"], ["dict", [[["str", "'__type__'"], ["str", "'group'"]], [["str", "'url'"], ["str", "'s3://bucket/scene'"]], [["str", "'data'"], ["dict", [[["str", "'data'"], ["dict", [[["str", "'__type__'"], ["str", "'variable'"]], [["str", "'dims'"], ["list", [["str", "'rows'"], ["str", "'cols'"]]]], [["str", "'data'"], ["dict", [[["str", "'__type__'"], ["str", "'backend_array'"]], [["str", "'root'"], ["str", "'/path/to'"]], [["str", "'url'"], ["str", "'file'"]], [["str", "'shape'"], ["tuple", [["int", "4"], ["int", "3"]]]], [["str", "'dtype'"], ["str", "'int16'"]], [["str", "'byte_ranges'"], ["list", [["tuple", [["int", "5"], ["int", "10"]]], ["tuple", [["int", "15"], ["int", "20"]]], ["tuple", [["int", "25"], ["int", "30"]]], ["tuple", [["int", "35"], ["int", "40"]]]]]], [["str", "'type_code'"], ["str", "'IU2'"]]]]], [["str", "'attrs'"], ["dict", [[["str", "'pol'"], ["str", "'HH'"]]]]]]]], [["str", "'dt'"], ["dict", [[["str", "'__type__'"], ["str", "'variable'"]], [["str", "'dims'"], ["list", [["str", "'rows'"]]]], [["str", "'data'"], ["dict", [[["str", "'__type__'"], ["str", "'array'"]], [["str", "'dtype'"], ["str", "'timedelta64[ms]'"]], [["str", "'data'"], ["list", [["int", "0"], ["int", "5"]]]], [["str", "'encoding'"], ["dict", [[["str", "'units'"], ["str", "'ms'"]]]]]]]], [["str", "'attrs'"], ["dict", []]]]]], [["str", "'deeper'"], ["dict", [[["str", "'__type__'"], ["str", "'group'"]], [["str", "'url'"], ["str", "'other'"]], [["str", "'data'"], ["dict", []]], [["str", "'path'"], ["str", "'/imagery/deeper'"]], [["str", "'attrs'"], ["dict", [[["str", "'n'"], ["tuple", [["int", "1"], ["tuple", [["int", "2"], ["int", "3"]]]]]]]]]]]]]]], [["str", "'path'"], ["str", "'/imagery'"]], [["str", "'attrs'"], ["dict", [[["str", "'k'"], ["list", [["int", "1"], ["tuple", [["int", "2"], ["int", "3"]]], ["dict", [[["str", "'z'"], ["tuple", [["int", "4"]]]]]]]]]]]]]]], [["str", "'z'"], ["dict", [[["str", "'__type__'"], ["str", "'variable'"]], [["str", "'dims'"], ["list", [["str", "'p'"], ["str", "'q'"]]]], [["str", "'data'"], ["dict", [[["str", "'__type__'"], ["str", "'array'"]], [["str", "'dtype'"], ["str", "'float64'"]], [["str", "'data'"], ["list", [["list", [["float", "0.0"], ["float", "1.0"]]], ["list", [["float", "2.0"], ["float", "3.0"]]]]]], [["str", "'encoding'"], ["dict", []]]]]], [["str", "'attrs'"], ["dict", [[["str", "'a'"], ["NoneType", "None"]]]]]]]]]]], [["str", "'path'"], ["str", "'/'"]], [["str", "'attrs'"], ["dict", [[["str", "'title'"], ["str", "'scene'"]], [["str", "'shape'"], ["tuple", [["int", "2"], ["int", "3"]]]], [["str", "'nested'"], ["dict", [[["str", "'t'"], ["tuple", [["int", "1"], ["int", "2"]]]], [["str", "'l'"], ["list", [["tuple", []], ["list", [["tuple", []]]]]]]]]]]]]]]],
 "hierarchy-passthrough-dict": ["returned", ["dict", [[["str", "'a'"], ["tuple", [["int", "1"], ["int", "2"]]]]]]],
 "hierarchy-passthrough-identity": ["returned", ["list", [["bool", "True"], ["bool", "True"]]]],
 "hierarchy-passthrough-int": ["returned", ["int", "1"]],
 "hierarchy-passthrough-list": ["returned", ["list", [["int", "1"], ["tuple", [["int", "2"]]]]]],
 "hierarchy-passthrough-ndarray": ["returned", ["ndarray", "int64", [2], [["int", "1"], ["int", "2"]]]],
 "hierarchy-passthrough-none": ["returned", ["NoneType", "None"]],
 "hierarchy-passthrough-opaque": ["returned", ["other", "Opaque", "Opaque()"]],
 "hierarchy-passthrough-str": ["returned", ["str", "'abc'"]],
 "hierarchy-passthrough-tuple": ["returned", ["tuple", [["int", "1"], ["int", "2"]]]],
 "hierarchy-variable": ["returned", ["dict", [[["str", "'__type__'"], ["str", "'variable'"]], [["str", "'dims'"], ["list", [["str", "'x'"]]]], [["str", "'data'"], ["dict", [[["str", "'__type__'"], ["str", "'array'"]], [["str", "'dtype'"], ["str", "'int8'"]], [["str", "'data'"], ["list", [["int", "1"], ["int", "2"], ["int", "3"]]]], [["str", "'encoding'"], ["dict", []]]]]], [["str", "'attrs'"], ["dict", [[["str", "'a'"], ["tuple", [["int", "1"], ["int", "2"]]]]]]]]]],
 "preprocess-counter": ["returned", ["dict", [[["str", "'a'"], ["int", "2"]], [["str", "'b'"], ["int", "1"]]]]],
 "preprocess-deep": ["returned", ["list", [["list", [["list", [["list", [["dict", [[["str", "'__type__'"], ["str", "'tuple'"]], [["str", "'data'"], ["list", [["dict", [[["str", "'__type__'"], ["str", "'tuple'"]], [["str", "'data'"], ["list", [["dict", [[["str", "'__type__'"], ["str", "'tuple'"]], [["str", "'data'"], ["list", [["dict", [[["str", "'__type__'"], ["str", "'tuple'"]], [["str", "'data'"], ["list", [["int", "1"]]]]]]]]]]]]]]]]]]]]]]]]]]]]]],
 "preprocess-defaultdict": ["returned", ["dict", [[["str", "'k'"], ["dict", [[["str", "'__type__'"], ["str", "'tuple'"]], [["str", "'data'"], ["list", [["int", "1"], ["int", "2"]]]]]]]]]],
 "preprocess-dict-in-tuple": ["returned", ["dict", [[["str", "'__type__'"], ["str", "'tuple'"]], [["str", "'data'"], ["list", [["dict", [[["str", "'a'"], ["int", "1"]]]], ["dict", [[["str", "'b'"], ["dict", [[["str", "'__type__'"], ["str", "'tuple'"]], [["str", "'data'"], ["list", [["int", "2"]]]]]]]]]]]]]]],
 "preprocess-dict-subclass": ["returned", ["dict", [[["str", "'a'"], ["dict", [[["str", "'__type__'"], ["str", "'tuple'"]], [["str", "'data'"], ["list", [["int", "1"]]]]]]], [["str", "'b'"], ["dict", []]]]]],
 "preprocess-empty-dict": ["returned", ["dict", []]],
 "preprocess-empty-list": ["returned", ["list", []]],
 "preprocess-empty-tuple": ["returned", ["dict", [[["str", "'__type__'"], ["str", "'tuple'"]], [["str", "'data'"], ["list", []]]]]],
 "preprocess-encoded-tree": ["returned", ["dict", [[["str", "'__type__'"], ["str", "'group'"]], [["str", "'url'"], ["str", "'s3://bucket/scene'"]], [["str", "'data'"], ["dict", [[["str", "'b'"], ["dict", [[["str", "'__type__'"], ["str", "'variable'"]], [["str", "'dims'"], ["list", [["str", "'x'"]]]], [["str", "'data'"], ["dict", [[["str", "'__type__'"], ["str", "'array'"]], [["str", "'dtype'"], ["str", "'int8'"]], [["str", "'data'"], ["list", [["int", "1"], ["int", "2"], ["int", "3"]]]], [["str", "'encoding'"], ["dict", []]]]]], [["str", "'attrs'"], ["dict", [[["str", "'units'"], ["str", "'m'"]], [["str", "'range'"], ["dict", [[["str", "'__type__'"], ["str", "'tuple'"]], [["str", "'data'"], ["list", [["int", "0"], ["int", "1"]]]]]]]]]]]]], [["str", "'a'"], ["dict", [[["str", "'__type__'"], ["str", "'variable'"]], [["str", "'dims'"], ["list", [["str", "'t'"]]]], [["str", "'data'"], ["dict", [[["str", "'__type__'"], ["str", "'array'"]], [["str", "'dtype'"], ["str", "'datetime64[s]'"]], [["str", "'data'"], ["list", [["int", "0"], ["int", "86400"]]]], [["str", "'encoding'"], ["dict", [[["str", "'reference'"], ["str", "'2020-01-01T00:00:00'"]], [["str", "'units'"], ["str", "'s'"]]]]]]]], [["str", "'attrs'"], ["dict", []]]]]], [["str", "'imagery'"], ["dict", [[["str", "'__type__'"], ["str", "'group'"]], [["str", "'url'"], ["str", "'s3://bucket/scene'"]], [["str", "'data'"], ["dict", [[["str", "'data'"], ["dict", [[["str", "'__type__'"], ["str", "'variable'"]], [["str", "'dims'"], ["list", [["str", "'rows'"], ["str", "'cols'"]]]], [["str", "'data'"], ["dict", [[["str", "'__type__'"], ["str", "'backend_array'"]], [["str", "'root'"], ["str", "'/path/to'"]], [["str", "'url'"], ["str", "'file'"]], [["str", "'shape'"], ["dict", [[["str", "'__type__'"], ["str", "'tuple'"]], [["str", "'data'"], ["list", [["int", "4"], ["int", "3"]]]]]]], [["str", "'dtype'"], ["str", "'int16'"]], [["str", "'byte_ranges'"], ["list", [["dict", [[["str", "'__type__'"], ["str", "'tuple'"]], [["str", "'data'"], ["list", [["int", "5"], ["int", "10"]]]]]], ["dict", [[["str", "'__type__'"], ["str", "'tuple'"]], [["str", "'data'"], ["list", [["int", "15"], ["int", "20"]]]]]], ["dict", [[["str", "'__type__'"], ["str", "'tuple'"]], [["str", "'data'"], ["list", [["int", "25"], ["int", "30"]]]]]], ["dict", [[["str", "'__type__'"], ["str", "'tuple'"]], [["str", "'data'"], ["list", [["int", "35"], ["int", "40"]]]]]]]]], [["str", "'type_code'"], ["str", "'IU2'"]]]]], [["str", "'attrs'"], ["dict", [[["str", "'pol'"], ["str", "'HH'"]]]]]]]], [["str", "'dt'"], ["dict", [[["str", "'__type__'"], ["str", "'variable'"]], [["str", "'dims'"], ["list", [["str", "'rows'"]]]], [["str", "'data'"], ["dict", [[["str", "'__type__'"], ["str", "'array'"]], [["str", "'dtype'"], ["str", "'timedelta64[ms]'"]], [["str", "'data'"], ["list", [["int", "0"], ["int", "5"]]]], [["str", "'encoding'"], ["dict", [[["str", "'units'"], ["str", "'ms'"]]]]]]]], [["str", "'attrs'"], ["dict", []]]]]], [["str", "'deeper'"], ["dict", [[["str", "'__type__'"], ["str", "'group'"]], [["str", "'url'"], ["str", "'other'"]], [["str", "'data'"], ["dict", []]], [["str", "'path'"], ["str", "'/imagery/deeper'"]], [["str", "'attrs'"], ["dict", [[["str", "'n'"], ["dict", [[["str", "'__type__'"], ["str", "'tuple'"]], [["str", "'data'"], ["list", [["int", "1"], ["dict", [[["str", "'__type__'"], ["str", "'tuple'"]], [["str", "'data'"], ["list", [["int", "2"], ["int", "3"]]]]]]]]]]]]]]]]]]]]], [["str", "'path'"], ["str", "'/imagery'"]], [["str", "'attrs'"], ["dict", [[["str", "'k'"], ["list", [["int", "1"], ["dict", [[["str", "'__type__'"], ["str", "'tuple'"]], [["str", "'data'"], ["list", [["int", "2"], ["int", "3"]]]]]], ["dict", [[["str", "'z'"], ["dict", [[["str", "'__type__'"], ["str", "'tuple'"]], [["str", "'data'"], ["list", [["int", "4"]]]]]]]]]]]]]]]]]], [["str", "'z'"], ["dict", [[["str", "'__type__'"], ["str", "'variable'"]], [["str", "'dims'"], ["list", [["str", "'p'"], ["str", "'q'"]]]], [["str", "'data'"], ["dict", [[["str", "'__type__'"], ["str", "'array'"]], [["str", "'dtype'"], ["str", "'float64'"]], [["str", "'data'"], ["list", [["list", [["float", "0.0"], ["float", "1.0"]]], ["list", [["float", "2.0"], ["float", "3.0"]]]]]], [["str", "'encoding'"], ["dict", []]]]]], [["str", "'attrs'"], ["dict", [[["str", "'a'"], ["NoneType", "None"]]]]]]]]]]], [["str", "'path'"], ["str", "'/'"]], [["str", "'attrs'"], ["dict", [[["str", "'title'"], ["str", "'scene'"]], [["str", "'shape'"], ["dict", [[["str", "'__type__'"], ["str", "'tuple'"]], [["str", "'data'"], ["list", [["int", "2"], ["int", "3"]]]]]]], [["str", "'nested'"], ["dict", [[["str", "'t'"], ["dict", [[["str", "'__type__'"], ["str", "'tuple'"]], [["str", "'data'"], ["list", [["int", "1"], ["int", "2"]]]]]]], [["str", "'l'"], ["list", [["dict", [[["str", "'__type__'"], ["str", "'tuple'"]], [["str", "'data'"], ["list", []]]]], ["list", [["dict", [[["str", "'__type__'"], ["str", "'tuple'"]], [["str", "'data'"], ["list", []]]]]]]]]]]]]]]]]]],
 "preprocess-flat-dict": ["returned", ["dict", [[["str", "'b'"], ["int", "1"]], [["str", "'a'"], ["str", "'x'"]]]]],
 "preprocess-flat-list": ["returned", ["list", [["int", "1"], ["str", "'a'"], ["NoneType", "None"]]]],
 "preprocess-flat-tuple": ["returned", ["dict", [[["str", "'__type__'"], ["str", "'tuple'"]], [["str", "'data'"], ["list", [["int", "1"], ["str", "'a'"], ["NoneType", "None"]]]]]]],
 "preprocess-frozenset": ["returned", ["other", "frozenset", "frozenset({1})"]],
 "preprocess-generator-free-range": ["returned", ["other", "range", "range(0, 3)"]],
 "preprocess-leaf-identity": ["returned", ["list", [["bool", "True"], ["bool", "True"]]]],
 "preprocess-list-in-tuple": ["returned", ["dict", [[["str", "'__type__'"], ["str", "'tuple'"]], [["str", "'data'"], ["list", [["list", [["int", "1"], ["int", "2"]]], ["dict", [[["str", "'k'"], ["dict", [[["str", "'__type__'"], ["str", "'tuple'"]], [["str", "'data'"], ["list", [["int", "1"]]]]]]]]], ["dict", [[["str", "'__type__'"], ["str", "'tuple'"]], [["str", "'data'"], ["list", [["dict", [[["str", "'__type__'"], ["str", "'tuple'"]], [["str", "'data'"], ["list", []]]]], ["list", [["dict", [[["str", "'__type__'"], ["str", "'tuple'"]], [["str", "'data'"], ["list", []]]]]]]]]]]]]]]]]],
 "preprocess-list-subclass": ["returned", ["list", [["dict", [[["str", "'__type__'"], ["str", "'tuple'"]], [["str", "'data'"], ["list", [["int", "1"]]]]]], ["list", []]]]],
 "preprocess-mixed": ["returned", ["list", [["int", "1"], ["dict", [[["str", "'__type__'"], ["str", "'tuple'"]], [["str", "'data'"], ["list", [["int", "2"]]]]]], ["int", "3"]]]],
 "preprocess-namedtuple": ["returned", ["dict", [[["str", "'__type__'"], ["str", "'tuple'"]], [["str", "'data'"], ["list", [["int", "1"], ["dict", [[["str", "'__type__'"], ["str", "'tuple'"]], [["str", "'data'"], ["list", [["int", "2"], ["int", "3"]]]]]]]]]]]],
 "preprocess-ndarray": ["returned", ["ndarray", "int64", [2], [["int", "1"], ["int", "2"]]]],
 "preprocess-ndarray-in-list": ["returned", ["list", [["ndarray", "int64", [2], [["int", "1"], ["int", "2"]]], ["dict", [[["str", "'__type__'"], ["str", "'tuple'"]], [["str", "'data'"], ["list", [["float32", "1.5"]]]]]]]]],
 "preprocess-no-mutation": ["returned", ["list", [["bool", "True"], ["bool", "False"], ["bool", "False"], ["dict", [[["str", "'a'"], ["dict", [[["str", "'__type__'"], ["str", "'tuple'"]], [["str", "'data'"], ["list", [["int", "1"], ["list", [["int", "2"], ["dict", [[["str", "'__type__'"], ["str", "'tuple'"]], [["str", "'data'"], ["list", [["int", "3"]]]]]]]]]]]]]], [["str", "'b'"], ["list", [["dict", [[["str", "'__type__'"], ["str", "'tuple'"]], [["str", "'data'"], ["list", []]]]], ["dict", []]]]]]]]]],
 "preprocess-non-str-keys": ["returned", ["dict", [[["int", "1"], ["dict", [[["str", "'__type__'"], ["str", "'tuple'"]], [["str", "'data'"], ["list", [["int", "1"]]]]]]], [["tuple", [["int", "1"], ["int", "2"]]], ["str", "'tuple-key'"]], [["NoneType", "None"], ["list", [["dict", [[["str", "'__type__'"], ["str", "'tuple'"]], [["str", "'data'"], ["list", []]]]]]]]]]],
 "preprocess-opaque": ["returned", ["other", "Opaque", "Opaque()"]],
 "preprocess-ordered-dict": ["returned", ["dict", [[["str", "'z'"], ["dict", [[["str", "'__type__'"], ["str", "'tuple'"]], [["str", "'data'"], ["list", [["int", "1"]]]]]]], [["str", "'a'"], ["list", [["int", "2"]]]]]]],
 "preprocess-scalar-bool": ["returned", ["bool", "True"]],
 "preprocess-scalar-bytes": ["returned", ["bytes", "b'ab'"]],
 "preprocess-scalar-float": ["returned", ["float", "1.5"]],
 "preprocess-scalar-int": ["returned", ["int", "1"]],
 "preprocess-scalar-none": ["returned", ["NoneType", "None"]],
 "preprocess-scalar-str": ["returned", ["str", "'abc'"]],
 "preprocess-set": ["returned", ["other", "set", "{1}"]],
 "preprocess-tuple-in-dict": ["returned", ["dict", [[["str", "'a'"], ["dict", [[["str", "'__type__'"], ["str", "'tuple'"]], [["str", "'data'"], ["list", [["int", "1"], ["int", "2"]]]]]]], [["str", "'b'"], ["dict", [[["str", "'c'"], ["dict", [[["str", "'__type__'"], ["str", "'tuple'"]], [["str", "'data'"], ["list", [["int", "3"], ["dict", [[["str", "'__type__'"], ["str", "'tuple'"]], [["str", "'data'"], ["list", [["int", "4"], ["int", "5"]]]]]]]]]]]]]]]]]],
 "preprocess-tuple-in-list": ["returned", ["list", [["dict", [[["str", "'__type__'"], ["str", "'tuple'"]], [["str", "'data'"], ["list", [["int", "1"], ["int", "2"]]]]]], ["list", [["dict", [[["str", "'__type__'"], ["str", "'tuple'"]], [["str", "'data'"], ["list", []]]]], ["dict", [[["str", "'__type__'"], ["str", "'tuple'"]], [["str", "'data'"], ["list", [["int", "3"]]]]]]]]]]],
 "preprocess-type-key-clash": ["returned", ["dict", [[["str", "'__type__'"], ["str", "'tuple'"]], [["str", "'data'"], ["dict", [[["str", "'__type__'"], ["str", "'tuple'"]], [["str", "'data'"], ["list", [["int", "1"], ["int", "2"]]]]]]]]]]
}
'''


def test_equivalence():
    main(cases, EXPECTED)


if __name__ == "__main__":
    main(cases, EXPECTED)
